# -*- coding: UTF-8 -*-
"""
Equivalence transcript for the JUnit reporter (property C16).

PART A runs `python -m behave --junit ...` (subprocess, PYTHONPATH=worktree)
on a hostile feature set under many switch combinations, then dumps each
TESTS-*.xml (normalised raw text + independent expat/minidom parse +
counter cross-check).
PART B calls the anchored functions directly, in-process, on boundary inputs.
Volatile data (durations, timestamps, hostname) is normalised.
"""
from __future__ import absolute_import, print_function, unicode_literals
import sys
WORKTREE = "/tmp/wtW/C16"
sys.path.insert(0, WORKTREE)

import io
import os
import re
import shutil
import subprocess
import traceback
from xml.dom import minidom
from xml.etree import ElementTree as ET

HERE = os.path.dirname(os.path.abspath(__file__))
WORK = os.path.join(HERE, "work")
PYTHON = "/venv/bin/python"

ESC = "\x1b"
HOSTILE_NAME = "<&>\"' ]]> \x01\x08\x7f éü \U0001F600 \U0001FFFE ￾ " + ESC + "[31mred" + ESC + "[0m " + ESC + "[1A " + ESC + "[x"


def out(*args):
    text = " ".join(args)
    sys.stdout.write(text + "\n")


def show(value):
    """ASCII-only canonical repr."""
    if isinstance(value, bytes):
        return "b" + ascii(value.decode("latin-1"))
    return ascii(value)


# ---------------------------------------------------------------------------
# PART A: FILES
# ---------------------------------------------------------------------------
FEATURE_HOSTILE = """\
@tag<&> @t"q @étag
Feature: Hostile {hn}
  Description line ]]> <&>

  Background: bg {hn}
    Given a passing step

  Scenario: passes {hn}
    Given a step that prints hostile output
    When a passing step
    Then a step with docstring
      '''
      doc ]]> <&> \x01 é \U0001F600 {esc}[32mgreen{esc}[0m
      second line
      '''
    And a step with table
      | name <&>  | value ]]> |
      | é \x08    | {esc}[1A up    |

  @skipme
  Scenario: tagged skip {hn}
    Given a passing step

  Scenario: fails by assertion {hn}
    Given a passing step
    When a step that fails with hostile message
    Then a passing step

  Scenario: errors {hn}
    Given a step that prints hostile output
    When a step that raises hostile error
    Then a passing step

  Scenario: has undefined step
    Given a passing step
    When an undefined step ]]> <&> \x01
    Then a passing step

  Scenario: has pending step
    Given a pending step
    Then a passing step

  Scenario: has pending-warn step
    Given a not implemented step
    Then a passing step

  Scenario: skipped by step
    Given a passing step
    When the scenario is skipped
    Then a passing step

  @hook.before_scenario
  Scenario: before_scenario hook error
    Given a passing step

  @hook.after_scenario
  Scenario: after_scenario hook error
    Given a step that prints hostile output

  @hook.before_tag
  Scenario: before_tag hook error
    Given a passing step

  @hook.after_tag
  Scenario: after_tag hook error
    Given a passing step

  @hook.before_step
  Scenario: before_step hook error
    Given a passing step
    Then a passing step

  @hook.after_step
  Scenario: after_step hook error
    Given a passing step
    Then a passing step

  @hook.after_scenario
  Scenario: failing step and after_scenario hook error
    Given a step that fails with hostile message

  Scenario:
    Given a passing step

  @outline
  Scenario Outline: outline <name> -- <kind>
    Given a <kind> step
    Then a passing step

    Examples: first ]]>
      | name        | kind    |
      | plain       | passing |
      | <&> ]]> \x01  | passing |
      | fail-row    | failing |
      | err-row     | erroring |

    @skipme
    Examples: skipped rows
      | name        | kind    |
      | skip-1      | passing |
      | skip-2      | failing |

  Rule: a rule {hn}
    Background: rule bg
      Given a passing step

    Scenario: in rule passing
      Given a passing step

    Scenario: in rule failing
      Given a failing step

    Scenario Outline: in rule outline <n>
      Given a <kind> step
      Examples:
        | n | kind |
        | 1 | passing |
        | 2 | failing |
"""

FEATURE_NONAME = """\
Feature:
  Scenario: only one
    Given a passing step
  Scenario: two ]]>
    Given a failing step
"""

FEATURE_SKIPPED = """\
@skipme
Feature: Entirely skipped ]]> <&>
  Scenario: s1
    Given a passing step
  Scenario: s2
    Given a failing step
"""

FEATURE_BEFORE_FEATURE = """\
@hook.before_feature
Feature: before_feature hook fails
  Scenario: never runs 1
    Given a passing step
  Scenario: never runs 2
    Given a failing step
"""

FEATURE_BG_FAILS = """\
Feature: Background fails
  Background:
    Given a failing step
  Scenario: bg1
    Given a passing step
  Scenario: bg2
    Given a passing step
"""

FEATURE_EMPTY = """\
Feature: No scenarios at all
"""

FEATURE_DOTTED = """\
Feature: dotted filename
  Scenario: x
    Given a passing step
"""

STEPS = '''\
# -*- coding: UTF-8 -*-
from __future__ import print_function, unicode_literals
import sys
from behave import given, when, then, step
from behave.api.pending_step import StepNotImplementedError, PendingStepError

ESC = "\\x1b"
HOSTILE = "<&>\\"' ]]> ]]]]>> \\x01\\x08\\x0b\\x0c\\x1f\\x7f\\x85\\x9f \\u00e9\\u00fc \\U0001F600 \\U0001FFFE \\ufffe\\uffff " + ESC + "[31mred" + ESC + "[0m " + ESC + "[1A " + ESC + "[x " + ESC

@step("a passing step")
def step_passing(ctx):
    pass

@step("a failing step")
def step_failing(ctx):
    assert False, "plain failure"

@step("a erroring step")
def step_erroring(ctx):
    raise KeyError("plain <error> ]]>")

@step("a step that prints hostile output")
def step_prints(ctx):
    print("OUT:" + HOSTILE)
    print("ERR:" + HOSTILE, file=sys.stderr)

@step("a step that fails with hostile message")
def step_fails_hostile(ctx):
    print("before failure ]]>")
    assert 1 == 2, "MSG:" + HOSTILE

class WeirdError(Exception):
    pass

@step("a step that raises hostile error")
def step_raises_hostile(ctx):
    print("stderr before error ]]>", file=sys.stderr)
    raise WeirdError("  ERRMSG:" + HOSTILE + "  ")

@step("a step with docstring")
def step_docstring(ctx):
    assert ctx.text

@step("a step with table")
def step_table(ctx):
    assert ctx.table

@step("a pending step")
def step_pending(ctx):
    raise PendingStepError("pending ]]> <&>")

@step("a not implemented step")
def step_not_implemented(ctx):
    raise StepNotImplementedError("not implemented ]]> <&>")

@step("the scenario is skipped")
def step_skip(ctx):
    ctx.scenario.skip("because ]]> <&>")
'''

ENVIRONMENT = '''\
# -*- coding: UTF-8 -*-
from __future__ import print_function, unicode_literals
ESC = "\\x1b"
HOSTILE = "<&> ]]> \\x01\\x7f\\x85 \\u00e9 \\U0001F600 " + ESC + "[31mX" + ESC + "[0m"

class HookProblem(Exception):
    pass

def _maybe(tags, name):
    if "hook." + name in tags:
        print("hook output in %s ]]>" % name)
        raise HookProblem("%s: %s" % (name, HOSTILE))

def before_feature(ctx, feature):
    _maybe(feature.tags, "before_feature")

def before_scenario(ctx, scenario):
    _maybe(scenario.tags, "before_scenario")

def after_scenario(ctx, scenario):
    _maybe(scenario.tags, "after_scenario")

def before_step(ctx, step):
    _maybe(ctx.scenario.tags, "before_step")

def after_step(ctx, step):
    _maybe(ctx.scenario.tags, "after_step")

def before_tag(ctx, tag):
    if tag == "hook.before_tag":
        raise HookProblem("before_tag: " + HOSTILE)

def after_tag(ctx, tag):
    if tag == "hook.after_tag":
        raise HookProblem("after_tag: " + HOSTILE)
'''


def write_file(path, text):
    dirname = os.path.dirname(path)
    if not os.path.isdir(dirname):
        os.makedirs(dirname)
    with io.open(path, "w", encoding="UTF-8", newline="\n") as f:
        f.write(text)


def setup_workdir():
    if os.path.isdir(WORK):
        shutil.rmtree(WORK)
    os.makedirs(WORK)
    hostile = FEATURE_HOSTILE.replace("'''", '"""').format(hn=HOSTILE_NAME, esc=ESC)
    write_file(os.path.join(WORK, "features", "hostile.feature"), hostile)
    write_file(os.path.join(WORK, "features", "sub", "deep", "noname.feature"), FEATURE_NONAME)
    write_file(os.path.join(WORK, "features", "skipped.feature"), FEATURE_SKIPPED)
    write_file(os.path.join(WORK, "features", "before_feature.feature"), FEATURE_BEFORE_FEATURE)
    write_file(os.path.join(WORK, "features", "bg_fails.feature"), FEATURE_BG_FAILS)
    write_file(os.path.join(WORK, "features", "empty.feature"), FEATURE_EMPTY)
    write_file(os.path.join(WORK, "features", "sub", "a.b.c.feature"), FEATURE_DOTTED)
    write_file(os.path.join(WORK, "features", "steps", "steps.py"), STEPS)
    write_file(os.path.join(WORK, "features", "environment.py"), ENVIRONMENT)
    # -- SECOND ROOT: feature files outside of the "features" directory.
    write_file(os.path.join(WORK, "more", "extra.feature"), FEATURE_DOTTED.replace("dotted filename", "extra <&>"))
    write_file(os.path.join(WORK, "more", "steps", "steps.py"), STEPS)


# ---------------------------------------------------------------------------
# PART A: NORMALISATION AND DUMP
# ---------------------------------------------------------------------------
RE_TIME_ATTR = re.compile(r' time="[0-9.e+-]+"')
RE_TIMESTAMP = re.compile(r' timestamp="[^"]*"')
RE_HOSTNAME = re.compile(r' hostname="[^"]*"')
RE_IN_SECS = re.compile(r" in \d+\.\d{3}s")
RE_BEHAVE_LINE = re.compile(r'(File "[^"]*/behave/[^"]*", line )\d+')


def normalize(text):
    text = RE_TIME_ATTR.sub(' time="T"', text)
    text = RE_TIMESTAMP.sub(' timestamp="TS"', text)
    text = RE_HOSTNAME.sub(' hostname="HOST"', text)
    text = RE_IN_SECS.sub(" in N.NNNs", text)
    text = RE_BEHAVE_LINE.sub(r"\1N", text)
    return text


def dump_report(path):
    with io.open(path, "rb") as f:
        data = f.read()
    text = normalize(data.decode("UTF-8"))
    out("  RAW:")
    for line in text.split("\n"):
        out("    | " + show(line))
    # -- INDEPENDENT PARSERS: expat via minidom, and ElementTree.
    try:
        dom = minidom.parseString(data)
        out("  minidom: well-formed root=%s" % dom.documentElement.tagName)
    except Exception as e:  # pylint: disable=broad-except
        out("  minidom: NOT WELL-FORMED %s: %s" % (e.__class__.__name__, e))
    try:
        root = ET.fromstring(data)
    except Exception as e:  # pylint: disable=broad-except
        out("  etree: NOT WELL-FORMED %s: %s" % (e.__class__.__name__, e))
        return
    attrs = dict(root.attrib)
    for key in ("time", "timestamp", "hostname"):
        if key in attrs:
            attrs[key] = "~"
    out("  suite attrs: " + show(sorted(attrs.items())))
    cases = root.findall("testcase")
    n_fail = n_err = n_skip = 0
    for case in cases:
        children = [child.tag for child in case]
        n_fail += children.count("failure")
        n_err += children.count("error")
        n_skip += children.count("skipped")
        cattrs = dict(case.attrib)
        cattrs["time"] = "~"
        out("  case: " + show(sorted(cattrs.items())) + " children=" + show(children))
        for child in case:
            if child.tag in ("failure", "error"):
                out("    %s attrs=%s" % (child.tag, show(sorted(child.attrib.items()))))
                out("    %s text=%s" % (child.tag, show(normalize(child.text or ""))))
            elif child.tag in ("system-out", "system-err"):
                out("    %s text=%s" % (child.tag, show(normalize(child.text or ""))))
    out("  counted: tests=%d failures=%d errors=%d skipped=%d" % (len(cases), n_fail, n_err, n_skip))
    out("  declared: tests=%s failures=%s errors=%s skipped=%s" % (
        root.get("tests"), root.get("failures"), root.get("errors"), root.get("skipped")))


def run_behave(label, args, cwd=None):
    reports = os.path.join(WORK, "reports")
    if os.path.isdir(reports):
        shutil.rmtree(reports)
    env = dict(os.environ)
    env["PYTHONPATH"] = WORKTREE
    env["PYTHONIOENCODING"] = "UTF-8"
    env["PYTHONDONTWRITEBYTECODE"] = "1"
    env.pop("GHERKIN_COLORS", None)
    cmd = [PYTHON, "-m", "behave", "--junit", "--junit-directory", reports,
           "-f", "null", "--no-summary"] + args
    proc = subprocess.Popen(cmd, cwd=cwd or WORK, env=env,
                            stdout=subprocess.PIPE, stderr=subprocess.PIPE)
    stdout, stderr = proc.communicate()
    out("=" * 78)
    out("RUN %s: args=%s" % (label, show(args)))
    out("  returncode=%d" % proc.returncode)
    out("  stdout=" + show(normalize(stdout.decode("UTF-8", "replace"))))
    out("  stderr=" + show(normalize(stderr.decode("UTF-8", "replace"))))
    names = sorted(os.listdir(reports)) if os.path.isdir(reports) else []
    out("  report files: " + show(names))
    for name in names:
        out("-" * 60)
        out("  FILE " + name)
        dump_report(os.path.join(reports, name))


def part_a():
    setup_workdir()
    ud = "behave.reporter.junit."
    run_behave("A01 default", ["--tags=not @skipme"])
    run_behave("A02 show-skipped", ["--tags=not @skipme", "--show-skipped"])
    run_behave("A03 no-skipped", ["--tags=not @skipme", "--no-skipped"])
    run_behave("A04 show_skipped_always + no-skipped",
               ["--tags=not @skipme", "--no-skipped", "-D", ud + "show_skipped_always=true"])
    run_behave("A05 all switches off",
               ["--tags=not @skipme", "--no-skipped",
                "-D", ud + "show_timings=false", "-D", ud + "show_hostname=false",
                "-D", ud + "show_timestamp=false", "-D", ud + "show_scenarios=false",
                "-D", ud + "show_tags=false", "-D", ud + "show_multiline=false"])
    run_behave("A06 no tags/multiline/timings",
               ["--tags=not @skipme",
                "-D", ud + "show_timings=no", "-D", ud + "show_tags=off",
                "-D", ud + "show_multiline=0"])
    run_behave("A07 no scenarios", ["-D", ud + "show_scenarios=false", "features/hostile.feature"])
    run_behave("A08 dry-run", ["--dry-run", "--tags=not @skipme"])
    run_behave("A09 stop", ["--stop", "features/hostile.feature"])
    run_behave("A10 no-capture options", ["--no-capture", "--no-capture-stderr", "--no-logcapture",
                                           "features/hostile.feature", "--tags=not @skipme"])
    run_behave("A11 two paths", ["features/sub", "more"])
    run_behave("A12 abs path", [os.path.join(WORK, "features", "sub", "deep", "noname.feature"),
                                os.path.join(WORK, "features", "bg_fails.feature")])
    run_behave("A13 by name", ["--name", "in rule", "--show-skipped", "features/hostile.feature"])
    run_behave("A14 outline only", ["--tags=@outline", "--no-skipped", "features/hostile.feature"])
    run_behave("A15 outline only shown", ["--tags=@outline", "--show-skipped", "features/hostile.feature"])
    run_behave("A16 from subdir", ["deep/noname.feature", "a.b.c.feature"],
               cwd=os.path.join(WORK, "features", "sub"))
    run_behave("A17 verbose hooks", ["--verbose", "--tags=@hook.before_scenario,@hook.after_tag",
                                      "features/hostile.feature"])
    run_behave("A18 bad userdata bool", ["-D", ud + "show_tags=maybe", "features/empty.feature"])
    shutil.rmtree(WORK)


# ---------------------------------------------------------------------------
# PART B: DIRECT CALLS
# ---------------------------------------------------------------------------
def attempt(label, func, *args, **kwargs):
    try:
        result = func(*args, **kwargs)
        out("  %s -> %s" % (label, show(result)))
        return result
    except Exception as e:  # pylint: disable=broad-except
        out("  %s !! %s: %s" % (label, e.__class__.__name__, show(str(e))))
        return None


def xml_text(element):
    return normalize(ET.tostring(element, encoding="unicode"))


def part_b():
    import behave.reporter.junit as junit
    from behave.reporter.junit import JUnitReporter, FeatureReportData
    from behave.formatter import ansi_escapes
    from behave.configuration import Configuration
    from behave.model import Feature, Scenario, ScenarioOutline, Step, Rule, Table
    from behave.model_core import Status
    from behave.capture import Captured

    out("=" * 78)
    out("PART B1: escaping helpers")
    out("  invalid_re.pattern=" + show(junit._invalid_re.pattern))
    out("  invalid_re.flags=%d" % junit._invalid_re.flags)
    samples = [
        "", "plain", "]]>", "]]>]]>", "]]]>", "]]&gt;", "a]]>b]]>c", "]] >", "<&>\"'",
        "\x00", "\x01\x02\x08", "\t\n\r", "\x0b\x0c\x0e\x1f", "\x7f\x80\x84\x85\x86\x9f\xa0",
        "\ud800", "\udfff", "﷐﷟﷠", "�￾￿",
        "\U0001F600", "\U0001FFFE\U0001FFFF", "\U0010FFFE\U0010FFFF", "\U0010FFFD",
        ESC + "[31m", ESC + "[0m]]>", "mixed \x01]]>\x7fé\U0001F600",
        "\x01" * 5, "x" * 3 + "\x1f" + "y" * 3,
    ]
    for sample in samples:
        attempt("_escape_invalid_xml_chars(%s)" % show(sample), junit._escape_invalid_xml_chars, sample)
        attempt("escape_CDATA(%s)" % show(sample), junit.escape_CDATA, sample)
    for sample in (None, 0, b"", b"abc", b"]]>", 5, [], ["x"]):
        attempt("_escape_invalid_xml_chars(%s)" % show(sample), junit._escape_invalid_xml_chars, sample)
        attempt("escape_CDATA(%s)" % show(sample), junit.escape_CDATA, sample)
    for codepoint in list(range(0, 0x100)) + [0xD7FF, 0xD800, 0xDFFF, 0xE000, 0xFDCF, 0xFDD0,
                                               0xFDDF, 0xFDE0, 0xFFFD, 0xFFFE, 0xFFFF, 0x10000,
                                               0x1FFFD, 0x1FFFE, 0x1FFFF, 0x20000, 0x8FFFE,
                                               0xFFFFF, 0x100000, 0x10FFFD, 0x10FFFE, 0x10FFFF]:
        char = chr(codepoint)
        escaped = junit._escape_invalid_xml_chars(char)
        if escaped != char:
            out("  illegal U+%04X -> %s" % (codepoint, show(escaped)))

    out("PART B2: strip_escapes / CDATA / serialisation")
    ansi_samples = ["", "plain", ESC + "[31mred" + ESC + "[0m", ESC + "[1A", ESC + "[12Aup",
                    ESC + "[x", ESC, ESC + "[", ESC + "[31", ESC + "[31;1m", ESC + "[mA",
                    "a" + ESC + "[0m" + ESC + "[0mb", "é" + ESC + "[90m\U0001F600"]
    for sample in ansi_samples:
        attempt("strip_escapes(%s)" % show(sample), ansi_escapes.strip_escapes, sample)
        element = attempt("CDATA(%s)" % show(sample), lambda s=sample: junit.CDATA(s).text)
    attempt("CDATA(None)", junit.CDATA, None)
    attempt("CDATA()", junit.CDATA)
    attempt("CDATA(bytes)", junit.CDATA, b"abc")

    def make_tree(text):
        root = ET.Element("root")
        root.set("attr", "<&>\"' ]]>")
        child = ET.SubElement(root, "system-out")
        child.append(junit.CDATA(text))
        ET.SubElement(root, "empty")
        child2 = ET.SubElement(root, "other")
        child2.text = "text <&> ]]>"
        child2.tail = "tail"
        return root

    for sample in samples + ansi_samples:
        if "\ud800" in sample or "\udfff" in sample:
            continue
        root = make_tree(sample)
        attempt("tostring(%s)" % show(sample), ET.tostring, root, encoding="unicode")
        attempt("tostring(%s, short_empty_elements=False)" % show(sample),
                lambda r=root: ET.tostring(r, encoding="unicode", short_empty_elements=False))
        attempt("tostring(%s, utf-8 bytes)" % show(sample), ET.tostring, root, encoding="UTF-8")
        buf = io.BytesIO()
        attempt("ElementTreeWithCDATA.write(%s)" % show(sample),
                lambda r=root, b=buf: junit.ElementTreeWithCDATA(r).write(b, "UTF-8"))
        out("    written=" + show(buf.getvalue()))
        attempt("tostring(%s, method=html)" % show(sample),
                lambda r=root: ET.tostring(r, encoding="unicode", method="html"))
    # -- CDATA element with text=None / empty
    weird = ET.Element("![CDATA[")
    attempt("tostring(cdata text=None)", ET.tostring, weird, encoding="unicode")
    weird.text = ""
    attempt("tostring(cdata text='')", ET.tostring, weird, encoding="unicode")
    weird.text = "x"
    weird.tail = "TAIL"
    weird.set("a", "b")
    attempt("tostring(cdata with tail+attr)", ET.tostring, weird, encoding="unicode")
    out("  _serialize_xml is patched: %s" % (ET._serialize_xml is junit._serialize_xml3))
    out("  _serialize['xml'] is patched: %s" % (ET._serialize["xml"] is junit._serialize_xml3))
    calls = []

    def fake_orig(*args):
        calls.append(args[1:])
        return "ORIG"
    plain = ET.Element("plain")
    for see in (None, True, False, 0, 1, "", "yes"):
        attempt("_serialize_xml3(plain, see=%s)" % show(see),
                lambda s=see: junit._serialize_xml3(calls.append, plain, {}, {"ns": 1}, s, orig=fake_orig))
    attempt("_serialize_xml3(plain, default see)",
            lambda: junit._serialize_xml3(calls.append, plain, {}, {"ns": 1}, orig=fake_orig))
    weird2 = ET.Element("![CDATA[")
    weird2.text = "a]]>b\x01"
    attempt("_serialize_xml3(cdata)",
            lambda: junit._serialize_xml3(calls.append, weird2, {}, {}, True, orig=fake_orig))
    out("  calls=" + show([c if isinstance(c, str) else
                           tuple(x.tag if hasattr(x, "tag") else x for x in c) for c in calls]))

    out("PART B3: reporter helpers with synthetic model")
    config = Configuration(["--junit", "--junit-directory", os.path.join(HERE, "work_b")],
                           load_config=False)
    reporter = JUnitReporter(config)
    out("  reporter switches: " + show([
        (name, getattr(reporter, name)) for name in
        ("show_hostname", "show_multiline", "show_scenarios", "show_tags",
         "show_timings", "show_timestamp", "show_skipped_always", "show_skipped")]))
    out("  config capture: " + show((config.stdout_capture, config.stderr_capture, config.log_capture)))
    out("  reporters: " + show([r.__class__.__name__ for r in config.reporters]))
    config2 = Configuration(["--no-junit", "--no-capture"], load_config=False)
    out("  config2 capture: " + show((config2.stdout_capture, config2.stderr_capture, config2.log_capture)))
    out("  reporters2: " + show([r.__class__.__name__ for r in config2.reporters]))
    config3 = Configuration(["--junit", "--no-capture", "--no-capture-stderr", "--no-logcapture", "--no-summary"],
                            load_config=False)
    out("  config3 capture: " + show((config3.stdout_capture, config3.stderr_capture, config3.log_capture)))
    out("  reporters3: " + show([r.__class__.__name__ for r in config3.reporters]))

    # -- make_feature_filename
    class FakeLocation(object):
        def __init__(self, filename):
            self.filename = filename

        def relpath(self, start):
            return "REL(%s|%s)" % (self.filename, start)

    class FakeFeature(object):
        def __init__(self, filename, name="F"):
            self.filename = filename
            self.location = FakeLocation(filename)
            self.name = name

    config.base_dir = "/base"
    for paths in ([], ["features"], ["features", "features/sub"], ["features/sub", "features"],
                  ["/abs/features"], ["other", "x"], ["features/a.feature"], ["feat"], [""]):
        config.paths = paths
        for filename in ("features/a.feature", "features/sub/b.c.feature", "features",
                         "features/", "features/x", "/abs/features/z.feature", "noext",
                         "feat.ures/q", "features\\win\\w.feature", "features/.hidden",
                         "features/a.feature", "x/y.z/w", ".", ""):
            attempt("make_feature_filename(paths=%s, %s)" % (show(paths), show(filename)),
                    reporter.make_feature_filename, FakeFeature(filename))

    # -- describe_tags / describe_step / describe_scenario
    for tags in ([], None, ["a"], ["a", "b<&>"], ("x", "y", "z")):
        attempt("describe_tags(%s)" % show(tags), reporter.describe_tags, tags)

    def make_step(name, status, keyword="Given", text=None, table=None, duration=0.0,
                  exception=None, error_message=None):
        step = Step("features/syn.feature", 10, keyword, keyword.lower(), name,
                    text=text, table=table)
        step.status = status
        step.duration = duration
        step.exception = exception
        step.error_message = error_message
        return step

    table = Table(["h1 <&>", "h2"], rows=[["a", "b ]]>"], ["é", "\x01"]])
    step_variants = [
        make_step("plain", Status.passed),
        make_step("doc <&>", Status.failed, "When", text="line1\n  line2 ]]>\n", duration=1.23456),
        make_step("tab", Status.skipped, "Then", table=table, duration=0.0004),
        make_step("both", Status.undefined, "And", text="T", table=table),
        make_step("", Status.untested, "*"),
    ]
    for flags in ((True, True), (True, False), (False, True), (False, False)):
        reporter.show_timings, reporter.show_multiline = flags
        for a_step in step_variants:
            attempt("describe_step(%s, timings/multiline=%s)" % (show(a_step.name), show(flags)),
                    reporter.describe_step, a_step)
    reporter.show_timings, reporter.show_multiline = False, True

    # -- select_step_with_status / select_step_with_any_status
    attempt("select_step_with_status(failed)", lambda: reporter.select_step_with_status(Status.failed, step_variants).name)
    attempt("select_step_with_status(error)", reporter.select_step_with_status, Status.error, step_variants)
    attempt("select_step_with_status(str)", lambda: reporter.select_step_with_status("skipped", step_variants).name)
    attempt("select_step_with_status(bad type)", reporter.select_step_with_status, Status.failed, [1, 2])
    attempt("select_step_with_any_status()", lambda: reporter.select_step_with_any_status(
        (Status.undefined, Status.skipped), step_variants).name)
    attempt("select_step_with_any_status(empty)", reporter.select_step_with_any_status, (), step_variants)
    attempt("select_step_with_any_status(no steps)", reporter.select_step_with_any_status, (Status.failed,), [])
    attempt("select_step_with_any_status(iter)", lambda: reporter.select_step_with_any_status(
        [Status.untested], iter(step_variants)).name)
    attempt("select_step_with_any_status(bad type)", reporter.select_step_with_any_status, (Status.failed,), ["x"])

    # -- _make_problem_description_for / _process_scenario
    def raise_and_catch(exc):
        try:
            raise exc
        except Exception as e:  # pylint: disable=broad-except
            return e, sys.exc_info()[2]

    class NamedError(Exception):
        pass

    def make_scenario(name, steps, tags=None, hook_failed=False, exception=None,
                      error_message=None, stdout=None, stderr=None, status=None, with_tb=False):
        scenario = Scenario("features/syn.feature", 5, "Scenario", name or "", tags=tags, steps=steps)
        scenario.name = name
        scenario.hook_failed = hook_failed
        scenario.exception = exception
        scenario.exc_traceback = None
        if with_tb and exception is not None:
            scenario.exception, scenario.exc_traceback = raise_and_catch(exception)
        scenario.error_message = error_message
        scenario.captured = Captured(stdout=stdout, stderr=stderr)
        if status is not None:
            scenario.set_status(status)
        return scenario

    err, _tb = raise_and_catch(NamedError("  boom <&> ]]> \x01 é  "))
    aerr, _tb = raise_and_catch(AssertionError("expected ]]> \x7f"))
    hostile_text = "OUT <&> ]]> \x01\x0b\x85 é \U0001F600 " + ESC + "[31mR" + ESC + "[0m"

    def scenario_variants():
        yield make_scenario("all passed", [make_step("p1", Status.passed), make_step("p2", Status.passed)],
                            tags=["t1", "t<2>"], stdout=hostile_text, stderr=hostile_text)
        yield make_scenario("failed", [make_step("p1", Status.passed),
                                       make_step("f1", Status.failed, "When", exception=aerr,
                                                 error_message="Assertion Failed: expected ]]> \x7f"),
                                       make_step("s1", Status.skipped, "Then")], stdout="only out")
        yield make_scenario("error", [make_step("e1", Status.error, exception=err,
                                                 error_message="Traceback...\nNamedError: boom <&> ]]>",
                                                 text="doc\nstring"),
                                      make_step("u1", Status.untested)], stderr="only err ]]>")
        yield make_scenario("undefined", [make_step("p", Status.passed), make_step("u ]]>", Status.undefined, exception=None, error_message=None)])
        yield make_scenario("pending", [make_step("pend", Status.pending, exception=err, error_message=None)])
        yield make_scenario("step hook_error", [make_step("h", Status.hook_error, exception=err, error_message="HOOK")])
        yield make_scenario("failed after error-like", [make_step("f", Status.failed, exception=aerr, error_message="F"),
                                                         make_step("e", Status.error, exception=err, error_message="E")])
        yield make_scenario("hook failed no step", [make_step("p", Status.passed)], hook_failed=True,
                            exception=NamedError("hook ]]> \x01"), with_tb=True,
                            error_message="  HOOK-ERROR in before_scenario: NamedError: hook ]]> \x01  ")
        yield make_scenario("hook failed no exception", [], hook_failed=True, error_message=None)
        yield make_scenario("hook failed with failed step", [make_step("f", Status.failed, exception=aerr, error_message="F")],
                            hook_failed=True, exception=err, error_message="HOOK")
        yield make_scenario("forced failed without failing step", [make_step("p", Status.passed)],
                            status=Status.failed, exception=aerr, error_message="forced", with_tb=True)
        yield make_scenario("forced error without step", [], status=Status.error)
        yield make_scenario("forced cleanup_error", [make_step("p", Status.passed)], status=Status.cleanup_error,
                            exception=err, error_message="cleanup ]]>", with_tb=True)
        yield make_scenario("skipped plain", [make_step("s", Status.skipped), make_step("s2", Status.skipped)],
                            status=Status.skipped)
        yield make_scenario("skipped with undefined", [make_step("s", Status.skipped),
                                                        make_step("  undef <&> \x01  ", Status.undefined)],
                            status=Status.skipped)
        yield make_scenario("skipped with pending", [make_step("pp", Status.pending)], status=Status.skipped)
        yield make_scenario("untested", [make_step("u", Status.untested)])
        yield make_scenario("untested with untested_undefined", [make_step("u", Status.untested_undefined)])
        yield make_scenario("untested forced with undefined", [make_step("uu", Status.undefined)], status=Status.untested)
        yield make_scenario("pending_warn only", [make_step("pw", Status.pending_warn)])
        yield make_scenario("", [], status=Status.passed)
        yield make_scenario(None, [], status=Status.passed)
        yield make_scenario("xfailed forced", [], status=Status.xfailed)
        yield make_scenario("name \x01 <&> ]]> ￾", [], status=Status.passed, stdout="]]>", stderr="]]>")

    features = [Feature("features/syn.feature", 1, "Feature", "Syn <&> \x01"),
                Feature("features/sub/noname.feature", 1, "Feature", "")]
    config.paths = ["features"]
    for feature in features:
        for (show_skipped, always, scenarios, tags) in (
                (True, False, True, True), (False, False, True, False),
                (False, True, False, True), (True, True, False, False)):
            config.show_skipped = show_skipped
            reporter.show_skipped_always = always
            reporter.show_scenarios = scenarios
            reporter.show_tags = tags
            out("  -- feature=%s show_skipped=%s always=%s show_scenarios=%s show_tags=%s" % (
                show(feature.name), show_skipped, always, scenarios, tags))
            report = FeatureReportData(feature, reporter.make_feature_filename(feature))
            out("  report.classname=%s filename=%s" % (show(report.classname), show(report.filename)))
            for scenario in scenario_variants():
                scenario.feature = feature
                before = len(report.testcases)
                try:
                    reporter._process_scenario(scenario, report)
                except Exception as e:  # pylint: disable=broad-except
                    out("  _process_scenario(%s) !! %s: %s" % (show(scenario.name), e.__class__.__name__, show(str(e))))
                added = report.testcases[before:]
                out("  _process_scenario(%s) status=%s counts=%s added=%d" % (
                    show(scenario.name), scenario.status.name,
                    show((report.counts_tests, report.counts_failed, report.counts_errors, report.counts_skipped)),
                    len(added)))
                for case in added:
                    out("    xml=" + show(xml_text(case)))
            report.reset()
            out("  after reset: " + show((report.testcases, report.counts_tests, report.counts_failed,
                                          report.counts_errors, report.counts_skipped)))

    out("PART B4: _make_problem_description_for direct")
    reporter.show_timings = False
    for element_name in ("failure", "error", "weird-name"):
        for scenario in scenario_variants():
            for a_step in list(scenario.steps)[:2] + [None]:
                if a_step is not None and not hasattr(a_step, "exception"):
                    continue
                label = "_make_problem_description_for(%s, %s, %s)" % (
                    element_name, show(scenario.name), show(a_step and a_step.name))
                attempt(label, lambda: xml_text(
                    reporter._make_problem_description_for(element_name, scenario, a_step)))
    sc = make_scenario("direct", [], hook_failed=True, exception=err, error_message="m", with_tb=True)
    attempt("_make_failure_element_for(no step)", lambda: xml_text(reporter._make_failure_element_for(sc, None)))
    attempt("_make_error_element_for(no step)", lambda: xml_text(reporter._make_error_element_for(sc, None)))
    attempt("_make_error_element_for(no exc_traceback attr)",
            lambda: xml_text(reporter._make_error_element_for(object(), None)))
    bad_step = make_step("no exception", Status.failed)
    bad_step.exception = None
    attempt("_make_failure_element_for(step.exception=None)",
            lambda: xml_text(reporter._make_failure_element_for(sc, bad_step)))

    out("PART B5: _process_run_items_for dispatch and feature() on synthetic feature")

    class Recorder(JUnitReporter):
        def __init__(self, cfg):
            super(Recorder, self).__init__(cfg)
            self.log = []

        def _process_rule(self, rule, report):
            self.log.append(("rule", rule.name))
            super(Recorder, self)._process_rule(rule, report)

        def _process_scenario_outline(self, scenario_outline, report):
            self.log.append(("outline", scenario_outline.name))
            super(Recorder, self)._process_scenario_outline(scenario_outline, report)

        def _process_scenario(self, scenario, report):
            self.log.append(("scenario", scenario.name))

    recorder = Recorder(config)
    feature = Feature("features/syn.feature", 1, "Feature", "Dispatch")
    s1 = Scenario("features/syn.feature", 2, "Scenario", "s1")
    s2 = Scenario("features/syn.feature", 3, "Scenario", "s2")
    s3 = Scenario("features/syn.feature", 4, "Scenario", "s3")
    outline = ScenarioOutline("features/syn.feature", 5, "Scenario Outline", "so")
    outline._scenarios = [s2]
    rule = Rule("features/syn.feature", 6, "Rule", "r1")
    rule.run_items = [s3, outline]
    feature.run_items = [s1, outline, rule, s1]
    report = FeatureReportData(feature, "syn")
    attempt("_process_run_items_for(feature)", recorder._process_run_items_for, feature, report)
    out("  log=" + show(recorder.log))
    feature.run_items = [s1, "not a model element", s2]
    recorder.log = []
    attempt("_process_run_items_for(bad item)", recorder._process_run_items_for, feature, report)
    out("  log=" + show(recorder.log))
    outline._scenarios = [s2, object()]
    feature.run_items = [outline]
    recorder.log = []
    attempt("_process_scenario_outline(bad item)", recorder._process_run_items_for, feature, report)
    out("  log=" + show(recorder.log))
    attempt("_process_scenario_outline(not outline)", recorder._process_scenario_outline, s1, report)
    attempt("_process_scenario(outline)", reporter._process_scenario, outline, report)
    attempt("_process_scenario(not scenario)", reporter._process_scenario, "x", report)

    out("  summary counts: failed=%s error=%s" % (reporter.feature_failed_counts, reporter.feature_error_counts))
    work_b = os.path.join(HERE, "work_b")
    if os.path.isdir(work_b):
        shutil.rmtree(work_b)


def main():
    part_a()
    try:
        part_b()
    except Exception:  # pylint: disable=broad-except
        out("PART B ABORTED:")
        out(normalize(traceback.format_exc()))


if __name__ == "__main__":
    main()
