# -*- coding: UTF-8 -*-
"""
Equivalence transcript for property C18 (output capture isolates step output
and always restores the real streams).

Prints a canonical transcript of observable behaviour of
  * behave.capture.CaptureController / Captured   (part A)
  * behave.log_capture.LoggingCapture / RecordFilter (part B)
  * full "python -m behave" runs (Scenario.run, Step.run, runner)  (part C)

Run it on the clean tree and on the patched tree: transcripts must be equal.
"""

from __future__ import absolute_import, print_function
import sys
sys.path.insert(0, "/tmp/wtT/C18")

import io
import logging
import os
import re
import shutil
import subprocess
import tempfile
import textwrap

import behave
from behave.capture import CaptureController, Captured, capture_output
from behave.log_capture import LoggingCapture, RecordFilter

assert behave.__file__.startswith("/tmp/wtT/C18/"), behave.__file__

WORKTREE = "/tmp/wtT/C18"
PYTHON = sys.executable
REAL_STDOUT = sys.stdout
REAL_STDERR = sys.stderr
LINES = []


def emit(text=""):
    LINES.append(text)


# -----------------------------------------------------------------------------
# HELPERS
# -----------------------------------------------------------------------------
class Config(object):
    def __init__(self, **kwargs):
        self.stdout_capture = True
        self.stderr_capture = True
        self.log_capture = True
        self.logging_format = None
        self.logging_datefmt = None
        self.logging_level = None
        self.logging_filter = None
        self.logging_clear_handlers = False
        for name, value in kwargs.items():
            setattr(self, name, value)


class FakeContext(object):
    pass


class NamedHandler(logging.Handler):
    def __init__(self, name, sink):
        logging.Handler.__init__(self)
        self.label = name
        self.sink = sink

    def emit(self, record):
        self.sink.append("%s<-%s:%s" % (self.label, record.name,
                                        record.getMessage()))

    def __repr__(self):
        return "<NamedHandler %s>" % self.label


def describe_handler(handler):
    if isinstance(handler, LoggingCapture):
        return "LoggingCapture"
    if isinstance(handler, NamedHandler):
        return "NamedHandler(%s)" % handler.label
    return handler.__class__.__name__


def describe_logger(logger):
    return "%s level=%s handlers=[%s]" % (
        logger.name, logger.level,
        ", ".join(describe_handler(h) for h in logger.handlers))


def reset_logging():
    root = logging.getLogger()
    for handler in root.handlers[:]:
        root.handlers.remove(handler)
    root.setLevel(logging.WARNING)
    for name in ("c18.alpha", "c18.beta", "c18.gamma"):
        logger = logging.getLogger(name)
        for handler in logger.handlers[:]:
            logger.handlers.remove(handler)
        logger.setLevel(logging.NOTSET)


def stream_name(stream, known):
    for name, candidate in known.items():
        if stream is candidate:
            return name
    return "UNKNOWN:%s" % type(stream).__name__


# -----------------------------------------------------------------------------
# PART A: CaptureController lifecycle
# -----------------------------------------------------------------------------
def part_a_one(flags, failing=None):
    reset_logging()
    sink = []
    root = logging.getLogger()
    root.addHandler(NamedHandler("pre-root", sink))
    root.setLevel(logging.ERROR)

    fake_out = io.StringIO()
    fake_err = io.StringIO()
    sys.stdout = fake_out
    sys.stderr = fake_err
    try:
        config = Config(**flags)
        controller = CaptureController(config)
        context = FakeContext()
        known = {"fake_out": fake_out, "fake_err": fake_err}

        def where():
            known2 = dict(known)
            if controller.stdout_capture is not None:
                known2["stdout_capture"] = controller.stdout_capture
            if controller.stderr_capture is not None:
                known2["stderr_capture"] = controller.stderr_capture
            return "stdout=%s stderr=%s old_stdout=%s old_stderr=%s" % (
                stream_name(sys.stdout, known2), stream_name(sys.stderr, known2),
                "None" if controller.old_stdout is None
                else stream_name(controller.old_stdout, known2),
                "None" if controller.old_stderr is None
                else stream_name(controller.old_stderr, known2))

        emit("  initial:    %s" % where())
        emit("  captured0:  %r" % (controller.captured.output,))
        emit("  bool0:      %r" % bool(controller.captured))
        controller.setup_capture(context)
        emit("  context attrs: %s" % sorted(vars(context).keys()))
        emit("  ctx same objects: %s" % [
            getattr(context, name, None) is getattr(controller, name)
            for name in ("stdout_capture", "stderr_capture", "log_capture")])
        emit("  after setup: %s" % where())
        emit("  root: %s" % describe_logger(root))
        emit("  captured1:  %r" % (controller.captured.output,))

        for round_no in (1, 2):
            controller.start_capture()
            emit("  started#%d:  %s" % (round_no, where()))
            controller.start_capture()
            emit("  restarted:  %s" % where())
            try:
                print("out-%d" % round_no)
                sys.stderr.write("err-%d\n" % round_no)
                logging.getLogger("c18.alpha").error("log-%d", round_no)
                logging.getLogger("c18.beta").info("info-%d", round_no)
                if failing is not None and round_no == 2:
                    raise failing("boom")
            except BaseException as e:  # pylint: disable=broad-except
                emit("  raised:     %s" % e.__class__.__name__)
            finally:
                controller.stop_capture()
            emit("  stopped#%d:  %s" % (round_no, where()))
            controller.stop_capture()
            emit("  restopped:  %s" % where())
            captured = controller.captured
            emit("  captured.stdout: %r" % (captured.stdout,))
            emit("  captured.stderr: %r" % (captured.stderr,))
            emit("  captured.log:    %r" % (captured.log_output,))
            emit("  captured.bool:   %r" % bool(captured))
            emit("  report: %r" % (controller.make_capture_report(),))

        with capture_output(controller):
            print("ctx-manager-out")
            emit("  in capture_output: %s" % where())
        emit("  after capture_output: %s" % where())
        with capture_output(controller, enabled=False):
            print("ctx-manager-disabled-out")
            emit("  in capture_output(disabled): %s" % where())
        try:
            with capture_output(controller):
                raise KeyboardInterrupt()
        except KeyboardInterrupt:
            emit("  after capture_output+KeyboardInterrupt: %s" % where())

        controller.teardown_capture()
        emit("  after teardown: %s" % where())
        emit("  root: %s" % describe_logger(root))
        emit("  final report: %r" % (controller.make_capture_report(),))
    finally:
        sys.stdout = REAL_STDOUT
        sys.stderr = REAL_STDERR
    emit("  leaked to real stdout: %r" % fake_out.getvalue())
    emit("  leaked to real stderr: %r" % fake_err.getvalue())
    emit("  pre-root handler saw: %r" % sink)


def part_a():
    emit("=" * 70)
    emit("PART A: CaptureController")
    combos = [
        dict(),
        dict(stdout_capture=False),
        dict(stderr_capture=False),
        dict(log_capture=False),
        dict(stdout_capture=False, stderr_capture=False, log_capture=False),
        dict(logging_clear_handlers=True),
        dict(logging_level=logging.INFO, logging_filter="c18.beta"),
        dict(logging_format="%(name)s|%(message)s"),
    ]
    for flags in combos:
        for failing in (None, ValueError, KeyboardInterrupt):
            emit("-- flags=%s failing=%s" % (
                sorted(flags.items()), failing and failing.__name__))
            part_a_one(flags, failing)

    emit("-- Captured aggregation")
    c1 = Captured("Hello", None, "LOG1")
    c2 = Captured("World\n", "Err", "")
    c3 = c1 + c2
    emit("  c3=%r" % ((c3.stdout, c3.stderr, c3.log_output),))
    emit("  c3.output=%r" % (c3.output,))
    emit("  c3.report=%r" % (c3.make_report(),))
    c1 += c2
    emit("  c1=%r" % ((c1.stdout, c1.stderr, c1.log_output),))
    c1.reset()
    emit("  c1.reset=%r bool=%r report=%r" % (
        (c1.stdout, c1.stderr, c1.log_output), bool(c1), c1.make_report()))

    emit("-- two controllers in sequence (scenario isolation)")
    reset_logging()
    fake_out = io.StringIO()
    sys.stdout = fake_out
    try:
        config = Config()
        controller = CaptureController(config)
        reports = []
        for scenario_no in (1, 2, 3):
            context = FakeContext()
            controller.setup_capture(context)
            for step_no in (1, 2):
                controller.start_capture()
                print("s%d.step%d" % (scenario_no, step_no))
                logging.getLogger("c18.gamma").warning(
                    "s%d.step%d", scenario_no, step_no)
                controller.stop_capture()
                reports.append(controller.make_capture_report())
            controller.teardown_capture()
    finally:
        sys.stdout = REAL_STDOUT
    for report in reports:
        emit("  report=%r" % (report,))
    emit("  leaked=%r" % fake_out.getvalue())
    emit("  root: %s" % describe_logger(logging.getLogger()))


# -----------------------------------------------------------------------------
# PART B: LoggingCapture.inveigle/abandon, RecordFilter
# -----------------------------------------------------------------------------
def part_b_one(flags, with_stale_capture, nr_named_handlers):
    reset_logging()
    sink = []
    root = logging.getLogger()
    alpha = logging.getLogger("c18.alpha")
    beta = logging.getLogger("c18.beta")
    root.setLevel(logging.ERROR)
    root.addHandler(NamedHandler("root-1", sink))
    stale = None
    if with_stale_capture:
        stale = LoggingCapture(Config())
        root.addHandler(stale)
    root.addHandler(NamedHandler("root-2", sink))
    for index in range(nr_named_handlers):
        alpha.addHandler(NamedHandler("alpha-%d" % index, sink))
    beta.addHandler(NamedHandler("beta-0", sink))

    config = Config(**flags)
    capture = LoggingCapture(config)
    emit("  level=%r filters=%d old_level=%r old_handlers=%r" % (
        capture.level, len(capture.filters), capture.old_level,
        capture.old_handlers))
    emit("  before:   %s" % describe_logger(root))
    capture.inveigle()
    emit("  inveigled: %s" % describe_logger(root))
    emit("             %s" % describe_logger(alpha))
    emit("             %s" % describe_logger(beta))
    emit("  old_level=%r old_handlers=%s" % (
        capture.old_level,
        [(lg.name, describe_handler(h)) for lg, h in capture.old_handlers
         if lg.name in ("root", "c18.alpha", "c18.beta", "c18.gamma")]))
    emit("  stale still on root: %r" % (stale in root.handlers))

    alpha.debug("a-debug")
    alpha.info("a-info")
    alpha.error("a-error")
    beta.warning("b-warning")
    beta.critical("b-critical")
    logging.getLogger("c18.gamma").error("g-error %s", "arg")
    root.warning("r-warning")
    emit("  bool=%r buffer=%d" % (bool(capture), len(capture.buffer)))
    emit("  value=%r" % capture.getvalue())
    emit("  find_event(error)=%r find_event(zzz)=%r any_errors=%r" % (
        capture.find_event("error"), capture.find_event("zzz"),
        capture.any_errors()))
    capture.flush()
    emit("  after flush buffer=%d" % len(capture.buffer))

    capture.abandon()
    emit("  abandoned: %s" % describe_logger(root))
    emit("             %s" % describe_logger(alpha))
    emit("             %s" % describe_logger(beta))
    emit("  old_level=%r" % (capture.old_level,))
    capture.abandon()
    emit("  abandoned twice: %s" % describe_logger(root))
    emit("             %s" % describe_logger(alpha))
    capture.truncate()
    emit("  truncated: bool=%r value=%r" % (bool(capture), capture.getvalue()))
    emit("  other handlers saw: %r" % sink)


def part_b():
    emit("=" * 70)
    emit("PART B: LoggingCapture / RecordFilter")
    combos = [
        dict(),
        dict(logging_clear_handlers=True),
        dict(logging_level=logging.WARNING),
        dict(logging_level=logging.DEBUG, logging_clear_handlers=True),
        dict(logging_filter="c18.alpha"),
        dict(logging_filter="-c18.alpha"),
        dict(logging_filter="c18.alpha,-c18.beta,c18.gamma"),
        dict(logging_format="%(levelname)s %(message)s [%(name)s]",
             logging_datefmt="%Y"),
    ]
    for flags in combos:
        for with_stale in (False, True):
            for nr_named in (0, 1, 2, 3):
                emit("-- flags=%s stale=%r named=%d" % (
                    sorted(flags.items()), with_stale, nr_named))
                part_b_one(flags, with_stale, nr_named)

    emit("-- explicit level argument")
    reset_logging()
    capture = LoggingCapture(Config(logging_level=logging.DEBUG),
                             level=logging.CRITICAL)
    emit("  level=%r" % capture.level)
    capture.inveigle()
    logging.getLogger("c18.alpha").error("not captured")
    logging.getLogger("c18.alpha").critical("captured")
    capture.abandon()
    emit("  value=%r" % capture.getvalue())
    emit("  root: %s" % describe_logger(logging.getLogger()))

    emit("-- nested inveigle")
    reset_logging()
    root = logging.getLogger()
    root.setLevel(logging.INFO)
    outer = LoggingCapture(Config(logging_level=logging.WARNING))
    inner = LoggingCapture(Config(logging_level=logging.DEBUG))
    outer.inveigle()
    emit("  outer on: %s" % describe_logger(root))
    inner.inveigle()
    emit("  inner on: %s (outer present: %r)" % (
        describe_logger(root), outer in root.handlers))
    root.debug("dbg")
    inner.abandon()
    emit("  inner off: %s" % describe_logger(root))
    outer.abandon()
    emit("  outer off: %s" % describe_logger(root))
    emit("  outer=%r inner=%r" % (outer.getvalue(), inner.getvalue()))

    emit("-- RecordFilter")
    for spec in ("a", "-a", "a,b", "-a,-b", "a,-b", "-b,a", "a.b,a"):
        record_filter = RecordFilter(spec)
        results = []
        for name in ("a", "b", "a.b", "c", ""):
            record = logging.LogRecord(name, logging.INFO, "f.py", 1, "m",
                                       None, None)
            results.append((name, record_filter.filter(record)))
        emit("  %-8s include=%s exclude=%s -> %s" % (
            spec, sorted(record_filter.include), sorted(record_filter.exclude),
            results))
    reset_logging()


# -----------------------------------------------------------------------------
# PART C: Full behave runs
# -----------------------------------------------------------------------------
FEATURE_1 = u'''
Feature: Capture one

  Scenario: S1 passing with output
    Given a step prints "s1-out" and passes
    And a step logs "s1-log" and passes
    Then a step writes "s1-err" to stderr and passes

  Scenario: S2 failing after output
    Given a step prints "s2-out-before" and passes
    And a step logs "s2-log-before" and passes
    When a step prints "s2-out-fail" and fails
    Then a step prints "s2-never" and passes

  Scenario: S3 raising error
    Given a step writes "s3-err" to stderr and passes
    When a step prints "s3-out-raise" and raises
    Then a step prints "s3-never" and passes

  Scenario: S4 failing without message
    When a step fails without message

  Scenario: S5 passing again
    Given a step prints "s5-out" and passes

  Scenario: S6 nested steps failing
    When a step executes nested failing steps with "s6-nested"

  Scenario: S7 nested steps passing then failing
    Given a step executes nested passing steps with "s7-nested"
    When a step prints "s7-out-fail" and fails

  Scenario: S8 undefined step
    Given a step prints "s8-out" and passes
    When an undefined step is used
    Then a step prints "s8-never" and passes

  Scenario: S9 pending step
    Given a step prints "s9-out" and passes
    When a step is pending

  @hook_output
  Scenario: S10 hooks write output and step fails
    Given a step prints "s10-out" and passes
    When a step prints "s10-out-fail" and fails

  @after_step_fails
  Scenario: S11 after_step hook fails
    Given a step prints "s11-out" and passes
    Then a step prints "s11-next" and passes

  @before_step_fails
  Scenario: S12 before_step hook fails
    Given a step prints "s12-out" and passes

  Scenario: S13 replaced stdout in step
    Given a step replaces sys.stdout and fails
    Then a step prints "s13-never" and passes
'''

FEATURE_2 = u'''
Feature: Capture two

  Background:
    Given a step prints "bg-out" and passes

  Scenario: T1 failing sees only own output
    When a step logs "t1-log" and fails

  Scenario: T2 passing
    When a step logs "t2-log" and passes

  @interrupt
  Scenario: T3 interrupted
    Given a step prints "t3-out" and passes
    When a step prints "t3-interrupt" and is interrupted
    Then a step prints "t3-never" and passes

  Scenario: T4 after interrupt
    Given a step prints "t4-out" and passes
'''

STEPS = u'''
from __future__ import print_function
import logging
import sys
from behave import given, when, then, step
from behave.api.pending_step import StepNotImplementedError

@step(u'a step prints "{text}" and passes')
def step_prints_passes(ctx, text):
    print(text)

@step(u'a step logs "{text}" and passes')
def step_logs_passes(ctx, text):
    logging.getLogger("c18.steps").warning(text)
    logging.getLogger("c18.other").info(text + "-info")

@step(u'a step writes "{text}" to stderr and passes')
def step_stderr_passes(ctx, text):
    sys.stderr.write(text + "\\n")

@step(u'a step prints "{text}" and fails')
def step_prints_fails(ctx, text):
    print(text)
    assert False, "FAILED:" + text

@step(u'a step logs "{text}" and fails')
def step_logs_fails(ctx, text):
    logging.getLogger("c18.steps").error(text)
    assert False, "FAILED:" + text

@step(u'a step prints "{text}" and raises')
def step_prints_raises(ctx, text):
    print(text)
    raise RuntimeError("RAISED:" + text)

@step(u'a step fails without message')
def step_fails_without_message(ctx):
    print("no-message-out")
    assert False

@step(u'a step prints "{text}" and is interrupted')
def step_prints_interrupted(ctx, text):
    print(text)
    raise KeyboardInterrupt()

@step(u'a step executes nested failing steps with "{text}"')
def step_nested_failing(ctx, text):
    print(text + "-outer")
    ctx.execute_steps(u\'\'\'
        Given a step prints "%s-inner-1" and passes
        When a step prints "%s-inner-2" and fails
    \'\'\' % (text, text))

@step(u'a step executes nested passing steps with "{text}"')
def step_nested_passing(ctx, text):
    ctx.execute_steps(u\'\'\'
        Given a step prints "%s-inner-1" and passes
        And a step logs "%s-inner-2" and passes
    \'\'\' % (text, text))
    ctx.record("nested-done")

@step(u'a step is pending')
def step_is_pending(ctx):
    print("pending-out")
    raise StepNotImplementedError("pending here")

class Replacement(object):
    def write(self, text):
        pass
    def flush(self):
        pass

@step(u'a step replaces sys.stdout and fails')
def step_replaces_stdout(ctx):
    print("s13-before-replace")
    ctx.saved_stdout = sys.stdout
    sys.stdout = Replacement()
    try:
        print("s13-lost")
    finally:
        sys.stdout = ctx.saved_stdout
    assert False, "FAILED:s13"
'''

ENVIRONMENT = u'''
from __future__ import print_function
import logging
import os
import sys

REAL_STDOUT = sys.stdout
REAL_STDERR = sys.stderr
ROOT = logging.getLogger()
EVENTS = []

def snapshot(label):
    EVENTS.append("%s: stdout_is_real=%r stderr_is_real=%r root_level=%s root_handlers=%s" % (
        label, sys.stdout is REAL_STDOUT, sys.stderr is REAL_STDERR, ROOT.level,
        [h.__class__.__name__ for h in ROOT.handlers]))

def before_all(ctx):
    ctx.record = EVENTS.append
    if ctx.config.userdata.get("setup_logging") == "yes":
        ctx.config.setup_logging()
    snapshot("before_all")

def before_feature(ctx, feature):
    snapshot("before_feature %s" % feature.name)

def before_scenario(ctx, scenario):
    snapshot("before_scenario %s" % scenario.name.split()[0])

def before_step(ctx, step):
    snapshot("  before_step %s" % step.name)
    if "hook_output" in ctx.tags:
        print("HOOK-before_step-out:" + step.name)
        sys.stderr.write("HOOK-before_step-err\\n")
        logging.getLogger("c18.hook").warning("HOOK-before_step-log")
    if "before_step_fails" in ctx.tags:
        print("HOOK-before_step-failing-out")
        raise RuntimeError("before_step BAD")

def after_step(ctx, step):
    snapshot("  after_step %s => %s" % (step.name, step.status.name))
    if "hook_output" in ctx.tags:
        print("HOOK-after_step-out:" + step.name)
    if "after_step_fails" in ctx.tags and "s11-out" in step.name:
        print("HOOK-after_step-failing-out")
        raise RuntimeError("after_step BAD")

def after_scenario(ctx, scenario):
    snapshot("after_scenario %s => %s" % (scenario.name.split()[0],
                                          scenario.status.name))
    EVENTS.append("  scenario.captured=%r" % ((scenario.captured.stdout,
        scenario.captured.stderr, scenario.captured.log_output),))
    for step in scenario.all_steps:
        EVENTS.append("  step %r %s captured=%r error_message=%r" % (
            step.name, step.status.name,
            (step.captured.stdout, step.captured.stderr, step.captured.log_output),
            step.error_message))

def after_feature(ctx, feature):
    snapshot("after_feature %s" % feature.name)

def after_all(ctx):
    snapshot("after_all")
    with open(os.environ["C18_EVENTS_FILE"], "w") as f:
        f.write("\\n".join(EVENTS) + "\\n")
'''


def normalize(text, workdir):
    text = text.replace(workdir, "<WORKDIR>")
    text = text.replace(WORKTREE, "<WORKTREE>")
    text = re.sub(r"line \d+", "line N", text)
    text = re.sub(r"Took \d+m\d+\.\d+s", "Took XmX.XXXs", text)
    text = re.sub(r"\d+\.\d+s\b", "X.XXXs", text)
    text = re.sub(r"0x[0-9a-fA-F]+", "0xADDR", text)
    text = re.sub(r'timestamp="[^"]*"', 'timestamp="T"', text)
    text = re.sub(r'time="[^"]*"', 'time="T"', text)
    text = re.sub(r'hostname="[^"]*"', 'hostname="H"', text)
    # -- TRACEBACK: Drop source-line echo and caret lines of framework frames.
    out = []
    skip_next_source = False
    for line in text.splitlines():
        if re.match(r'^\s*File "<WORKTREE>/behave/', line):
            # -- KEEP: file + function name, without line number.
            out.append(line)
            skip_next_source = True
            continue
        if skip_next_source:
            skip_next_source = False
            if line.startswith("    ") and not line.lstrip().startswith("File "):
                continue
        if re.match(r"^\s*[\^~]+\s*$", line):
            continue
        out.append(line.rstrip())
    return "\n".join(out)


def run_behave(workdir, args, label):
    events_file = os.path.join(workdir, "events.txt")
    if os.path.exists(events_file):
        os.remove(events_file)
    env = dict(os.environ)
    env["PYTHONPATH"] = WORKTREE
    env["C18_EVENTS_FILE"] = events_file
    env["PYTHONDONTWRITEBYTECODE"] = "1"
    env.pop("COLUMNS", None)
    command = [PYTHON, "-m", "behave", "--no-color", "-T"] + args
    proc = subprocess.Popen(command, cwd=workdir, env=env,
                            stdout=subprocess.PIPE, stderr=subprocess.PIPE,
                            universal_newlines=True)
    out, err = proc.communicate()
    emit("-" * 70)
    emit("RUN %s: behave %s" % (label, " ".join(args)))
    emit("returncode=%s" % proc.returncode)
    emit("--- stdout:")
    emit(normalize(out, workdir))
    emit("--- stderr:")
    emit(normalize(err, workdir))
    emit("--- events:")
    if os.path.exists(events_file):
        with open(events_file) as f:
            emit(normalize(f.read(), workdir))
    else:
        emit("<no events file>")


def part_c():
    emit("=" * 70)
    emit("PART C: behave runs")
    workdir = tempfile.mkdtemp(prefix="c18equiv_")
    try:
        os.makedirs(os.path.join(workdir, "features", "steps"))
        with io.open(os.path.join(workdir, "features", "one.feature"), "w",
                     encoding="utf-8") as f:
            f.write(FEATURE_1)
        with io.open(os.path.join(workdir, "features", "two.feature"), "w",
                     encoding="utf-8") as f:
            f.write(FEATURE_2)
        with io.open(os.path.join(workdir, "features", "steps", "steps.py"),
                     "w", encoding="utf-8") as f:
            f.write(STEPS)
        with io.open(os.path.join(workdir, "features", "environment.py"), "w",
                     encoding="utf-8") as f:
            f.write(ENVIRONMENT)

        run_behave(workdir, ["-f", "plain", "features/one.feature"],
                   "default/plain")
        run_behave(workdir, ["-f", "pretty", "features/one.feature"],
                   "default/pretty")
        run_behave(workdir, ["-f", "plain", "features/two.feature"],
                   "interrupt/plain")
        run_behave(workdir, ["-f", "plain", "--no-capture",
                             "features/one.feature"], "no-capture")
        run_behave(workdir, ["-f", "plain", "--no-capture-stderr",
                             "features/one.feature"], "no-capture-stderr")
        run_behave(workdir, ["-f", "plain", "--no-logcapture",
                             "features/one.feature"], "no-logcapture")
        run_behave(workdir, ["-f", "plain", "--no-capture",
                             "--no-capture-stderr", "--no-logcapture",
                             "features/one.feature", "features/two.feature"],
                   "no-capture-at-all")
        run_behave(workdir, ["-f", "plain", "--logging-clear-handlers",
                             "-D", "setup_logging=yes",
                             "features/one.feature"], "clear-handlers")
        run_behave(workdir, ["-f", "plain", "--logging-level=ERROR",
                             "--logging-filter=c18.steps",
                             "features/one.feature", "features/two.feature"],
                   "logging-level+filter")
        run_behave(workdir, ["-f", "plain", "--logging-filter=-c18.steps",
                             "--logging-format=%(name)s::%(message)s",
                             "features/two.feature"],
                   "logging-exclude-filter+format")
        run_behave(workdir, ["-f", "progress", "--stop",
                             "features/one.feature"], "stop/progress")
        run_behave(workdir, ["-f", "plain", "--dry-run",
                             "features/one.feature"], "dry-run")
        run_behave(workdir, ["-f", "plain", "--tags=-interrupt", "--junit",
                             "--junit-directory=reports",
                             "features/two.feature"], "junit")
        reports_dir = os.path.join(workdir, "reports")
        if os.path.isdir(reports_dir):
            for name in sorted(os.listdir(reports_dir)):
                emit("--- junit report %s:" % name)
                with io.open(os.path.join(reports_dir, name),
                             encoding="utf-8") as f:
                    emit(normalize(f.read(), workdir))
    finally:
        shutil.rmtree(workdir, ignore_errors=True)


def main():
    part_a()
    part_b()
    part_c()
    assert sys.stdout is REAL_STDOUT
    assert sys.stderr is REAL_STDERR
    sys.stdout.write("\n".join(LINES) + "\n")


if __name__ == "__main__":
    main()
