# -*- coding: UTF-8 -*-
"""
Equivalence transcript for property C01 (run verdict: no false green/red).

Builds a small behave project in a temp directory, runs
``python -m behave`` (PYTHONPATH=/tmp/wtT/C01) as a subprocess for a matrix
of feature sets / options / injected faults, and prints per run:

  * exit code
  * normalised stdout/stderr (durations and temp paths masked)
  * call log written by environment hooks, steps, cleanups and a recording
    formatter (every formatter callback with the statuses seen at that time)

Additionally runs a few in-process checks on the public model API
(ModelRunner.run_model return value, Status helpers).
"""
from __future__ import print_function
import os
import re
import shutil
import subprocess
import sys
import tempfile

WORKTREE = "/tmp/wtT/C01"
sys.path.insert(0, WORKTREE)
PYTHON = "/venv/bin/python"

# ---------------------------------------------------------------------------
# PROJECT FILES
# ---------------------------------------------------------------------------
ENVIRONMENT_PY = r'''
import os
from behave.model_core import Status

def _log(text):
    with open(os.environ["EQUIV_LOG"], "a") as f:
        f.write(text + "\n")

def _maybe_fail(context, hook_name, what=""):
    spec = context.config.userdata.get("fail_hook", "")
    for item in spec.split(","):
        if not item:
            continue
        name, _, kind = item.partition(":")
        if name == hook_name or name == "%s=%s" % (hook_name, what):
            if kind == "kbd":
                raise KeyboardInterrupt()
            elif kind == "assert":
                assert False, "hook-assert %s" % hook_name
            raise RuntimeError("hook-boom %s %s" % (hook_name, what))

def _cleanup_ok():
    _log("CLEANUP ok")

def _cleanup_bad():
    _log("CLEANUP bad")
    raise ValueError("cleanup-boom")

def before_all(context):
    _log("HOOK before_all")
    cleanup = context.config.userdata.get("cleanup", "")
    if "all_bad" in cleanup:
        context.add_cleanup(_cleanup_bad)
    if "all_ok" in cleanup:
        context.add_cleanup(_cleanup_ok)
    if "quiet_handler" in cleanup:
        context.on_cleanup_error = lambda ctx, func, exc: _log(
            "ON_CLEANUP_ERROR %s %s" % (func.__name__, exc))
    _maybe_fail(context, "before_all")

def after_all(context):
    _log("HOOK after_all aborted=%s failed=%s" % (context.aborted, context.failed))
    _maybe_fail(context, "after_all")

def before_feature(context, feature):
    _log("HOOK before_feature %s" % feature.name)
    cleanup = context.config.userdata.get("cleanup", "")
    if "feature_bad" in cleanup:
        context.add_cleanup(_cleanup_bad)
    if "skipme" in feature.tags:
        feature.skip("hook says so")
    _maybe_fail(context, "before_feature", feature.name)

def after_feature(context, feature):
    _log("HOOK after_feature %s status=%s" % (feature.name, feature.status.name))
    _maybe_fail(context, "after_feature", feature.name)

def before_rule(context, rule):
    _log("HOOK before_rule %s" % rule.name)
    _maybe_fail(context, "before_rule", rule.name)

def after_rule(context, rule):
    _log("HOOK after_rule %s status=%s" % (rule.name, rule.status.name))
    _maybe_fail(context, "after_rule", rule.name)

def before_scenario(context, scenario):
    _log("HOOK before_scenario %s" % scenario.name)
    cleanup = context.config.userdata.get("cleanup", "")
    if "scenario_bad" in cleanup and "cleanup" in scenario.tags:
        context.add_cleanup(_cleanup_bad)
    if "skipme" in scenario.tags:
        scenario.skip("hook says so")
    if "continue" in scenario.effective_tags:
        scenario.continue_after_failed_step = True
    _maybe_fail(context, "before_scenario", scenario.name)

def after_scenario(context, scenario):
    _log("HOOK after_scenario %s status=%s" % (scenario.name, scenario.status.name))
    _maybe_fail(context, "after_scenario", scenario.name)

def before_tag(context, tag):
    _log("HOOK before_tag %s" % tag)
    _maybe_fail(context, "before_tag", tag)

def after_tag(context, tag):
    _log("HOOK after_tag %s" % tag)
    _maybe_fail(context, "after_tag", tag)

def before_step(context, step):
    _log("HOOK before_step %s" % step.name)
    _maybe_fail(context, "before_step", step.name)

def after_step(context, step):
    _log("HOOK after_step %s status=%s" % (step.name, step.status.name))
    _maybe_fail(context, "after_step", step.name)
'''

STEPS_PY = r'''
import os
import sys
from behave import given, when, then, step
from behave.api.pending_step import StepNotImplementedError, PendingStepError

def _log(text):
    with open(os.environ["EQUIV_LOG"], "a") as f:
        f.write(text + "\n")

@step(u'a step passes')
def step_passes(context):
    _log("STEP passes")

@step(u'another step passes')
def step_passes2(context):
    _log("STEP passes2")
    print("captured-stdout-of-passing-step")

@step(u'a step fails')
def step_fails(context):
    _log("STEP fails")
    print("captured-stdout-of-failing-step")
    assert False, "XFAIL-STEP"

@step(u'a step fails without message')
def step_fails_nomsg(context):
    _log("STEP fails-nomsg")
    raise AssertionError()

@step(u'a step raises "{what}"')
def step_raises(context, what):
    _log("STEP raises %s" % what)
    if what == "KeyboardInterrupt":
        raise KeyboardInterrupt()
    raise RuntimeError(what)

@step(u'a step is pending')
def step_pending(context):
    _log("STEP pending")
    raise StepNotImplementedError(u"STEP: a step is pending")

@step(u'a step is pending without message')
def step_pending_nomsg(context):
    _log("STEP pending-nomsg")
    raise PendingStepError()

@step(u'a step skips the scenario')
def step_skips(context):
    _log("STEP skips")
    context.scenario.skip("step says so")

@step(u'a step with value "{value}"')
def step_value(context, value):
    _log("STEP value %s" % value)
    assert value != "bad", "bad value"
    if value == "boom":
        raise ValueError("boom value")

@step(u'a step adds a failing cleanup')
def step_adds_cleanup(context):
    _log("STEP adds failing cleanup")
    def bad_cleanup():
        _log("CLEANUP step-level bad")
        raise ValueError("step-cleanup-boom")
    context.add_cleanup(bad_cleanup)

@step(u'a step executes nested steps "{kind}"')
def step_nested(context, kind):
    _log("STEP nested %s" % kind)
    if kind == "ok":
        context.execute_steps(u"Given a step passes\nWhen another step passes")
    elif kind == "failing":
        context.execute_steps(u"Given a step passes\nWhen a step fails")
    else:
        context.execute_steps(u"Given an unknown nested step")
'''

FORMATTER_PY = r'''
import os
from behave.formatter.base import Formatter

def _log(text):
    with open(os.environ["EQUIV_LOG"], "a") as f:
        f.write(text + "\n")

class RecordingFormatter(Formatter):
    name = "recording"
    description = "records all formatter callbacks"

    def uri(self, uri):
        _log("FMT uri %s" % os.path.basename(uri))
    def feature(self, feature):
        _log("FMT feature %s" % feature.name)
    def rule(self, rule):
        _log("FMT rule %s" % rule.name)
    def background(self, background):
        _log("FMT background %s" % background.name)
    def scenario(self, scenario):
        _log("FMT scenario %s" % scenario.name)
    def step(self, step):
        _log("FMT step %s" % step.name)
    def match(self, match):
        _log("FMT match %s" % type(match).__name__)
    def result(self, step):
        message = (step.error_message or "").splitlines()
        _log("FMT result %s status=%s msg=%r" % (step.name, step.status.name, message))
    def eof(self):
        _log("FMT eof")
    def close(self):
        _log("FMT close")
        self.close_stream()
'''

FEATURES = {}

FEATURES["passing.feature"] = u'''
@f_pass
Feature: All passing
  Background: Common
    Given a step passes

  @s1
  Scenario: P1
    When another step passes
    Then a step passes

  Scenario Outline: PO-<value>
    When a step with value "<value>"
    Examples: E1
      | value |
      | one   |
      | two   |

  Rule: R1
    Scenario: P2
      Then a step passes
'''

FEATURES["failing.feature"] = u'''
@f_fail
Feature: With failures
  @fail
  Scenario: F1 assertion
    Given a step passes
    When a step fails
    Then a step passes
    And an undefined step after failure

  Scenario: F2 passing in between
    Given a step passes

  @fail
  Scenario: F3 raises
    Given a step raises "oops"
    Then a step passes

  @fail
  Scenario: F4 assertion without message
    Given a step fails without message

  @fail @continue
  Scenario: F5 continue after failed step
    Given a step fails
    When another step passes
    Then a step fails
'''

FEATURES["undefined.feature"] = u'''
Feature: Undefined and pending
  @undef
  Scenario: U1 undefined
    Given a step passes
    When this step is not defined
    Then a step passes
    And this one is also not defined

  @pending
  Scenario: U2 pending
    Given a step is pending
    Then a step passes

  @wip
  Scenario: U3 pending in wip
    Given a step is pending
    Then a step passes

  @pending
  Scenario: U4 pending without message
    Given a step is pending without message

  @wip
  Scenario: U5 pending without message in wip
    Given a step is pending without message
    Then another step passes
'''

FEATURES["outline.feature"] = u'''
Feature: Outline with failing row
  @outline
  Scenario Outline: O-<value>
    Given a step passes
    When a step with value "<value>"
    Then a step passes

    @good
    Examples: Good
      | value |
      | a     |
    @bad
    Examples: Bad
      | value |
      | bad   |
      | b     |
      | boom  |
      | c     |

  Scenario: After outline
    Given a step passes
'''

FEATURES["skipping.feature"] = u'''
Feature: Skipping
  Scenario: S1 step skips scenario
    Given a step passes
    When a step skips the scenario
    Then a step fails

  @skipme
  Scenario: S2 hook skips scenario
    Given a step fails

  Scenario: S3 no steps

  Scenario: S4 passes
    Given a step passes
'''

FEATURES["skipped_feature.feature"] = u'''
@skipme
Feature: Skipped by hook
  Scenario: SF1
    Given a step fails
'''

FEATURES["empty.feature"] = u'''
Feature: Empty feature
'''

FEATURES["abort.feature"] = u'''
Feature: Abort
  Scenario: A1 before
    Given a step passes

  Scenario: A2 interrupted
    Given a step passes
    When a step raises "KeyboardInterrupt"
    Then a step passes

  Scenario: A3 after
    Given a step passes
'''

FEATURES["cleanup.feature"] = u'''
Feature: Cleanups
  @cleanup
  Scenario: C1 cleanup registered by hook
    Given a step passes

  Scenario: C2 cleanup registered by step
    Given a step adds a failing cleanup
    Then a step passes

  Scenario: C3 passes
    Given a step passes
'''

FEATURES["nested.feature"] = u'''
Feature: Nested steps
  Scenario: N1 ok
    Given a step executes nested steps "ok"
  Scenario: N2 failing
    Given a step executes nested steps "failing"
    Then a step passes
  Scenario: N3 undefined
    Given a step executes nested steps "undefined"
'''

FEATURES["rules.feature"] = u'''
@f_rules
Feature: Rules
  Background: FB
    Given a step passes

  @r_ok
  Rule: OK rule
    Scenario: RS1
      Then a step passes

  @r_bad
  Rule: Bad rule
    Background: RB
      Given another step passes
    Scenario: RS2
      Then a step fails
    Scenario: RS3
      Then a step passes

  Rule: Empty rule
'''

FEATURES["broken.feature"] = u'''
Feature: Broken
  Scenario: B1
    Given a step passes
  Examples: misplaced
    | x |
'''


# ---------------------------------------------------------------------------
# HARNESS
# ---------------------------------------------------------------------------
class Project(object):
    def __init__(self):
        self.workdir = tempfile.mkdtemp(prefix="c01equiv_")
        self.log_file = os.path.join(self.workdir, "calls.log")
        features_dir = os.path.join(self.workdir, "features")
        steps_dir = os.path.join(features_dir, "steps")
        os.makedirs(steps_dir)
        self._write(os.path.join(features_dir, "environment.py"), ENVIRONMENT_PY)
        self._write(os.path.join(steps_dir, "steps.py"), STEPS_PY)
        self._write(os.path.join(self.workdir, "recording_formatter.py"), FORMATTER_PY)
        for name, text in FEATURES.items():
            self._write(os.path.join(features_dir, name), text)

    @staticmethod
    def _write(path, text):
        with open(path, "w") as f:
            f.write(text)

    def write(self, relpath, text):
        path = os.path.join(self.workdir, relpath)
        dirname = os.path.dirname(path)
        if not os.path.isdir(dirname):
            os.makedirs(dirname)
        self._write(path, text)

    def close(self):
        shutil.rmtree(self.workdir, ignore_errors=True)

    def normalize(self, text):
        text = text.replace(self.workdir, "<WORKDIR>")
        text = re.sub(r"\d+\.\d+s", "<T>s", text)
        text = re.sub(r'"duration": [0-9][0-9.e+-]*', '"duration": <T>', text)
        text = re.sub(r"Took \d+m", "Took <M>m", text)
        text = re.sub(r"0x[0-9a-fA-F]+", "0x<ADDR>", text)
        return text

    def behave(self, title, args, with_recorder=True, formatter="plain"):
        if os.path.exists(self.log_file):
            os.remove(self.log_file)
        env = dict(os.environ)
        env["PYTHONPATH"] = os.pathsep.join([WORKTREE, self.workdir])
        env["EQUIV_LOG"] = self.log_file
        env["PYTHONDONTWRITEBYTECODE"] = "1"
        env["PYTHONHASHSEED"] = "0"
        env.pop("BEHAVE_DEBUG", None)
        cmd = [PYTHON, "-m", "behave", "--no-color"]
        if with_recorder:
            # -- NOTE: Outfiles are assigned to formatters in order.
            cmd += ["-f", "recording_formatter:RecordingFormatter",
                    "-o", os.path.join(self.workdir, "recorder.out")]
        if formatter:
            cmd += ["-f", formatter]
        cmd += list(args)
        proc = subprocess.Popen(cmd, cwd=self.workdir, env=env,
                                stdout=subprocess.PIPE, stderr=subprocess.STDOUT,
                                universal_newlines=True)
        output, _ = proc.communicate()
        print("=" * 78)
        print("RUN: %s" % title)
        print("ARGS: %s" % " ".join(args))
        print("EXIT-CODE: %s" % proc.returncode)
        print("-- OUTPUT:")
        print(self.normalize(output).rstrip())
        print("-- CALL-LOG:")
        if os.path.exists(self.log_file):
            with open(self.log_file) as f:
                print(self.normalize(f.read()).rstrip())
        else:
            print("(none)")
        sys.stdout.flush()
        return proc.returncode


def hooks_matrix(project, features, hook_specs, extra_args=()):
    for spec in hook_specs:
        project.behave("fail_hook=%s on %s" % (spec, ",".join(features)),
                       ["-D", "fail_hook=%s" % spec] + list(extra_args) +
                       ["features/%s" % name for name in features])

# ---------------------------------------------------------------------------
# SPECIFIC PART: C01-t1 -- ModelRunner.run_model() verdict
# ---------------------------------------------------------------------------
def inprocess_run_model_checks():
    from behave.configuration import Configuration
    from behave.runner import ModelRunner
    from behave.parser import parse_feature
    from behave.step_registry import StepRegistry

    calls = []

    def passes(context):
        calls.append("passes")

    def fails(context):
        calls.append("fails")
        assert False, "nope"

    def interrupts(context):
        calls.append("interrupts")
        raise KeyboardInterrupt()

    def adds_bad_cleanup(context):
        calls.append("adds_bad_cleanup")
        def bad_cleanup():
            calls.append("bad_cleanup")
            raise ValueError("bad cleanup")
        context.add_cleanup(bad_cleanup)

    registry = StepRegistry()
    registry.add_step_definition("step", u"a step passes", passes)
    registry.add_step_definition("step", u"a step fails", fails)
    registry.add_step_definition("step", u"a step interrupts", interrupts)
    registry.add_step_definition("step", u"a step adds a bad cleanup", adds_bad_cleanup)

    def make_feature(name, steps_per_scenario):
        lines = [u"Feature: %s" % name]
        for index, steps in enumerate(steps_per_scenario):
            lines.append(u"  Scenario: %s-%d" % (name, index))
            for step_text in steps:
                lines.append(u"    Given %s" % step_text)
        return parse_feature(u"\n".join(lines) + u"\n", filename="%s.feature" % name)

    class Reporter(object):
        def feature(self, feature):
            calls.append("reporter.feature %s %s" % (feature.name, feature.status.name))
        def end(self):
            calls.append("reporter.end")

    class Fmt(object):
        def __getattr__(self, name):
            def record(*args):
                calls.append("formatter.%s" % name)
            return record

    def make_runner(features, args=(), hooks=None):
        config = Configuration(command_args=["--no-color"] + list(args),
                               load_config=False)
        config.reporters = [Reporter()]
        runner = ModelRunner(config, features, step_registry=registry)
        runner.formatters = [Fmt()]
        runner.hooks = dict(hooks or {})
        return runner

    def show(title, result, runner, features):
        print("IN-PROCESS: %s" % title)
        print("  result=%r" % (result,))
        print("  aborted=%r hook_failures=%r undefined=%d" % (
            runner.aborted, runner.hook_failures, len(runner.undefined_steps)))
        print("  features=%s" % ", ".join(
            "%s:%s" % (f.name, f.status.name) for f in features))
        print("  calls=%s" % " | ".join(calls))
        del calls[:]

    P = [u"a step passes"]
    # -- CASE: all passing
    features = [make_feature("p1", [P, P]), make_feature("p2", [P])]
    runner = make_runner(features)
    show("all passing", runner.run(), runner, features)

    # -- CASE: no features at all
    runner = make_runner([])
    show("no features", runner.run(), runner, [])

    # -- CASE: one failing in the middle
    features = [make_feature("a", [P]), make_feature("b", [[u"a step fails"], P]),
                make_feature("c", [P])]
    runner = make_runner(features)
    show("one failing", runner.run(), runner, features)
    runner = make_runner(features, ["--stop"])
    show("one failing --stop", runner.run(), runner, features)

    # -- CASE: undefined steps; then re-run run_model() on the same runner
    #    with only passing features (initial undefined-steps size matters).
    features = [make_feature("u", [P, [u"a step unknown"]])]
    runner = make_runner(features)
    show("undefined", runner.run(), runner, features)
    features2 = [make_feature("p", [P])]
    show("undefined:rerun passing only", runner.run_model(features2), runner, features2)
    show("undefined:rerun undefined again", runner.run_model(features), runner, features)

    # -- CASE: dry-run with undefined steps
    features = [make_feature("du", [P, [u"a step unknown"]])]
    runner = make_runner(features, ["--dry-run"])
    show("dry-run undefined", runner.run(), runner, features)
    features = [make_feature("dp", [P, [u"a step fails"]])]
    runner = make_runner(features, ["--dry-run"])
    show("dry-run defined only", runner.run(), runner, features)

    # -- CASE: hook errors
    def boom(context, *args):
        calls.append("hook-boom")
        raise RuntimeError("boom")
    for hook_name in ("before_all", "after_all", "before_feature",
                      "after_feature", "before_scenario", "after_scenario",
                      "before_step", "after_step"):
        features = [make_feature("h", [P]), make_feature("h2", [P])]
        runner = make_runner(features, hooks={hook_name: boom})
        show("hook error in %s" % hook_name, runner.run(), runner, features)

    # -- CASE: aborted flag with non-bool value (value identity of the verdict)
    def set_aborted_text(context):
        context._set_root_attribute("aborted", "yes-aborted")
    features = [make_feature("ab", [P])]
    runner = make_runner(features, hooks={"after_all": set_aborted_text})
    show("aborted with truthy non-bool", runner.run(), runner, features)

    # -- CASE: KeyboardInterrupt in step and in a feature hook
    features = [make_feature("k1", [P, [u"a step interrupts"], P]),
                make_feature("k2", [P])]
    runner = make_runner(features)
    show("KeyboardInterrupt in step", runner.run(), runner, features)

    def interrupt_hook(context, feature):
        calls.append("hook-interrupt")
        raise KeyboardInterrupt()
    features = [make_feature("k3", [P]), make_feature("k4", [P])]
    runner = make_runner(features, hooks={"before_feature": interrupt_hook})
    show("KeyboardInterrupt in before_feature", runner.run(), runner, features)

    # -- CASE: cleanup errors on testrun layer
    def before_all_with_bad_cleanup(context):
        adds_bad_cleanup(context)
    features = [make_feature("c1", [P])]
    runner = make_runner(features, hooks={"before_all": before_all_with_bad_cleanup})
    show("testrun cleanup fails", runner.run(), runner, features)
    features = [make_feature("c2", [[u"a step adds a bad cleanup"], P])]
    runner = make_runner(features)
    show("scenario cleanup fails", runner.run(), runner, features)


if __name__ == "__main__":
    project = Project()
    try:
        singles = ["passing", "failing", "undefined", "outline", "skipping",
                   "skipped_feature", "empty", "abort", "cleanup", "nested",
                   "rules"]
        for name in singles:
            project.behave("single feature: %s" % name,
                           ["features/%s.feature" % name])
        everything = ["features/%s.feature" % name for name in singles]
        project.behave("all features", everything)
        project.behave("all features --stop", ["--stop"] + everything)
        project.behave("all features --dry-run", ["--dry-run"] + everything)
        project.behave("exclude failing by tags",
                       ["--tags=not @fail", "features/failing.feature",
                        "features/passing.feature"])
        project.behave("select only failing by tags",
                       ["--tags=@fail", "features/failing.feature",
                        "features/passing.feature"])
        project.behave("select nothing",
                       ["--tags=@nonexistent", "features/failing.feature"])
        project.behave("select by name",
                       ["--name=F2", "features/failing.feature"])
        project.behave("wip mode", ["--wip", "features/undefined.feature"])
        project.behave("passing then undefined",
                       ["features/passing.feature", "features/undefined.feature"])
        project.behave("undefined only --tags=@undef",
                       ["--tags=@undef", "features/undefined.feature"])
        project.behave("pending only in wip", ["--tags=@wip",
                                               "features/undefined.feature"])
        hooks_matrix(project, ["passing", "rules"],
                     ["before_all", "after_all", "before_all:kbd",
                      "before_feature", "after_feature", "before_scenario=P2",
                      "after_scenario=RS1", "before_tag=s1", "after_tag=r_ok",
                      "before_step", "after_step", "before_rule", "after_rule",
                      "before_feature:kbd", "after_all:assert"])
        for cleanup in ("all_bad", "all_ok", "all_bad,quiet_handler",
                        "feature_bad", "scenario_bad"):
            project.behave("cleanup=%s" % cleanup,
                           ["-D", "cleanup=%s" % cleanup,
                            "features/cleanup.feature", "features/passing.feature"])
        project.behave("testrun cleanup error only (all steps pass)",
                       ["-D", "cleanup=all_bad", "features/passing.feature"])
        project.behave("testrun cleanup error only, quiet handler",
                       ["-D", "cleanup=all_bad,quiet_handler", "features/passing.feature"])
        project.behave("verbose hook error",
                       ["-v", "-D", "fail_hook=after_all", "features/passing.feature"])
    finally:
        project.close()
    print("=" * 78)
    inprocess_run_model_checks()
