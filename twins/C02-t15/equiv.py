# -*- coding: utf-8 -*-
"""Equivalence transcript for property C02 (step execution order, status mapping,
stop after first non-pass). Self-contained; prints a canonical transcript."""
from __future__ import print_function
import sys
sys.path.insert(0, "/tmp/wtW/C02")

import itertools
import random
import re

from behave.configuration import Configuration
from behave.parser import parse_feature
from behave.runner import ModelRunner
from behave.step_registry import StepRegistry
from behave.matchers import Matcher, get_step_matcher_factory, NoMatch, Match
from behave.model import Scenario, Step, Background, ScenarioOutline
from behave.model_core import Status
from behave.api.pending_step import StepNotImplementedError
from behave.api.async_step import async_run_until_complete
from behave.formatter.base import Formatter

FOCUS = "C02-t15 Background.inherited_steps / Scenario.background_steps"
OUT = []


def emit(*parts):
    OUT.append(u" ".join(u"%s" % (p,) for p in parts))


def normalize_text(text):
    """Make tracebacks independent of line numbers / source lines."""
    if text is None:
        return u"<None>"
    lines = []
    for line in (u"%s" % text).splitlines():
        m = re.match(r'^\s+File "(.*?)", line \d+, in (.*)$', line)
        if m:
            filename = m.group(1).replace("\\", "/").rsplit("/", 1)[-1]
            lines.append(u"  File %s in %s" % (filename, m.group(2)))
            continue
        if line.startswith("    "):
            continue    # source line (or caret line) of a traceback frame
        line = re.sub(r"0x[0-9a-fA-F]+", "0xX", line)
        lines.append(line)
    return u"|".join(lines)


# ---------------------------------------------------------------------------
# STEP LIBRARY
# ---------------------------------------------------------------------------
CALLS = []


def make_registry():
    registry = StepRegistry()
    factory = get_step_matcher_factory()
    factory.reset()

    def parse_boom(text):
        raise ValueError("cannot convert %r" % text)
    parse_boom.pattern = r"\S+"
    if not factory.has_registered_type("Boom"):
        factory.register_type(Boom=parse_boom)

    def reg(keyword, pattern):
        def deco(func):
            registry.add_step_definition(keyword, pattern, func)
            return func
        return deco

    def log(ctx, name, tag):
        scenario = getattr(ctx, "scenario", None)
        CALLS.append((name, tag, scenario.name if scenario else None))
        emit("    CALL", name, tag, "in", scenario.name if scenario else None,
             "text=%r" % (ctx.text,), "table=%s" % (ctx.table is not None))

    @reg("step", u"pass {tag}")
    def step_pass(ctx, tag):
        log(ctx, "pass", tag)

    @reg("step", u"noisy {tag}")
    def step_noisy(ctx, tag):
        log(ctx, "noisy", tag)
        print("stdout-of-%s" % tag)

    @reg("step", u"fail {tag}")
    def step_fail(ctx, tag):
        log(ctx, "fail", tag)
        print("stdout-before-failure-%s" % tag)
        assert False, "boom-%s" % tag

    @reg("step", u"failbare {tag}")
    def step_failbare(ctx, tag):
        log(ctx, "failbare", tag)
        raise AssertionError()

    @reg("step", u"error {tag}")
    def step_error(ctx, tag):
        log(ctx, "error", tag)
        raise RuntimeError("kaputt-%s" % tag)

    @reg("step", u"pending {tag}")
    def step_pending(ctx, tag):
        log(ctx, "pending", tag)
        raise StepNotImplementedError(u"todo-%s" % tag)

    @reg("step", u"pendingbare {tag}")
    def step_pendingbare(ctx, tag):
        log(ctx, "pendingbare", tag)
        raise StepNotImplementedError()

    @reg("step", u"skipme {tag}")
    def step_skip(ctx, tag):
        log(ctx, "skipme", tag)
        ctx.scenario.skip("skip-%s" % tag)

    @reg("step", u"skipquiet {tag}")
    def step_skipquiet(ctx, tag):
        log(ctx, "skipquiet", tag)
        ctx.scenario.skip()

    @reg("step", u"interrupt {tag}")
    def step_interrupt(ctx, tag):
        log(ctx, "interrupt", tag)
        raise KeyboardInterrupt()

    @reg("step", u"convert {value:Boom} {tag}")
    def step_convert(ctx, value, tag):
        log(ctx, "convert", tag)

    @reg("step", u"apass {tag}")
    @async_run_until_complete
    async def step_apass(ctx, tag):
        log(ctx, "apass", tag)

    @reg("step", u"afail {tag}")
    @async_run_until_complete
    async def step_afail(ctx, tag):
        log(ctx, "afail", tag)
        assert False, "aboom-%s" % tag

    @reg("step", u"aerror {tag}")
    @async_run_until_complete(timeout=5)
    async def step_aerror(ctx, tag):
        log(ctx, "aerror", tag)
        raise LookupError("akaputt-%s" % tag)

    @reg("step", u"nested {tag}")
    def step_nested(ctx, tag):
        log(ctx, "nested", tag)
        ctx.execute_steps(u"Given pass inner-%s\nWhen fail inner-%s" % (tag, tag))

    @reg("given", u"onlygiven {tag}")
    def step_onlygiven(ctx, tag):
        log(ctx, "onlygiven", tag)

    @reg("then", u"onlythen {tag}")
    def step_onlythen(ctx, tag):
        log(ctx, "onlythen", tag)

    return registry


OUTCOMES = ["pass", "fail", "error", "pending", "undefined", "skipme",
            "interrupt", "convert x"]
MORE_OUTCOMES = OUTCOMES + ["failbare", "pendingbare", "apass", "afail",
                            "aerror", "noisy", "skipquiet", "nested",
                            "onlythen", "onlygiven"]


# ---------------------------------------------------------------------------
# RECORDING FORMATTER
# ---------------------------------------------------------------------------
class RecordingFormatter(Formatter):
    name = "recording"

    def __init__(self):     # pylint: disable=super-init-not-called
        pass

    def uri(self, uri):
        emit("  F.uri", uri)

    def feature(self, feature):
        emit("  F.feature", feature.name)

    def background(self, background):
        emit("  F.background", background.name)

    def rule(self, rule):
        emit("  F.rule", rule.name)

    def scenario(self, scenario):
        emit("  F.scenario", scenario.name)

    def step(self, step):
        emit("  F.step", step.keyword, step.name, step.status.name)

    def match(self, match):
        args = None
        if match.arguments is not None:
            args = [(a.name, a.value) for a in match.arguments]
        emit("  F.match", type(match).__name__,
             getattr(match.func, "__name__", None), args)

    def result(self, step):
        emit("  F.result", step.name, step.status.name,
             "hook_failed=%s" % step.hook_failed,
             "err=" + normalize_text(step.error_message),
             "exc=%s" % (type(step.exception).__name__
                         if getattr(step, "exception", None) else None))

    def eof(self):
        emit("  F.eof")

    def close(self):
        emit("  F.close")


def make_hooks(mode):
    def hook(name):
        def func(ctx, *args):
            what = args[0] if args else None
            label = getattr(what, "name", what)
            emit("    HOOK", name, label)
            if mode == "before_step_fails" and name == "before_step" \
                    and "hookbad" in label:
                raise RuntimeError("before_step-broken")
            if mode == "after_step_fails" and name == "after_step" \
                    and "hookbad" in label:
                raise RuntimeError("after_step-broken")
            if mode == "before_scenario_fails" and name == "before_scenario":
                raise RuntimeError("before_scenario-broken")
            if mode == "before_scenario_skips" and name == "before_scenario":
                what.mark_skipped()
            if mode == "before_step_interrupt" and name == "before_step" \
                    and "hookbad" in label:
                raise KeyboardInterrupt()
        return func
    if mode == "none":
        return {}
    names = ["before_all", "after_all", "before_feature", "after_feature",
             "before_rule", "after_rule", "before_scenario", "after_scenario",
             "before_tag", "after_tag", "before_step", "after_step"]
    return dict((name, hook(name)) for name in names)


# ---------------------------------------------------------------------------
# RUN MACHINERY
# ---------------------------------------------------------------------------
def dump_steps(label, steps):
    for step in steps:
        emit("  STEP", label, step.keyword, step.name, step.status.name,
             "hook_failed=%s" % step.hook_failed,
             "ran=%s" % (step.duration != 0 or None) if False else "",
             "err=" + normalize_text(step.error_message))


def dump_feature(feature):
    emit("  FEATURE-STATUS", feature.status.name)
    for scenario in feature.walk_scenarios(with_outlines=False):
        emit("  SCENARIO", scenario.name, scenario.status.name,
             "hook_failed=%s" % scenario.hook_failed,
             "was_dry_run=%s" % scenario.was_dry_run,
             "skip_reason=%s" % scenario.skip_reason,
             "n_bg=%d" % len(scenario.background_steps))
        dump_steps("all", scenario.all_steps)
        captured = scenario.captured
        emit("  CAPTURED", normalize_text(captured.make_report()
                                          if captured else None))
    for background in backgrounds_of(feature):
        emit("  BACKGROUND", background.name,
             "inherited=%d" % len(background.inherited_steps),
             "all=%s" % [s.name for s in background.all_steps],
             "iter=%s" % type(background.iter_steps()).__name__)
        dump_steps("bg-own", background.steps)
        dump_steps("bg-inherited", background.inherited_steps)


def backgrounds_of(feature):
    if feature.background:
        yield feature.background
    for rule in getattr(feature, "rules", []):
        if rule.background:
            yield rule.background


def run_feature_text(text, args=(), hooks="all", repeat=1, registry=None,
                     continue_after_failed=False, tweak=None):
    del CALLS[:]
    registry = registry or make_registry()
    config = Configuration(["--no-color"] + list(args), load_config=False)
    config.reporters = []
    feature = parse_feature(text, filename="demo.feature")
    if tweak:
        tweak(feature)
    if continue_after_failed:
        for scenario in feature.walk_scenarios(with_outlines=True):
            scenario.continue_after_failed_step = True
    for round_no in range(repeat):
        runner = ModelRunner(config, features=[feature], step_registry=registry)
        runner.formatters = [RecordingFormatter()]
        runner.hooks = make_hooks(hooks)
        emit(" RUN", round_no, "args=%s" % (list(args),), "hooks=%s" % hooks,
             "continue=%s" % continue_after_failed)
        try:
            failed = runner.run()
            emit("  RESULT failed=%s aborted=%s" % (failed, runner.aborted),
                 "undefined=%s" % [s.name for s in runner.undefined_steps],
                 "hook_failures=%d" % runner.hook_failures)
        except BaseException as e:     # pylint: disable=broad-except
            emit("  RAISED", type(e).__name__, normalize_text(e))
        dump_feature(feature)
        emit("  CALLS", CALLS)
        del CALLS[:]
        if round_no + 1 < repeat:
            feature.reset()
    return feature


KEYWORDS = ["Given", "When", "Then", "And", "But"]


def step_lines(outcomes, prefix, indent="    ", start=0):
    lines = []
    for index, outcome in enumerate(outcomes, start):
        keyword = KEYWORDS[min(index, 3)] if index < 3 else KEYWORDS[3 + index % 2]
        lines.append("%s%s %s %s%d" % (indent, keyword, outcome, prefix, index))
    return lines


def make_feature(own, feature_bg=None, rule_bg=None, tags="", outline=False,
                 name="S", second_scenario=True):
    lines = ["Feature: F"]
    if feature_bg is not None:
        lines.append("  Background: FB")
        lines += step_lines(feature_bg, "fb")
    indent = "  "
    if rule_bg is not None:
        lines.append("  Rule: R")
        lines.append("    Background: RB")
        lines += step_lines(rule_bg, "rb", indent="      ")
        indent = "    "
    if tags:
        lines.append(indent + tags)
    if outline:
        lines.append(indent + "Scenario Outline: %s <n>" % name)
        lines += [line.replace("own", "own<n>_")
                  for line in step_lines(own, "own", indent=indent + "  ")]
        lines.append(indent + "  Examples: E")
        lines.append(indent + "    | n |")
        lines.append(indent + "    | a |")
        lines.append(indent + "    | b |")
    else:
        lines.append(indent + "Scenario: %s" % name)
        lines += step_lines(own, "own", indent=indent + "  ")
    if second_scenario:
        lines.append(indent + "Scenario: Next")
        lines += step_lines(["pass", "undefined"], "next", indent=indent + "  ")
    return u"\n".join(lines) + u"\n"


def case(title, text, **kwargs):
    emit("CASE", title)
    for line in text.splitlines():
        emit("   |" + line)
    run_feature_text(text, **kwargs)


# ---------------------------------------------------------------------------
# SCENARIO PLAN
# ---------------------------------------------------------------------------
def main():
    rng = random.Random(20260927)

    # -- 1. EXHAUSTIVE: outcome sequences up to length 2 (+ all length 3 that
    #       start with pass), plain scenario, no hooks.
    sequences = []
    for n in (0, 1, 2):
        sequences += list(itertools.product(OUTCOMES, repeat=n))
    sequences += [("pass",) + seq for seq in itertools.product(OUTCOMES, repeat=2)]
    for seq in sequences:
        case("exhaustive %s" % (seq,), make_feature(list(seq), second_scenario=False),
             hooks="none")

    # -- 2. MODES: every single outcome followed by pass+undefined+pass,
    #       under wip / dry-run / continue_after_failed_step / with hooks.
    for outcome in MORE_OUTCOMES:
        seq = ["pass", outcome, "pass", "undefined", "pass"]
        text = make_feature(seq)
        case("plain+hooks %s" % outcome, text)
        case("wip %s" % outcome, make_feature(seq, tags="@wip"), hooks="none")
        case("dry-run %s" % outcome, text, args=["--dry-run"])
        case("continue %s" % outcome, text, hooks="none",
             continue_after_failed=True)
        case("wip+continue %s" % outcome, make_feature(seq, tags="@wip"),
             hooks="none", continue_after_failed=True)

    # -- 3. BACKGROUND LEVELS (0..2), plain and outline, position of first
    #       non-pass in every level.
    for outcome in ["fail", "error", "pending", "undefined", "skipme",
                    "interrupt", "convert x", "afail"]:
        for level in ("fb", "rb", "own"):
            fb = ["pass", outcome if level == "fb" else "pass"]
            rb = ["apass", outcome if level == "rb" else "pass"]
            own = [outcome if level == "own" else "pass", "undefined", "pass"]
            for outline in (False, True):
                case("bg2 %s@%s outline=%s" % (outcome, level, outline),
                     make_feature(own, fb, rb, outline=outline), hooks="none")
            if level != "rb":
                case("bg1 %s@%s" % (outcome, level),
                     make_feature(own, fb, None), hooks="none")
                case("bg1 dry-run %s@%s" % (outcome, level),
                     make_feature(own, fb, None), hooks="none",
                     args=["--dry-run"])
            if level != "fb":
                case("rule-bg-only %s@%s" % (outcome, level),
                     make_feature(own, None, rb, tags="@wip"), hooks="none")
    case("empty backgrounds", make_feature(["pass", "fail", "pass"], [], []),
         hooks="none")
    case("scenario without steps", make_feature([], ["pass"], ["fail"]))
    case("nothing at all", make_feature([], None, None, second_scenario=False))

    # -- 4. REPEATED RUNS of the same scenario objects.
    for seq in (["pass", "fail", "pass"], ["skipme", "pass"],
                ["pending", "undefined"], ["pass", "pass"],
                ["interrupt", "pass"]):
        case("repeat %s" % seq, make_feature(seq, ["pass"], ["pass"]),
             hooks="none", repeat=3)
        case("repeat outline %s" % seq,
             make_feature(seq, ["pass"], None, outline=True),
             hooks="none", repeat=2)

    # -- 5. HOOK INTERACTIONS.
    hook_seq = ["pass", "pass hookbad", "pass", "undefined"]
    for mode in ("before_step_fails", "after_step_fails",
                 "before_scenario_fails", "before_scenario_skips",
                 "before_step_interrupt"):
        case("hooks %s" % mode, make_feature(hook_seq, ["pass"]), hooks=mode)
        case("hooks %s continue" % mode, make_feature(hook_seq, ["pass"]),
             hooks=mode, continue_after_failed=True)
        case("hooks %s dry-run" % mode, make_feature(hook_seq, ["pass"]),
             hooks=mode, args=["--dry-run"])
    case("hooks fail+after_step_fails",
         make_feature(["fail hookbad", "pass"]), hooks="after_step_fails")

    # -- 6. OTHER CONFIG: tags deselect, show-skipped, stop, no-capture, junit.
    text = make_feature(["noisy", "fail", "pass"], ["noisy"], tags="@slow")
    case("tags deselect", text, args=["--tags=not @slow"])
    case("tags deselect no-skipped", text, args=["--tags=not @slow", "--no-skipped"])
    case("stop", text, args=["--stop"])
    case("no-capture", text, args=["--no-capture"], hooks="none")
    case("name select", text, args=["--name=Next"], hooks="none")

    def no_background(feature):
        for scenario in feature.walk_scenarios():
            scenario.use_background = False
    case("use_background=False", make_feature(["pass", "fail"], ["error"], ["pass"]),
         hooks="none", tweak=no_background)

    def no_inheritance(feature):
        for rule in feature.rules:
            rule.background.use_inheritance = False
    case("use_inheritance=False", make_feature(["pass", "fail"], ["error"], ["pass"]),
         hooks="none", tweak=no_inheritance)

    # -- 7. RANDOM longer sequences.
    for index in range(120):
        def pick(max_len):
            return [rng.choice(MORE_OUTCOMES if rng.random() < 0.5
                               else ["pass", "pass", "apass", "noisy"])
                    for _ in range(rng.randint(0, max_len))]
        fb = pick(3) if rng.random() < 0.6 else None
        rb = pick(3) if rng.random() < 0.5 else None
        own = pick(7)
        args = []
        if rng.random() < 0.2:
            args.append("--dry-run")
        tags = "@wip" if rng.random() < 0.3 else ""
        case("random %d" % index,
             make_feature(own, fb, rb, tags=tags, outline=rng.random() < 0.3),
             args=args, hooks=rng.choice(["none", "all", "after_step_fails"]),
             continue_after_failed=rng.random() < 0.3,
             repeat=rng.choice([1, 1, 2]))

    extra_checks()
    sys.stdout.write(u"\n".join(OUT) + u"\n")


# ---------------------------------------------------------------------------
# DIRECT API CHECKS (step.run, registry, model helpers)
# ---------------------------------------------------------------------------
def extra_checks():
    emit("EXTRA registry lookups")
    registry = make_registry()
    for step_type in ("given", "when", "then", "step"):
        for name in ("pass a", "onlygiven b", "onlythen c", "nothing d",
                     "convert q e", "fail f", ""):
            step = Step("x.feature", 1, step_type.title(), step_type, name)
            match = registry.find_match(step)
            definition = registry.find_step_definition(step)
            emit("  LOOKUP", step_type, repr(name), type(match).__name__,
                 getattr(getattr(match, "func", None), "__name__", None),
                 [(a.name, a.value) for a in (match.arguments or [])]
                 if match else None,
                 definition.pattern if definition else None)
    emit("  REGISTRY-LISTS", sorted((k, [m.pattern for m in v])
                                    for k, v in registry.steps.items()))
    empty = StepRegistry()
    step = Step("x.feature", 1, "Given", "given", "pass a")
    emit("  EMPTY", empty.find_match(step), empty.find_step_definition(step),
         sorted((k, len(v)) for k, v in empty.steps.items()))

    class BrokenMatcher(Matcher):
        def compile(self):
            return self

        def check_match(self, step_text):
            raise NotImplementedError("broken:%s" % step_text)

    broken = StepRegistry()
    broken.steps["given"].append(BrokenMatcher(lambda ctx: None, u"pass a", "given"))
    for finder in (broken.find_match, broken.find_step_definition):
        try:
            emit("  BROKEN", finder(step))
        except Exception as e:      # pylint: disable=broad-except
            emit("  BROKEN raised", type(e).__name__, e)

    emit("EXTRA Step.run directly (quiet / capture variants)")
    for quiet, capture in itertools.product((False, True), repeat=2):
        for name in ("pass a", "fail b", "noisy c", "nothing d", "pending e",
                     "convert q f", "error g"):
            for dry_run in (False, True):
                config = Configuration(["--dry-run"] if dry_run else [],
                                       load_config=False)
                config.reporters = []
                runner = ModelRunner(config, step_registry=registry)
                runner.formatters = [RecordingFormatter()]
                runner.hooks = make_hooks("all")
                from behave.runner import Context
                runner.context = Context(runner)
                runner.setup_capture()
                step = Step("x.feature", 1, "Given", "given", name)
                step.status = Status.failed     # must be reset by run()
                step.error_message = u"stale"
                try:
                    result = step.run(runner, quiet=quiet, capture=capture)
                except BaseException as e:  # pylint: disable=broad-except
                    result = "RAISED %s" % type(e).__name__
                runner.teardown_capture()
                emit("  STEP.RUN", name, "quiet=%s capture=%s dry=%s" %
                     (quiet, capture, dry_run), "->", result, step.status.name,
                     normalize_text(step.error_message),
                     "captured=%s" % normalize_text(step.captured.make_report()
                                                    if step.captured else None),
                     "undefined=%d" % len(runner.undefined_steps))

    emit("EXTRA model helpers")
    text = make_feature(["pass", "fail"], ["pass", "error"], ["pass"])
    feature = parse_feature(text, filename="demo.feature")
    for scenario in feature.walk_scenarios():
        first = scenario.all_steps
        emit("  ITER", scenario.name, type(first).__name__,
             type(scenario.iter_steps()).__name__, type(iter(scenario)).__name__,
             [s.name for s in first], [s.name for s in scenario],
             scenario.background_steps is scenario.background_steps,
             [a is b for a, b in zip(scenario.background_steps,
                                     scenario.background.all_steps)],
             scenario.duration, scenario.status.name)
        scenario.use_background = False
        emit("  ITER-nobg", [s.name for s in scenario.all_steps],
             scenario.background_steps)
        scenario.use_background = True
        emit("  ITER-bg", [s.name for s in scenario.all_steps])
    for background in backgrounds_of(feature):
        emit("  BG", background.name, type(background.iter_steps()).__name__,
             [s.name for s in background], background.inherited_steps is
             background.inherited_steps, background.duration,
             [s.name for s in background.inherited_steps])
        background.use_inheritance = False
        emit("  BG-noinherit", type(background.iter_steps()).__name__,
             [s.name for s in background.all_steps], background.inherited_steps)
        background.use_inheritance = True
        emit("  BG-inherit", [s.name for s in background.all_steps])
    emit("EXTRA lazy background copies")
    for fb, rb in ((["pass", "fail"], ["error", "pass"]), ([], ["pass"]),
                   (["pass"], []), (None, ["pass"]), (["pass"], None),
                   ([], []), (None, None)):
        text = make_feature(["pass", "pass"], fb, rb)
        feature = parse_feature(text, filename="demo.feature")
        scenarios = list(feature.walk_scenarios())
        emit("  LAZY fb=%s rb=%s" % (fb, rb))
        for scenario in scenarios:
            background = scenario.background
            emit("   before-access", scenario.name, scenario._background_steps,
                 getattr(background, "_inherited_steps", "n/a"))
            copies = scenario.background_steps
            emit("   copies", [s.name for s in copies],
                 copies is scenario.background_steps,
                 type(scenario.iter_steps()).__name__)
            if background is not None:
                originals = background.all_steps
                emit("   distinct-objects",
                     [c is not o and c == o for c, o in zip(copies, originals)],
                     background.inherited_steps is background.inherited_steps,
                     type(background.iter_steps()).__name__,
                     type(iter(background)).__name__,
                     [s.name for s in background.inherited_steps])
                outer = background.inherited_background
                if outer is not None:
                    emit("   inherited-distinct",
                         [c is not o and c == o for c, o in
                          zip(background.inherited_steps, outer.steps)])
                # -- MUTATION ISOLATION: status set on copy stays on copy.
                for step in copies:
                    step.status = Status.failed
                emit("   isolation", [s.status.name for s in originals],
                     [s.status.name for s in background.steps],
                     [s.status.name for s in scenario.background_steps])
                # -- TOGGLES force re-initialization (fresh, reset copies).
                background.use_inheritance = False
                emit("   no-inherit", background.use_inheritance,
                     background._inherited_steps,
                     [s.name for s in background.all_steps],
                     [s.name for s in scenario.background_steps])
                scenario.use_background = True
                emit("   re-init", [(s.name, s.status.name)
                                    for s in scenario.background_steps])
                background.use_inheritance = True
                scenario.use_background = 0
                emit("   off", scenario.use_background, scenario.background_steps,
                     [s.name for s in scenario.all_steps],
                     type(scenario.all_steps).__name__)
                scenario.use_background = True
                emit("   on", [(s.name, s.status.name) for s in scenario.all_steps])
        other = scenarios[-1]
        emit("   other-scenario-unaffected",
             [(s.name, s.status.name) for s in other.all_steps])
    # -- Scenario with explicit background_steps / dangling settings.
    bg = Background("x.feature", 1, steps=[
        Step("x.feature", 2, "Given", "given", "pass bg")])
    given = [Step("x.feature", 9, "Given", "given", "pass preset")]
    preset = Scenario("x.feature", 3, u"Scenario", u"preset", background=bg,
                      background_steps=given,
                      steps=[Step("x.feature", 4, "When", "when", "pass own")])
    emit("  PRESET", preset.background_steps is given,
         [s.name for s in preset.all_steps])
    preset.use_background = True
    emit("  PRESET-reinit", preset.background_steps is given,
         [s.name for s in preset.all_steps])
    empty_preset = Scenario("x.feature", 3, u"Scenario", u"preset2",
                            background=bg, background_steps=[])
    emit("  PRESET-empty", empty_preset.background_steps,
         [s.name for s in empty_preset.all_steps])
    nobg = Scenario("x.feature", 3, u"Scenario", u"nobg", background=None,
                    background_steps=given)
    emit("  NOBG-with-steps", [s.name for s in nobg.background_steps],
         [s.name for s in nobg.all_steps], type(nobg.all_steps).__name__)
    inner = Background("x.feature", 5, name=u"inner", steps=[])
    inner.inherited_background = bg
    emit("  INNER", [s.name for s in inner.all_steps], inner.duration,
         type(inner.iter_steps()).__name__, repr(inner))
    inner.inherited_background = None
    emit("  INNER-stale-cache", [s.name for s in inner.all_steps])
    inner.use_inheritance = 1
    emit("  INNER-refreshed", inner.use_inheritance,
         [s.name for s in inner.all_steps], type(inner.iter_steps()).__name__)

    class BrokenBackground(Background):
        @property
        def all_steps(self):
            raise LookupError("no steps today")

    broken_scenario = Scenario("x.feature", 3, u"Scenario", u"broken",
                               background=BrokenBackground("x.feature", 1))
    for _ in range(2):
        try:
            emit("  BROKEN-BG", broken_scenario.background_steps)
        except LookupError as e:
            emit("  BROKEN-BG raised", e, broken_scenario._background_steps)

    lone = Scenario("x.feature", 3, u"Scenario", u"lone",
                    steps=[Step("x.feature", 4, "Given", "given", "pass z")])
    emit("  LONE", type(lone.all_steps).__name__, lone.background_steps,
         [s.name for s in lone.all_steps], lone.status.name)
    lone.steps[0].status = Status.failed
    lone.hook_failed = True
    lone.reset()
    emit("  LONE-reset", lone.steps[0].status.name, lone.hook_failed,
         lone.status.name)
    lone.skip("why")
    emit("  LONE-skip", lone.steps[0].status.name, lone.status.name,
         lone.skip_reason)


if __name__ == "__main__":
    main()
