# -*- coding: UTF-8 -*-
"""
Equivalence harness for property C02 (step execution order, outcome-to-status
mapping, stop after first non-pass).

Runs generated features in-process through behave's ModelRunner with a private
step registry, a recording formatter and recording hooks, and prints a canonical
transcript (call log, formatter protocol, step/scenario statuses, error
messages with line numbers removed).
"""
from __future__ import print_function
import sys
sys.path.insert(0, "/tmp/wtX/C02")

import io
import itertools
import random
import re
import asyncio

import behave
assert behave.__file__.startswith("/tmp/wtX/C02/"), behave.__file__
from behave import matchers as _matchers
from behave.api.async_step import async_run_until_complete
from behave.api.pending_step import StepNotImplementedError
from behave.configuration import Configuration
from behave.formatter.base import Formatter
from behave.model import Scenario, reset_model
from behave.model_core import Status
from behave.parser import parse_feature
from behave.runner import ModelRunner, Context
from behave.step_registry import StepRegistry
from behave.matchers import register_type

OUT = []


def emit(text):
    OUT.append(text)


def normalize(text):
    if text is None:
        return None
    text = re.sub(r'File "[^"]*/([^/"]+)", line \d+, in (\w+)',
                  r'File "\1", in \2', text)
    text = re.sub(r"0x[0-9a-fA-F]+", "0x?", text)
    return text


# ---------------------------------------------------------------------------
# STEP LIBRARY
# ---------------------------------------------------------------------------
CALLS = []


def parse_bad(text):
    raise ValueError("cannot convert %r" % text)


def parse_bad_type(text):
    raise TypeError("type trouble with %r" % text)


def parse_number(text):
    return int(text)


register_type(Bad=parse_bad, BadType=parse_bad_type, Num=parse_number)


def make_registry():
    registry = StepRegistry()
    given = registry.make_decorator("given")
    when = registry.make_decorator("when")
    then = registry.make_decorator("then")
    step = registry.make_decorator("step")

    def log(context, what):
        scenario = getattr(context, "scenario", None)
        name = scenario.name if scenario is not None else None
        CALLS.append((name, what))
        print("stdout of %s" % what)

    @step(u"ok {n}")
    def step_ok(context, n):
        log(context, "ok %s" % n)

    @step(u"ok-text {n}")
    def step_ok_text(context, n):
        log(context, "ok-text %s text=%r table=%r" % (
            n, context.text, context.table and context.table.headings))

    @step(u"afail {n}")
    def step_afail(context, n):
        log(context, "afail %s" % n)
        assert False, "assert-message %s" % n

    @step(u"afail-noargs {n}")
    def step_afail_noargs(context, n):
        log(context, "afail-noargs %s" % n)
        raise AssertionError()

    @step(u"boom {n}")
    def step_boom(context, n):
        log(context, "boom %s" % n)
        raise RuntimeError("boom-message %s" % n)

    @step(u"pend {n}")
    def step_pend(context, n):
        log(context, "pend %s" % n)
        raise StepNotImplementedError("pending-message %s" % n)

    @step(u"pend-noargs {n}")
    def step_pend_noargs(context, n):
        log(context, "pend-noargs %s" % n)
        raise StepNotImplementedError()

    @step(u"nie {n}")
    def step_nie(context, n):
        log(context, "nie %s" % n)
        raise NotImplementedError("plain-nie %s" % n)

    @step(u"skipit {n}")
    def step_skipit(context, n):
        log(context, "skipit %s" % n)
        context.scenario.skip("skip-reason %s" % n)

    @step(u"kbd {n}")
    def step_kbd(context, n):
        log(context, "kbd %s" % n)
        raise KeyboardInterrupt()

    @step(u"conv {n:Bad}")
    def step_conv(context, n):
        log(context, "conv %s" % n)

    @step(u"convtype {n:BadType}")
    def step_convtype(context, n):
        log(context, "convtype %s" % n)

    @step(u"sysexit {n}")
    def step_sysexit(context, n):
        log(context, "sysexit %s" % n)
        raise SystemExit(3)

    @given(u"given-only {n:Num} and {name}")
    def step_given_only(context, n, name):
        log(context, "given-only %r %r" % (n, name))

    @when(u"when-only {} with {:Num} and {word:w}")
    def step_when_only(context, first, second, word):
        log(context, "when-only %r %r %r" % (first, second, word))

    @then(u"then-only {n}")
    def step_then_only(context, n):
        log(context, "then-only %s" % n)

    @step(u"aok {n}")
    @async_run_until_complete
    async def step_async_ok(context, n):
        await asyncio.sleep(0)
        log(context, "aok %s" % n)

    @step(u"aafail {n}")
    @async_run_until_complete
    async def step_async_fail(context, n):
        await asyncio.sleep(0)
        log(context, "aafail %s" % n)
        assert False, "async-assert %s" % n

    @step(u"aboom {n}")
    @async_run_until_complete(timeout=2)
    async def step_async_boom(context, n):
        await asyncio.sleep(0)
        log(context, "aboom %s" % n)
        raise KeyError("async-boom %s" % n)

    @step(u"nested {n}")
    def step_nested(context, n):
        log(context, "nested %s" % n)
        context.execute_steps(u"Given ok nested-%s\nWhen afail nested-%s" % (n, n))

    return registry


OUTCOMES = ["ok", "afail", "boom", "pend", "undef", "skipit", "kbd", "conv"]
MORE_OUTCOMES = OUTCOMES + ["afail-noargs", "pend-noargs", "nie", "convtype",
                            "aok", "aafail", "aboom", "nested"]


# ---------------------------------------------------------------------------
# RECORDING FORMATTER / HOOKS
# ---------------------------------------------------------------------------
class RecordingFormatter(Formatter):
    name = "recording"

    def __init__(self, log, tag="F"):
        self.log = log
        self.tag = tag

    def uri(self, uri):
        self.log.append("%s.uri %s" % (self.tag, uri))

    def feature(self, feature):
        self.log.append("%s.feature %s" % (self.tag, feature.name))

    def rule(self, rule):
        self.log.append("%s.rule %s" % (self.tag, rule.name))

    def background(self, background):
        self.log.append("%s.background %s" % (self.tag, background.name))

    def scenario(self, scenario):
        self.log.append("%s.scenario %s" % (self.tag, scenario.name))

    def step(self, step):
        self.log.append("%s.step %s %s [%s]" % (self.tag, step.keyword, step.name,
                                                step.status.name))

    def match(self, match):
        func = getattr(match, "func", None)
        args = match.arguments
        if args is not None:
            args = [(a.name, a.original, a.value, a.start, a.end) for a in args]
        self.log.append("%s.match %s func=%s args=%r loc=%s" % (
            self.tag, type(match).__name__,
            getattr(func, "__name__", None), args,
            match.location and match.location.basename()))

    def result(self, step):
        self.log.append("%s.result %s -> %s" % (self.tag, step.name,
                                                step.status.name))

    def eof(self):
        self.log.append("%s.eof" % self.tag)

    def close(self):
        self.log.append("%s.close" % self.tag)


def make_hooks(log, mode):
    def before_step(context, step):
        log.append("H.before_step %s [%s]" % (step.name, step.status.name))
        if mode == "before_step_fails" and "hookfail" in step.name:
            raise RuntimeError("before_step hook failure")

    def after_step(context, step):
        log.append("H.after_step %s [%s] failed=%s" % (
            step.name, step.status.name, context.failed))
        if mode == "after_step_fails" and "hookfail" in step.name:
            raise RuntimeError("after_step hook failure")

    def before_scenario(context, scenario):
        log.append("H.before_scenario %s" % scenario.name)
        if mode == "before_scenario_fails":
            raise RuntimeError("before_scenario hook failure")
        if mode == "before_scenario_skips" and "S1" in scenario.name:
            scenario.mark_skipped()
        if mode == "before_scenario_skip_reason" and "S1" in scenario.name:
            scenario.skip("hook says so")

    def after_scenario(context, scenario):
        log.append("H.after_scenario %s [%s]" % (scenario.name,
                                                 scenario.status.name))
        if mode == "after_scenario_fails":
            raise RuntimeError("after_scenario hook failure")

    def before_tag(context, tag):
        log.append("H.before_tag %s" % tag)

    def after_tag(context, tag):
        log.append("H.after_tag %s" % tag)

    return dict(before_step=before_step, after_step=after_step,
                before_scenario=before_scenario, after_scenario=after_scenario,
                before_tag=before_tag, after_tag=after_tag)


# ---------------------------------------------------------------------------
# FEATURE GENERATION
# ---------------------------------------------------------------------------
KEYWORDS = ["Given", "When", "Then", "And", "But", "*"]


def step_line(outcome, label, index=0):
    keyword = KEYWORDS[index % len(KEYWORDS)]
    if index == 0 and keyword in ("And", "But"):
        keyword = "Given"
    return u"    %s %s %s" % (keyword, outcome, label)


def make_feature_text(name, feature_bg, rule_bg, scenarios, wip=False,
                      as_outline=False):
    """scenarios: list of (name, [outcome...])"""
    lines = [u"Feature: %s" % name]
    if feature_bg is not None:
        lines.append(u"  Background: FB")
        for i, outcome in enumerate(feature_bg):
            lines.append(step_line(outcome, "fb%d" % i, i))
    indent_rule = rule_bg is not None
    if indent_rule:
        lines.append(u"  Rule: R1")
        lines.append(u"  Background: RB")
        for i, outcome in enumerate(rule_bg):
            lines.append(step_line(outcome, "rb%d" % i, i))
    for scenario_name, outcomes in scenarios:
        if wip:
            lines.append(u"  @wip")
        if as_outline:
            lines.append(u"  Scenario Outline: %s" % scenario_name)
            for i, outcome in enumerate(outcomes):
                lines.append(step_line(outcome, "s%d-<x>" % i, i))
            lines.append(u"    Examples: E")
            lines.append(u"      | x |")
            lines.append(u"      | a |")
            lines.append(u"      | b |")
        else:
            lines.append(u"  Scenario: %s" % scenario_name)
            for i, outcome in enumerate(outcomes):
                lines.append(step_line(outcome, "s%d" % i, i))
    return u"\n".join(lines) + u"\n"


def make_config(dry_run=False, show_skipped=True, extra=None):
    args = ["--no-color", "--no-summary"]
    if dry_run:
        args.append("--dry-run")
    if not show_skipped:
        args.append("--no-skipped")
    args.extend(extra or [])
    config = Configuration(command_args=args, load_config=False)
    config.reporters = []
    config.format = []
    return config


def describe_steps(prefix, steps):
    for step in steps:
        emit("%s step %s %s: %s hook_failed=%s exc=%s err=%r captured=%r" % (
            prefix, step.keyword, step.name, step.status.name, step.hook_failed,
            type(step.exception).__name__ if step.exception else None,
            normalize(step.error_message),
            normalize(step.captured.make_report()) if step.captured else None))


def describe_scenario(scenario, prefix="  "):
    emit("%sscenario %r status=%s should_skip=%s skip_reason=%r hook_failed=%s "
         "was_dry_run=%s err=%r" % (
             prefix, scenario.name, scenario.status.name, scenario.should_skip,
             scenario.skip_reason, scenario.hook_failed, scenario.was_dry_run,
             normalize(scenario.error_message)))
    describe_steps(prefix + "  ", scenario.all_steps)
    emit("%s  background_steps=%r own_steps=%r" % (
        prefix, [s.name for s in scenario.background_steps],
        [s.name for s in scenario.steps]))


def describe_feature(feature):
    emit("  feature %r status=%s" % (feature.name, feature.status.name))
    if feature.background:
        describe_steps("    feature-bg", feature.background.steps)
    for rule in feature.rules:
        emit("    rule %r status=%s" % (rule.name, rule.status.name))
        if rule.background:
            describe_steps("      rule-bg.inherited",
                           rule.background.inherited_steps)
            describe_steps("      rule-bg.own", rule.background.steps)
    for scenario in feature.walk_scenarios(with_outlines=True):
        describe_scenario(scenario, "    ")


def run_case(title, text, dry_run=False, show_skipped=True, hook_mode=None,
             continue_after_failed=False, runs=1, reset_between=False,
             two_formatters=False, pre_abort=False, extra_args=None):
    emit("=" * 70)
    emit("CASE %s dry_run=%s show_skipped=%s hooks=%s continue=%s runs=%s "
         "reset=%s" % (title, dry_run, show_skipped, hook_mode,
                       continue_after_failed, runs, reset_between))
    feature = parse_feature(text, filename="gen.feature")
    config = make_config(dry_run, show_skipped, extra_args)
    registry = make_registry()
    old_flag = Scenario.continue_after_failed_step
    Scenario.continue_after_failed_step = continue_after_failed
    real_stdout = sys.stdout
    try:
        for run_no in range(runs):
            log = []
            del CALLS[:]
            runner = ModelRunner(config, [feature], step_registry=registry)
            runner.formatters = [RecordingFormatter(log, "F")]
            if two_formatters:
                runner.formatters.append(RecordingFormatter(log, "G"))
            if hook_mode is not None:
                runner.hooks = make_hooks(log, hook_mode)
            runner.context = Context(runner)
            if pre_abort:
                runner.context._set_root_attribute("aborted", True)
            sys.stdout = captured_out = io.StringIO()
            try:
                try:
                    failed = runner.run_model()
                    outcome = "failed=%s" % failed
                except BaseException as e:      # noqa
                    outcome = "RAISED %s: %s" % (type(e).__name__, e)
            finally:
                sys.stdout = real_stdout
            emit(" run#%d -> %s aborted=%s hook_failures=%s" % (
                run_no, outcome, runner.aborted, runner.hook_failures))
            emit("  stdout=%r" % normalize(captured_out.getvalue()))
            emit("  calls=%r" % CALLS)
            emit("  undefined=%r" % [(s.keyword, s.name, s.status.name)
                                     for s in runner.undefined_steps])
            for entry in log:
                emit("  | " + entry)
            describe_feature(feature)
            if reset_between:
                reset_model([feature])
                emit("  after reset:")
                describe_feature(feature)
    finally:
        sys.stdout = real_stdout
        Scenario.continue_after_failed_step = old_flag


# ---------------------------------------------------------------------------
# CASE SETS
# ---------------------------------------------------------------------------
def exhaustive_sequences(max_len, outcomes=OUTCOMES):
    for length in range(0, max_len + 1):
        for seq in itertools.product(outcomes, repeat=length):
            yield list(seq)


def case_set_sequences(max_len=2):
    """All outcome sequences up to max_len as own steps of a plain scenario,
    many scenarios per feature (status independence between scenarios)."""
    seqs = list(exhaustive_sequences(max_len))
    scenarios = [("S%d %s" % (i, "-".join(seq) or "empty"), seq)
                 for i, seq in enumerate(seqs)]
    # -- NOTE: kbd aborts the run; keep those in features of their own.
    plain = [s for s in scenarios if "kbd" not in s[1]]
    with_kbd = [s for s in scenarios if "kbd" in s[1]]
    for dry_run in (False, True):
        for wip in (False, True):
            for cont in (False, True):
                text = make_feature_text("Seq", None, None, plain, wip=wip)
                run_case("sequences wip=%s" % wip, text, dry_run=dry_run,
                         continue_after_failed=cont)
    for scenario in with_kbd:
        for cont in (False, True):
            text = make_feature_text("Kbd", None, None,
                                     [scenario, ("S-after ok", ["ok", "undef"])])
            run_case("kbd " + scenario[0], text, continue_after_failed=cont)


def case_set_backgrounds():
    rng = random.Random(20240202)
    bgs = [None, [], ["ok"], ["afail"], ["undef"], ["ok", "pend"],
           ["skipit"], ["conv", "ok"], ["boom"]]
    count = 0
    for fb in bgs:
        for rb in bgs:
            for own in (["ok", "undef"], ["afail", "ok", "undef", "ok"], []):
                count += 1
                scenarios = [("S1", own), ("S2", ["ok", "ok"])]
                dry_run = (count % 5 == 0)
                wip = (count % 3 == 0)
                cont = (count % 4 == 0)
                outline = (count % 7 == 0)
                text = make_feature_text("BG", fb, rb, scenarios, wip=wip,
                                         as_outline=outline)
                run_case("bg fb=%s rb=%s wip=%s outline=%s" % (fb, rb, wip, outline),
                         text, dry_run=dry_run, continue_after_failed=cont,
                         runs=2 if count % 6 == 0 else 1,
                         reset_between=(count % 12 == 0))
    # -- RANDOM longer sequences at all three levels
    for i in range(60):
        fb = [rng.choice(MORE_OUTCOMES) for _ in range(rng.randint(0, 3))]
        rb = [rng.choice(MORE_OUTCOMES) for _ in range(rng.randint(0, 3))]
        own1 = [rng.choice(MORE_OUTCOMES) for _ in range(rng.randint(0, 7))]
        own2 = [rng.choice(MORE_OUTCOMES) for _ in range(rng.randint(1, 5))]
        fb = [o for o in fb if o != "kbd"]
        rb = [o for o in rb if o != "kbd"]
        text = make_feature_text(
            "RND%d" % i, fb if rng.random() < 0.8 else None,
            rb if rng.random() < 0.7 else None,
            [("S1", own1), ("S2", own2)], wip=rng.random() < 0.3,
            as_outline=rng.random() < 0.3)
        run_case("random %d" % i, text, dry_run=rng.random() < 0.2,
                 continue_after_failed=rng.random() < 0.4,
                 show_skipped=rng.random() < 0.8,
                 runs=rng.choice([1, 1, 2]),
                 reset_between=rng.random() < 0.3,
                 two_formatters=rng.random() < 0.3)


def case_set_hooks_and_modes():
    text = make_feature_text(
        "Hooks", ["ok"], ["ok"],
        [("S1", ["ok", "ok hookfail", "afail", "undef", "ok"]),
         ("S2", ["ok", "pend", "ok"]),
         ("S3", [])], wip=False)
    tagged = text.replace(u"  Scenario: S2", u"  @wip @slow\n  Scenario: S2")
    for hook_mode in ("plain", "before_step_fails", "after_step_fails",
                      "before_scenario_fails", "before_scenario_skips",
                      "before_scenario_skip_reason", "after_scenario_fails"):
        for dry_run in (False, True):
            for show_skipped in (True, False):
                run_case("hooks", tagged, dry_run=dry_run, hook_mode=hook_mode,
                         show_skipped=show_skipped, two_formatters=True)
    run_case("pre-aborted", tagged, hook_mode="plain", pre_abort=True)
    run_case("pre-aborted dry", tagged, hook_mode="plain", pre_abort=True,
             dry_run=True)
    run_case("tags exclude", tagged, hook_mode="plain",
             extra_args=["--tags=not @slow"])
    run_case("tags exclude no-skipped", tagged, hook_mode="plain",
             show_skipped=False, extra_args=["--tags=not @slow"])
    run_case("name select", tagged, hook_mode="plain", extra_args=["--name=S1"])
    run_case("stop", tagged, hook_mode="plain", extra_args=["--stop"])
    run_case("no-capture", tagged, hook_mode="plain",
             extra_args=["--no-capture"])
    # -- Multi-line text / table and typed, named and positional parameters.
    text2 = u'''Feature: Params
  Background:
    Given given-only 12 and Alice
  Scenario: P1
    When when-only foo bar with 42 and word
    Then then-only 1
    And ok-text 2
      """
      some text
      """
    And ok-text 3
      | a | b |
      | 1 | 2 |
    And ok-text 4
    But given-only 1 and x
    Given given-only x12 and Bob
    Then ok 5
  Scenario: P2
    Given then-only 1
    Then ok 6
  Scenario: P3
    When when-only a with notanumber and w
    Then ok 7
'''
    for dry_run in (False, True):
        run_case("params", text2, dry_run=dry_run, hook_mode="plain",
                 two_formatters=True)
    # -- BaseException that is not handled by Step.run (propagates).
    text3 = make_feature_text("Exit", ["ok"], None,
                              [("S1", ["ok", "sysexit", "ok"]),
                               ("S2", ["ok"])])
    run_case("sysexit", text3, hook_mode="plain")
    run_case("sysexit dry", text3, hook_mode="plain", dry_run=True)
    run_case("params repeated", text2, runs=3)
    run_case("params repeated reset", text2, runs=2, reset_between=True)


def case_set_direct():
    """Step.run() called directly (without Scenario.run), inherited @wip tags,
    quiet / capture switches, runs of the same step object in a row."""
    text = u'''@wip
Feature: Direct
  Background:
    Given ok fb0
  Rule: R
    Background:
      Given pend rb0
    Scenario: D1
      Given ok 1
      When pend 2
      Then pend-noargs 3
      And afail 4
      And afail-noargs 5
      And boom 6
      And undef 7
      And conv 8
      And skipit 9
      And aok 10
      And aafail 11
      And nie 12
'''
    run_case("inherited wip", text, hook_mode="plain")
    run_case("inherited wip continue", text, hook_mode="plain",
             continue_after_failed=True)
    run_case("inherited wip dry", text, hook_mode="plain", dry_run=True)
    for dry_run in (False, True):
        for with_scenario in (False, True):
            for quiet in (False, True):
                for capture in (True, False):
                    emit("=" * 70)
                    emit("DIRECT dry_run=%s with_scenario=%s quiet=%s capture=%s" % (
                        dry_run, with_scenario, quiet, capture))
                    feature = parse_feature(text, filename="direct.feature")
                    scenario = list(feature.walk_scenarios())[0]
                    config = make_config(dry_run)
                    log = []
                    runner = ModelRunner(config, [feature],
                                         step_registry=make_registry())
                    runner.formatters = [RecordingFormatter(log, "F")]
                    runner.hooks = make_hooks(log, "plain")
                    runner.context = Context(runner)
                    if with_scenario:
                        runner.context.scenario = scenario
                    runner.setup_capture()
                    del CALLS[:]
                    real_stdout = sys.stdout
                    sys.stdout = io.StringIO()
                    try:
                        for step in list(scenario.all_steps) * 2:
                            try:
                                result = step.run(runner, quiet=quiet,
                                                  capture=capture)
                            except BaseException as e:      # noqa
                                result = "RAISED %s: %s" % (type(e).__name__, e)
                            log.append("step.run(%s) -> %r [%s]" % (
                                step.name, result, step.status.name))
                    finally:
                        sys.stdout = real_stdout
                    runner.teardown_capture()
                    emit("  calls=%r" % CALLS)
                    emit("  undefined=%r" % [s.name for s in runner.undefined_steps])
                    emit("  aborted=%s failed=%s" % (runner.aborted,
                                                     runner.context.failed))
                    for entry in log:
                        emit("  | " + entry)
                    describe_scenario(scenario)


def case_set_toggles():
    """Background usage / inheritance switches and the lazily created
    per-scenario copies of the inherited steps."""
    text = u'''Feature: Toggles
  Background: FB
    Given ok fb0
    And afail fb1
  Scenario: T0
    Given ok t0
  Rule: R1
    Background: RB
      Given ok rb0
      And undef rb1
    Scenario: T1
      Given ok t1
      When ok t1b
    Scenario Outline: T2
      Given ok <x>
      Examples:
        | x |
        | a |
  Rule: R2
    Scenario: T3
      Given ok t3
'''

    def ident(obj, pool):
        for index, other in enumerate(pool):
            if other is obj:
                return index
        pool.append(obj)
        return len(pool) - 1

    for use_background in (True, False, None):
        for use_inheritance in (True, False, None):
            for touch_first in (False, True):
                for dry_run in (False, True):
                    emit("=" * 70)
                    emit("TOGGLES use_background=%s use_inheritance=%s "
                         "touch_first=%s dry_run=%s" % (
                             use_background, use_inheritance, touch_first,
                             dry_run))
                    feature = parse_feature(text, filename="toggles.feature")
                    scenarios = list(feature.walk_scenarios())
                    pool = []
                    if touch_first:
                        # -- Lazy init happens before the switches are used.
                        for scenario in scenarios:
                            emit("  pre %s: bg=%r iter=%s all=%s" % (
                                scenario.name,
                                [ident(x, pool) for x in scenario.background_steps],
                                type(scenario.iter_steps()).__name__,
                                type(scenario.all_steps).__name__))
                    if use_inheritance is not None:
                        for rule in feature.rules:
                            rule.use_background_inheritance = use_inheritance
                    if use_background is not None:
                        for scenario in scenarios:
                            if scenario.name != "T0":
                                scenario.use_background = use_background
                    for container in [feature] + list(feature.rules):
                        background = container.background
                        if background is None:
                            emit("  %s: no background" % container.name)
                            continue
                        first = background.inherited_steps
                        emit("  %s: inherited=%r same=%s iter=%s all=%r "
                             "listiter=%r use=%s" % (
                                 container.name, [x.name for x in first],
                                 first is background.inherited_steps,
                                 type(background.iter_steps()).__name__,
                                 [x.name for x in background.all_steps],
                                 [x.name for x in background],
                                 background.use_inheritance))
                        originals = background.inherited_background and \
                            background.inherited_background.steps or []
                        emit("    copies distinct from originals: %s" % all(
                            a is not b for a in first for b in originals))
                    for scenario in scenarios:
                        first = scenario.background_steps
                        emit("  %s: bg=%r same=%s iter=%s steps=%r idents=%r" % (
                            scenario.name, [x.name for x in first],
                            first is scenario.background_steps,
                            type(scenario.iter_steps()).__name__,
                            [x.name for x in scenario],
                            [ident(x, pool) for x in scenario.all_steps]))
                    config = make_config(dry_run)
                    log = []
                    runner = ModelRunner(config, [feature],
                                         step_registry=make_registry())
                    runner.formatters = [RecordingFormatter(log, "F")]
                    runner.context = Context(runner)
                    del CALLS[:]
                    real_stdout = sys.stdout
                    sys.stdout = io.StringIO()
                    try:
                        failed = runner.run_model()
                    finally:
                        sys.stdout = real_stdout
                    emit("  failed=%s calls=%r" % (failed, CALLS))
                    for entry in log:
                        emit("  | " + entry)
                    describe_feature(feature)
                    # -- Switch again after the run: copies are re-created.
                    for scenario in scenarios:
                        before = scenario.background_steps
                        scenario.use_background = scenario.use_background
                        after = scenario.background_steps
                        emit("  %s: recreated=%s statuses=%r" % (
                            scenario.name,
                            (before is not after),
                            [x.status.name for x in scenario.all_steps]))
                    # -- Scenario constructed with explicit background_steps.
                    scenario = scenarios[-1]
                    clone = Scenario(u"x.feature", 1, u"Scenario", u"Clone",
                                     steps=list(scenario.steps),
                                     background=feature.background,
                                     background_steps=[])
                    emit("  clone: bg=%r steps=%r" % (
                        clone.background_steps, [x.name for x in clone]))


def case_set_matchers():
    """Matcher.match() / matches() for all matcher classes and for custom
    matchers whose check_match() misbehaves; find_match() through a run."""
    from behave.matchers import (Matcher, ParseMatcher, CFParseMatcher,
                                 RegexMatcher, SimplifiedRegexMatcher,
                                 CucumberRegexMatcher, Match, MatchWithError)
    from behave.model_core import Argument

    def func(context, *args, **kwargs):
        CALLS.append(("func", args, sorted(kwargs.items())))

    class NieMatcher(Matcher):
        def check_match(self, step_text):
            if "pendingnie" in step_text:
                raise StepNotImplementedError("check_match pending")
            if "nie" in step_text:
                raise NotImplementedError("check_match nie: %s" % step_text)
            if "valueerror" in step_text:
                raise ValueError("check_match value: %s" % step_text)
            if "keyerror" in step_text:
                raise KeyError(step_text)
            if "assertion" in step_text:
                raise AssertionError("check_match assertion")
            if "empty" in step_text:
                return []
            if "falsy" in step_text:
                return ()
            if "zero" in step_text:
                return 0
            if "args" in step_text:
                return [Argument(0, 4, step_text[:4], "VALUE", "name"),
                        Argument(5, 6, step_text[5:6], 7)]
            return None

        def compile(self):
            return self

    def describe_match(result):
        if result is None or isinstance(result, bool):
            return repr(result)
        text = type(result).__name__
        if isinstance(result, Match):
            args = result.arguments
            if args is not None:
                args = [(a.name, a.original, a.value, a.start, a.end)
                        for a in args]
            text += " func=%s args=%r" % (
                getattr(result.func, "__name__", None), args)
        if isinstance(result, MatchWithError):
            error = result.stored_error
            text += " error=%s:%s tb=%s" % (
                type(error).__name__, error,
                getattr(error, "__traceback__", None) is not None)
        return text

    matchers = [
        ParseMatcher(func, u"a {n:Num} b {name}"),
        ParseMatcher(func, u"a {n:Bad} b"),
        ParseMatcher(func, u"a {} b {:Num} c {word:w}"),
        ParseMatcher(func, u"plain text"),
        CFParseMatcher(func, u"a {n:Num+} b"),
        CFParseMatcher(func, u"a {n:Num?} b"),
        RegexMatcher(func, u"a (?P<n>\\d+) b (.*)"),
        RegexMatcher(func, u"plain text"),
        SimplifiedRegexMatcher(func, u"a (?P<n>\\d+) b"),
        CucumberRegexMatcher(func, u"^a (\\d+) b$"),
        NieMatcher(func, u"custom"),
        Matcher(func, u"base"),
    ]
    texts = [u"a 12 b Alice", u"a x b", u"a x b 3 c word", u"a x b y c word",
             u"plain text", u"a 1, 2, 3 b", u"a  b", u"a 12 b", u"a 12 b rest",
             u"", u"nie", u"pendingnie", u"valueerror", u"keyerror",
             u"assertion", u"empty", u"falsy", u"zero", u"args x", u"other"]
    emit("=" * 70)
    emit("MATCHERS")
    for matcher in matchers:
        emit(" %r" % matcher)
        for text in texts:
            for method in ("match", "matches"):
                try:
                    result = describe_match(getattr(matcher, method)(text))
                except BaseException as e:      # noqa
                    result = "RAISED %s: %s" % (type(e).__name__, e)
                emit("   %s(%r) -> %s" % (method, text, result))
            result = matcher.match(text) if not isinstance(
                matcher, (NieMatcher,)) and type(matcher) is not Matcher else None
            if isinstance(result, Match):
                del CALLS[:]
                try:
                    class FakeContext(object):
                        def use_with_user_mode(self):
                            import contextlib

                            @contextlib.contextmanager
                            def manager():
                                CALLS.append("enter user mode")
                                yield
                                CALLS.append("exit user mode")
                            return manager()
                    outcome = result.run(FakeContext())
                except BaseException as e:      # noqa
                    outcome = "RAISED %s: %s cause=%r" % (
                        type(e).__name__, normalize(str(e)),
                        getattr(e, "__cause__", None))
                emit("   run -> %r calls=%r" % (outcome, CALLS))

    # -- Through the runner: a custom matcher in the registry.
    for where in ("step", "given"):
        for outcome in ("nie", "pendingnie", "valueerror", "assertion",
                        "empty", "args x", "zero"):
            text = make_feature_text(
                "Custom", ["ok"], None,
                [("S1", ["ok", "ok", "custom-" + outcome, "ok", "undef"]),
                 ("S2", ["custom-" + outcome, "ok"])])
            text = text.replace(u"custom-%s s2" % outcome, outcome)
            text = text.replace(u"custom-%s s0" % outcome, outcome)
            for dry_run in (False, True):
                emit("=" * 70)
                emit("CUSTOM MATCHER where=%s outcome=%s dry_run=%s" % (
                    where, outcome, dry_run))
                feature = parse_feature(text, filename="custom.feature")
                registry = make_registry()
                registry.steps[where].insert(0, NieMatcher(func, u"custom"))
                config = make_config(dry_run)
                log = []
                runner = ModelRunner(config, [feature], step_registry=registry)
                runner.formatters = [RecordingFormatter(log, "F")]
                runner.hooks = make_hooks(log, "plain")
                runner.context = Context(runner)
                del CALLS[:]
                real_stdout = sys.stdout
                sys.stdout = io.StringIO()
                try:
                    try:
                        result = "failed=%s" % runner.run_model()
                    except BaseException as e:      # noqa
                        result = "RAISED %s: %s" % (type(e).__name__, e)
                finally:
                    sys.stdout = real_stdout
                emit("  %s calls=%r" % (result, CALLS))
                for entry in log:
                    emit("  | " + entry)
                describe_feature(feature)


def main(parts):
    if "matchers" in parts:
        case_set_matchers()
    if "toggles" in parts:
        case_set_toggles()
    if "direct" in parts:
        case_set_direct()
    if "sequences" in parts:
        case_set_sequences()
    if "backgrounds" in parts:
        case_set_backgrounds()
    if "hooks" in parts:
        case_set_hooks_and_modes()
    out = u"\n".join(OUT) + u"\n"
    sys.stdout.write(out)


if __name__ == "__main__":
    main(sys.argv[1:] or ["sequences", "backgrounds", "hooks", "direct", "toggles", "matchers"])
