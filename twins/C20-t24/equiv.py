# -*- coding: UTF-8 -*-
"""
Equivalence transcript for property C20 (configuration precedence, userdata).
Self-contained: prints a canonical transcript of what was observed.
"""
from __future__ import absolute_import, print_function
import sys
sys.path.insert(0, "/tmp/wtX/C20")

import contextlib
import io
import itertools
import os
import shutil
import tempfile

ROOT = os.path.realpath(tempfile.mkdtemp(prefix="c20eq_"))
HOME = os.path.join(ROOT, "home")
os.makedirs(HOME)
os.environ["HOME"] = HOME
os.environ.pop("BEHAVE_STAGE", None)
os.environ.pop("BEHAVE_COLOR", None)
os.environ.pop("APPDATA", None)

from six.moves import configparser                      # noqa: E402
import behave.configuration as cfgmod                   # noqa: E402
from behave.configuration import (                       # noqa: E402
    Configuration, configfile_options_iter, format_outfiles_coupling,
    read_configparser, read_toml_config, read_configuration,
    load_configuration, config_filenames, setup_parser,
    setup_config_file_parser, OPTIONS,
)
from behave import userdata as udmod                    # noqa: E402
from behave.userdata import (                            # noqa: E402
    UserData, UserDataNamespace, parse_user_define, parse_bool, unqote,
)
from behave.model import ScenarioOutline                # noqa: E402

assert cfgmod.__file__.startswith("/tmp/wtX/C20/"), cfgmod.__file__

OUT = []


def emit(text):
    OUT.append(text.replace(ROOT, "<ROOT>"))


def canon(value):
    """Canonical, address-free description of a value."""
    if isinstance(value, UserData):
        return "UserData(%s)" % canon(dict(value))
    if isinstance(value, dict):
        return "%s{%s}" % (
            "" if type(value) is dict else type(value).__name__,
            ", ".join("%s: %s" % (canon(k), canon(v))
                      for k, v in sorted(value.items(), key=lambda kv: repr(kv[0]))))
    if isinstance(value, list):
        return "[%s]" % ", ".join(canon(v) for v in value)
    if isinstance(value, tuple):
        return "%s(%s)" % (type(value).__name__ if type(value) is not tuple else "",
                           ", ".join(canon(v) for v in value))
    if isinstance(value, (set, frozenset)):
        return "%s{%s}" % (type(value).__name__,
                           ", ".join(sorted(canon(v) for v in value)))
    if hasattr(value, "pattern") and hasattr(value, "flags"):
        return "re(%r, %d)" % (value.pattern, value.flags)
    if isinstance(value, cfgmod.StreamOpener):
        return "StreamOpener(name=%r, stdout=%s, close=%s)" % (
            value.name, value.stream is not None, value.should_close_stream)
    if isinstance(value, (str, bytes, int, float, bool, type(None))):
        return repr(value)
    if isinstance(value, type) or callable(value) and hasattr(value, "__name__"):
        return "<callable %s>" % getattr(value, "__name__", "?")
    text = repr(value)
    if " at 0x" in text:
        text = "<%s: %s>" % (type(value).__name__, str(value) if type(value).__str__
                             is not object.__str__ else "obj")
    return text


@contextlib.contextmanager
def captured():
    old_out, old_err = sys.stdout, sys.stderr
    out, err = io.StringIO(), io.StringIO()
    sys.stdout, sys.stderr = out, err
    box = {}
    try:
        yield box
    finally:
        sys.stdout, sys.stderr = old_out, old_err
        box["out"] = out.getvalue()
        box["err"] = err.getvalue()


def observe(label, func, *args, **kwargs):
    """Call func and emit result / exception / captured output."""
    with captured() as box:
        try:
            result = func(*args, **kwargs)
            outcome = "-> %s" % canon(result)
        except SystemExit as e:
            outcome = "!! SystemExit(%r)" % (e.code,)
        except BaseException as e:  # noqa
            outcome = "!! %s: %s" % (type(e).__name__, e)
    emit("%s %s" % (label, outcome))
    for stream_name in ("out", "err"):
        if box[stream_name]:
            for line in box[stream_name].splitlines():
                emit("    %s| %s" % (stream_name, line))


@contextlib.contextmanager
def scratch(files, cwd="."):
    """Create a fresh scratch tree below ROOT/work, chdir into cwd."""
    work = os.path.join(ROOT, "work")
    if os.path.isdir(work):
        shutil.rmtree(work)
    os.makedirs(work)
    for name, content in files.items():
        path = os.path.join(work, name)
        dirname = os.path.dirname(path)
        if not os.path.isdir(dirname):
            os.makedirs(dirname)
        with open(path, "w") as f:
            f.write(content)
    here = os.path.join(work, cwd)
    if not os.path.isdir(here):
        os.makedirs(here)
    old = os.getcwd()
    os.chdir(here)
    try:
        yield work
    finally:
        os.chdir(old)


def describe_config(config):
    data = dict(vars(config))
    data["reporters"] = [type(r).__name__ for r in data.get("reporters", [])]
    data["tag_expression"] = "%s|%s" % (type(config.tag_expression).__name__,
                                        config.tag_expression)
    data["userdata.type"] = type(config.userdata).__name__
    data["annotation_schema"] = ScenarioOutline.annotation_schema
    return data


def build_config(args, **kwargs):
    ScenarioOutline.annotation_schema = u"{name} -- @{row.id} {examples.name}"
    config = Configuration(args, **kwargs)
    return describe_config(config)


# ---------------------------------------------------------------------------
# SECTION 1: schema iteration (configfile_options_iter, parsers)
# ---------------------------------------------------------------------------
def section_schema():
    emit("== SECTION schema")
    observe("options_iter(None)", lambda: list(configfile_options_iter(None)))
    observe("options_iter({})", lambda: list(configfile_options_iter({})))
    observe("options_iter(no-behave)",
            lambda: list(configfile_options_iter({"other": {"color": 1}})))
    observe("options_iter(empty-behave)",
            lambda: list(configfile_options_iter({"behave": {}})))
    full = {"behave": dict.fromkeys(
        ["color", "no_color", "dry_run", "userdata_defines", "format", "tags",
         "version", "lang_list", "lang_help", "tags_help", "paths", "outfiles",
         "default_format", "show_skipped", "no_skipped", "stop", "junit",
         "jobs", "logging_level", "stage", "unknown_thing", "wip", "quiet",
         "tag_expression_protocol", "summary", "capture", "stdout_capture",
         "runner", "name", "include_re", "exclude_re", "lang"], "x")}
    observe("options_iter(full)", lambda: list(configfile_options_iter(full)))
    observe("options_iter(behave=list)",
            lambda: list(configfile_options_iter({"behave": ["color", "jobs"]})))
    observe("options_iter(behave=None)",
            lambda: list(configfile_options_iter({"behave": None})))
    observe("options_iter(behave=str)",
            lambda: list(configfile_options_iter({"behave": "stage color"})))
    observe("options_iter(int-config)",
            lambda: list(configfile_options_iter(5)))

    parser = configparser.ConfigParser()
    parser.optionxform = str
    parser.read_string(u"[behave]\ncolor = on\nStage = x\njobs=3\n[other]\nstop=1\n")
    observe("options_iter(ConfigParser)",
            lambda: list(configfile_options_iter(parser)))
    parser2 = configparser.ConfigParser()
    parser2.read_string(u"[other]\nstop=1\n")
    observe("options_iter(ConfigParser-no-behave)",
            lambda: list(configfile_options_iter(parser2)))

    # -- LAZINESS: a generator; nothing is evaluated before the first next().
    class Probe(dict):
        log = []

        def __getitem__(self, key):
            Probe.log.append("getitem:%s" % key)
            return dict.__getitem__(self, key)

        def __bool__(self):
            Probe.log.append("bool")
            return True
        __nonzero__ = __bool__

    probe = Probe(behave={"stage": 1, "jobs": 2})
    gen = configfile_options_iter(probe)
    emit("lazy.before-next %r" % Probe.log)
    first = next(gen)
    emit("lazy.first %s log=%r" % (canon(first), Probe.log))
    rest = list(gen)
    emit("lazy.rest %s n-log=%d" % (canon(rest), len(Probe.log)))
    emit("lazy.log-set %r" % sorted(set(Probe.log)))
    emit("lazy.log-head %r" % Probe.log[:12])

    # -- OPTION objects are namedtuples with fields
    item = next(configfile_options_iter(None))
    emit("item.type %s fields=%r" % (type(item).__name__, item._fields))

    # -- Parsers built from the same table
    p = setup_parser()
    dests = sorted(set(a.dest for a in p._actions))
    emit("setup_parser.dests %r" % dests)
    emit("setup_parser.n_actions %d" % len(p._actions))
    emit("setup_parser.defaults %s" % canon(
        dict((a.dest, a.default) for a in p._actions if a.dest != "help")))
    os.environ["COLUMNS"] = "100"
    for line in p.format_help().splitlines():
        emit("    help| %s" % line)
    for action in p._actions:
        emit("    action| %s %r nargs=%r const=%r default=%r type=%s choices=%r "
             "required=%r metavar=%r" % (
                 type(action).__name__, action.option_strings, action.nargs,
                 action.const, action.default, canon(action.type),
                 action.choices, action.required, action.metavar))
    observe("setup_config_file_parser",
            lambda: [a.dest for a in setup_config_file_parser()._actions])
    emit("OPTIONS.config_help-kept %d" % sum(
        1 for _, kw in OPTIONS if "config_help" in kw))


# ---------------------------------------------------------------------------
# SECTION 2: format/outfiles coupling and path resolution
# ---------------------------------------------------------------------------
def section_coupling():
    emit("== SECTION coupling")
    cases = [
        {},
        {"format": []},
        {"format": ["plain"]},
        {"format": ["plain", "json", "pretty"]},
        {"format": ["plain"], "outfiles": []},
        {"format": ["plain", "json"], "outfiles": ["a.txt"]},
        {"format": ["plain", "json"], "outfiles": ["a.txt", "b.txt"]},
        {"format": ["plain"], "outfiles": ["a.txt", "b.txt", "c.txt"]},
        {"format": [], "outfiles": ["a.txt"]},
        {"outfiles": ["a.txt", "/abs/b.txt", "../c.txt", "-", ""]},
        {"paths": ["features", "/abs/feat", "../up", ".", "x/../y", ""]},
        {"paths": [], "outfiles": []},
        {"format": ["plain", "json"], "paths": ["f1"], "outfiles": ["/o/1"]},
        {"format": ["a", 1, 2.5, None, ["n"], {"k": 1}]},
        {"format": "plain"},
        {"format": "ab", "outfiles": ["x"]},
        {"format": ("p", "q"), "outfiles": ["x"]},
        {"format": ["p", "q"], "outfiles": ("x",)},
        {"format": ["p"], "outfiles": ("x", "y")},
        {"format": None},
        {"format": ["a", ("x", "y"), "c"], "outfiles": []},
        {"format": ["a", "b", ("x", "y"), "c"], "outfiles": ["o"]},
        {"format": ["a", ("x",), ()], "outfiles": []},
        {"format": {"k": 1}},
        {"format": {"k": 1}, "outfiles": ["o1", "o2"]},
        {"format": ["a", "b"], "outfiles": {"o": 1}},
        {"format": ["p"], "outfiles": None},
        {"format": ["p"], "outfiles": "xyz"},
        {"paths": "ab"},
        {"paths": [1]},
        {"paths": None},
        {"format": 5},
        {"other": ["format"], "color": "on"},
    ]
    for config_dir in ("", "conf", "/etc/behave", "../rel/dir", "."):
        for index, case in enumerate(cases):
            data = dict((k, (list(v) if isinstance(v, list) else v))
                        for k, v in case.items())
            originals = dict((k, v) for k, v in data.items())

            def call(data=data, config_dir=config_dir):
                result = format_outfiles_coupling(data, config_dir)
                return result
            observe("coupling[%r #%d] %s" % (config_dir, index, canon(case)), call)
            emit("    after: %s" % canon(data))
            emit("    originals-mutated: %s" % canon(originals))
            emit("    same-objects: %s" % canon(
                dict((k, data.get(k) is v) for k, v in originals.items())))
            emit("    keys-order: %r" % list(data.keys()))


# ---------------------------------------------------------------------------
# SECTION 3: reading config files
# ---------------------------------------------------------------------------
INI_FILES = {
    "empty": "",
    "nosection": "[other]\nx = 1\n",
    "basic": "[behave]\ncolor = off\njobs = 4\nstage = prod\nstop = true\n"
             "show_skipped = false\njunit = yes\nlang = de\n",
    "lists": "[behave]\nformat = plain\n    json\n  pretty  \n"
             "outfiles = one.txt\n   /abs/two.txt\n"
             "paths = features\n    ../other\n    /abs/feat\n"
             "tags = @a\n   not @b\n"
             "name = Alice\n   Bob\n",
    "toomany": "[behave]\nformat = plain\noutfiles = a\n  b\n  c\n",
    "fewer": "[behave]\nformat = plain\n  json\n  progress\noutfiles = a\n",
    "outonly": "[behave]\noutfiles = sub/a.out\n",
    "raw": "[behave]\nlogging_format = %(name)s::%(message)s\n"
           "logging_datefmt = %H:%M\nlogging_level = debug\n",
    "interp": "[behave]\nlang = %(stage)s_x\nstage = s1\n",
    "badinterp": "[behave]\nlang = %(nothere)s\n",
    "badbool": "[behave]\nstop = maybe\n",
    "badlevel": "[behave]\nlogging_level = loud\n",
    "badjobs": "[behave]\njobs = -3\n",
    "badjobs2": "[behave]\njobs = many\n",
    "sections": "[behave]\ncolor = on\n[behave.userdata]\nfoo = bar\nNum = 12\n"
                "flag = yes\n[behave.formatters]\nmine = pkg.mod:Cls\n"
                "[behave.runners]\nfast = pkg.run:Fast\n",
    "udonly": "[behave.userdata]\na = 1\nb = two words \n",
    "negated": "[behave]\nno_color = true\nno_skipped = true\nno_capture=true\n"
               "userdata_defines = a=b\nversion = true\nunknown = 3\n",
    "capture": "[behave]\ncapture = false\nstdout_capture = no\n"
               "stderr_capture = off\nlog_capture = 0\nshow_source = no\n"
               "show_timings = no\nsummary = no\nshow_snippets = no\n"
               "show_multiline = no\n",
    "tep": "[behave]\ntag_expression_protocol = strict\ntags = @x and @y\n",
    "tep_bad": "[behave]\ntag_expression_protocol = nope\n",
    "misc": "[behave]\ndefault_format = progress\ndefault_tags = not @xfail\n"
            "scenario_outline_annotation_schema = {name} :: {row.id}\n"
            "runner = my.mod:Runner\ndry_run = true\nwip = false\nquiet = true\n"
            "include_re = .*inc.*\nexclude_re = .*exc.*\nsteps_catalog = false\n",
    "case": "[behave]\nColor = off\nJOBS = 2\nstage = Mixed\n",
}

TOML_FILES = {
    "empty": "",
    "notool": "[project]\nname = 'x'\n",
    "nobehave": "[tool.other]\nx = 1\n",
    "basic": "[tool.behave]\ncolor = 'off'\njobs = 4\nstage = 'prod'\nstop = true\n"
             "show_skipped = false\njunit = true\n",
    "lists": "[tool.behave]\nformat = ['plain', 'json', ' pretty ']\n"
             "outfiles = ['one.txt', '/abs/two.txt']\n"
             "paths = ['features', '../other', '/abs/feat']\n"
             "tags = ['@a', 'not @b']\nname = ['Alice', 'Bob']\n",
    "toomany": "[tool.behave]\nformat = ['plain']\noutfiles = ['a', 'b', 'c']\n",
    "fewer": "[tool.behave]\nformat = ['plain', 'json', 'progress']\noutfiles = ['a']\n",
    "badlist": "[tool.behave]\nformat = 'plain'\n",
    "badlist2": "[tool.behave]\ntags = 3\n",
    "badlist3": "[tool.behave]\npaths = {a = 1}\n",
    "intformat": "[tool.behave]\nformat = [1, 2]\n",
    "types": "[tool.behave]\njobs = '7'\nstop = 0\njunit = 'no'\nstage = 3\n"
             "logging_level = 'debug'\n",
    "sections": "[tool.behave]\ncolor = 'on'\n[tool.behave.userdata]\nfoo = 'bar'\n"
                "Num = 12\nflt = 1.5\nflag = true\nnested = {a = 1}\n"
                "[tool.behave.formatters]\nmine = 'pkg.mod:Cls'\n"
                "[tool.behave.runners]\nfast = 'pkg.run:Fast'\n",
    "udonly": "[tool.behave.userdata]\na = 1\n",
    "negated": "[tool.behave]\nno_color = true\nno_skipped = true\n"
               "userdata_defines = ['a=b']\nversion = true\nunknown = 3\n",
    "syntax": "[tool.behave\n",
    "toolscalar": "tool = 3\n",
    "behavescalar": "[tool]\nbehave = 3\n",
}


def section_readers():
    emit("== SECTION readers")
    for name, content in sorted(INI_FILES.items()):
        for relpath in ("behave.ini", "sub/dir/behave.ini"):
            with scratch({relpath: content}) as work:
                observe("read_configparser[%s @%s rel]" % (name, relpath),
                        read_configparser, relpath)
                if relpath != "behave.ini":
                    observe("read_configparser[%s @%s abs]" % (name, relpath),
                            read_configparser, os.path.join(work, relpath))
    with scratch({}):
        observe("read_configparser[missing]", read_configparser, "nofile.ini")
        observe("read_toml_config[missing]", read_toml_config, "nofile.toml")
    for name, content in sorted(TOML_FILES.items()):
        for relpath in ("pyproject.toml", "deep/er/pyproject.toml"):
            with scratch({relpath: content}) as work:
                observe("read_toml_config[%s @%s rel]" % (name, relpath),
                        read_toml_config, relpath)
                if relpath != "pyproject.toml":
                    observe("read_toml_config[%s @%s abs]" % (name, relpath),
                            read_toml_config, os.path.join(work, relpath))

    # -- read_configuration: dispatch on the extension
    with scratch({"a.ini": INI_FILES["basic"], "b.cfg": INI_FILES["lists"],
                  ".behaverc": INI_FILES["sections"], "noext": INI_FILES["basic"],
                  "c.toml": TOML_FILES["basic"], "d.txt": INI_FILES["basic"],
                  "x.y/behave": INI_FILES["basic"],
                  "dir.ini/pyproject.toml": TOML_FILES["lists"],
                  "e.INI": INI_FILES["basic"], "f.ini.bak": INI_FILES["basic"],
                  "g.": INI_FILES["basic"]}):
        for path in ("a.ini", "b.cfg", ".behaverc", "noext", "c.toml", "d.txt",
                     "x.y/behave", "dir.ini/pyproject.toml", "e.INI",
                     "f.ini.bak", "g.", "./a.ini", "", "ini", "toml", "missing.ini"):
            for verbose in (False, True):
                observe("read_configuration[%r verbose=%s]" % (path, verbose),
                        read_configuration, path, verbose)
        observe("read_configuration[default-verbose]", read_configuration, "d.txt")

    # -- config_filenames / load_configuration: order of precedence among files
    files = {
        "behave.ini": "[behave]\nstage = from_behave_ini\njobs = 1\n"
                      "[behave.userdata]\nsrc = behave.ini\nonly_ini = 1\n",
        ".behaverc": "[behave]\nstage = from_behaverc\nlang = rc\njobs = 2\n",
        "setup.cfg": "[behave]\nstage = from_setup_cfg\nlang = cfg\ncolor = off\njobs = 3\n",
        "tox.ini": "[behave]\nstage = from_tox\nlang = tox\ncolor = on\nstop = true\njobs = 4\n",
        "pyproject.toml": "[tool.behave]\nstage = 'from_toml'\nlang = 'toml'\n"
                          "color = 'never'\nstop = false\njunit = true\njobs = 5\n"
                          "[tool.behave.userdata]\nsrc = 'toml'\nonly_toml = 2\n",
    }
    names = sorted(files)
    for size in range(len(names) + 1):
        for subset in itertools.combinations(names, size):
            with scratch(dict((n, files[n]) for n in subset)):
                observe("config_filenames%r" % (subset,),
                        lambda: list(config_filenames()))
                defaults = {"stage": "DEFAULT", "extra": 1}

                def load(defaults=defaults):
                    load_configuration(defaults)
                    return defaults
                observe("load_configuration%r" % (subset,), load)
    with scratch(files):
        with open(os.path.join(HOME, "behave.ini"), "w") as f:
            f.write("[behave]\nstage = from_home\nname = homename\n")
        try:
            defaults = {}

            def load_verbose():
                load_configuration(defaults, verbose=True)
                return defaults
            observe("load_configuration[home+all verbose]", load_verbose)
            observe("config_filenames[home+all]", lambda: list(config_filenames()))
        finally:
            os.remove(os.path.join(HOME, "behave.ini"))


# ---------------------------------------------------------------------------
# SECTION 4: Configuration(command_args) with config files x command line
# ---------------------------------------------------------------------------
CONFIG_INIS = [
    ("none", None),
    ("empty", "[behave]\n"),
    ("bools_on", "[behave]\nstop = true\njunit = true\ndry_run = true\n"
                 "show_skipped = true\nsummary = true\ncapture = true\n"
                 "stdout_capture = true\nshow_timings = true\n"),
    ("bools_off", "[behave]\nstop = false\njunit = false\ndry_run = false\n"
                  "show_skipped = false\nsummary = false\ncapture = false\n"
                  "stdout_capture = false\nshow_timings = false\nshow_source = false\n"
                  "show_snippets = false\nlog_capture = false\nstderr_capture = false\n"),
    ("scalars", "[behave]\ncolor = off\njobs = 4\nstage = filestage\nlang = fr\n"
                "logging_level = error\nrunner = file.mod:Runner\n"
                "default_format = progress\ndefault_tags = @dflt\n"
                "tag_expression_protocol = strict\n"
                "logging_format = %(message)s\n"),
    ("lists", "[behave]\nformat = plain\n    json\noutfiles = cfg1.out\n"
              "paths = cfgfeatures\n   other/feat\ntags = @cfg1\n  @cfg2\n"
              "name = n1\n  n2\n"),
    ("userdata", "[behave]\nstage = u\n[behave.userdata]\nfoo = filefoo\n"
                 "bar = filebar\nnum = 42\n[behave.formatters]\n"
                 "c20fmt = behave.formatter.plain:PlainFormatter\n"
                 "[behave.runners]\nquick = behave.runner:Runner\n"),
    ("wipquiet", "[behave]\nwip = true\nquiet = true\ntags = @t\n"),
    ("catalog", "[behave]\nsteps_catalog = true\nformat = plain\n"),
    ("badformat", "[behave]\nformat = nosuchformat\n   plain\n"),
    ("filters", "[behave]\ninclude_re = inc.*\nexclude_re = exc.*\nname = Foo\n"
                "scenario_outline_annotation_schema =   {name} <{row.id}>  \n"),
]

COMMAND_LINES = [
    [],
    ["--stop"],
    ["--no-skipped", "--no-summary", "--no-capture", "--no-timings"],
    ["--show-skipped", "--summary", "--capture", "--show-timings"],
    ["--junit", "--dry-run", "--no-source", "--no-snippets", "--no-color"],
    ["--color", "always", "--jobs", "2", "--stage", "clistage", "--lang", "de",
     "--logging-level", "debug", "--runner", "cli.mod:Runner"],
    ["--color"],
    ["-f", "progress", "-o", "cli.out", "-f", "plain"],
    ["-o", "only.out"],
    ["-o", "-", "-f", "json"],
    ["--tags", "@cli1", "--tags", "not @cli2", "--name", "cliname"],
    ["--tags", "{config.tags} and @x"],
    ["clifeatures/", "other/../x.feature:3"],
    ["-D", "foo=clifoo", "-D", "flag", "-D", " pad = 'q' ", "--define", '"n=v"'],
    ["-w"],
    ["-q", "-v"],
    ["--steps-catalog"],
    ["-f", "nosuchfmt2"],
    ["-f", "help"],
    ["-i", "cliinc", "-e", "cliexc"],
    ["--no-junit", "--no-logcapture", "--no-capture-stderr", "--no-capture-stdout"],
    ["--bogus-option"],
    ["--jobs", "-1"],
    ["--logging-level", "loud"],
]


def section_configuration():
    emit("== SECTION configuration")
    depth_layouts = [("behave.ini", "."), ]
    for ini_name, ini_text in CONFIG_INIS:
        for args in COMMAND_LINES:
            files = {}
            if ini_text is not None:
                files["behave.ini"] = ini_text
            files["clifeatures/.keep"] = ""
            with scratch(files):
                observe("Configuration[ini=%s args=%r]" % (ini_name, args),
                        build_config, list(args))

    # -- other config file names / directories (setup.cfg, tox.ini, toml, HOME)
    other_layouts = [
        ("setup.cfg", "[behave]\nformat = plain\npaths = feat\nstage = s\n"),
        ("tox.ini", "[behave]\nformat = json\n  plain\noutfiles = j.out\nstop = yes\n"),
        (".behaverc", "[behave]\ntags = @rc\njobs = 3\n[behave.userdata]\nk = rc\n"),
        ("pyproject.toml", "[tool.behave]\nformat = ['plain', 'json']\n"
                           "outfiles = ['t.out']\npaths = ['tf', '/abs/tf']\n"
                           "stop = true\njobs = 6\ntags = ['@tm']\n"
                           "[tool.behave.userdata]\nk = 'toml'\nn = 5\n"),
    ]
    for fname, text in other_layouts:
        for args in ([], ["--no-stop"] if False else ["--stop"], ["-f", "progress"],
                     ["-D", "k=cli", "-D", "extra"], ["--jobs", "9", "x.feature"]):
            with scratch({fname: text}):
                observe("Configuration[file=%s args=%r]" % (fname, args),
                        build_config, list(args))
    # -- config file in HOME, run from a nested directory
    with open(os.path.join(HOME, "behave.ini"), "w") as f:
        f.write("[behave]\nformat = plain\noutfiles = home.out\npaths = homefeat\n"
                "stage = home\n[behave.userdata]\nwho = home\nk = home\n")
    try:
        for args in ([], ["-o", "cli.out"], ["-D", "who=cli"]):
            with scratch({"a/b/behave.ini": "[behave]\nstage = nested\n"
                                            "[behave.userdata]\nk = nested\n"},
                         cwd="a/b"):
                observe("Configuration[home+nested args=%r]" % (args,),
                        build_config, list(args))
            with scratch({}, cwd="a"):
                observe("Configuration[home-only args=%r]" % (args,),
                        build_config, list(args))
    finally:
        os.remove(os.path.join(HOME, "behave.ini"))

    # -- command_args variants, kwargs defaults, load_config=False
    with scratch({"behave.ini": "[behave]\nstage = f\njobs = 2\n"
                                "[behave.userdata]\nfoo = file\n"}):
        observe("Configuration[str-args]", build_config,
                "--stop -D foo=bar 'my features/'")
        observe("Configuration[empty-str]", build_config, "")
        observe("Configuration[tuple-args]", build_config, ("--stop", "x"))
        observe("Configuration[bytes-args]", build_config, b"--stop")
        observe("Configuration[kwargs]", build_config, [], stage="kw", jobs=7,
                newthing="n", userdata={"foo": "kw", "zed": 1})
        observe("Configuration[no-load]", build_config, ["--jobs", "3"],
                load_config=False)
        observe("Configuration[no-load kwargs]", build_config, [],
                load_config=False, stage="kw2", stop=True,
                userdata=UserData(a="1"))
        observe("Configuration[verbose=True]", build_config, [], verbose=True)
        observe("Configuration[verbose=False -v]", build_config, ["-v"],
                verbose=False)
        observe("Configuration[color path]", build_config,
                ["--color", "behave.ini"])
        observe("Configuration[color last]", build_config, ["x", "--color"])
        observe("Configuration.defaults(class) untouched",
                lambda: dict(Configuration.defaults))
        observe("make_defaults()", Configuration.make_defaults)
        observe("make_defaults(kw)", lambda: Configuration.make_defaults(
            stage="x", brand_new=[1], userdata=None))
        observe("make_defaults is-copy", lambda: (
            Configuration.make_defaults() is not Configuration.defaults,
            Configuration.make_defaults()["userdata"]
            is Configuration.defaults["userdata"]))

        class SubConfiguration(Configuration):
            defaults = dict(Configuration.defaults, stage="substage", jobs=11)
        observe("SubConfiguration.make_defaults", SubConfiguration.make_defaults,
                jobs=12)

        # -- update_userdata / setup_userdata / setup_outputs re-entry
        def userdata_flow():
            config = Configuration(["-D", "foo=cli", "-D", "x=1"])
            log = [canon(config.userdata), canon(config.userdata_defines)]
            first = config.userdata
            config.update_userdata({"foo": "late", "more": "m", "x": "2"})
            log.append(canon(config.userdata))
            log.append(config.userdata is first)
            config.userdata = {"plain": "dict", "foo": "again"}
            config.setup_userdata()
            log.append(canon(config.userdata))
            config.userdata_defines = None
            config.update_userdata([("foo", "pairs")])
            log.append(canon(config.userdata))
            config.userdata_defines = []
            same = config.userdata
            config.setup_userdata()
            log.append(config.userdata is same)
            config.userdata_defines = {"foo": "dictdefine"}
            config.update_userdata({})
            log.append(canon(config.userdata))
            return log
        observe("userdata_flow", userdata_flow)

        def outputs_flow():
            config = Configuration([])
            log = [canon(config.outputs)]
            config.setup_outputs()
            log.append(canon(config.outputs))
            try:
                config.setup_outputs(["again"])
            except AssertionError as e:
                log.append("AssertionError: %s" % e)
            config.outputs = []
            config.setup_outputs(["a", "", "-", None, "b/c.txt"])
            log.append(canon(config.outputs))
            config.outputs = []
            config.setup_outputs(())
            log.append(canon(config.outputs))
            config.outputs = []
            config.setup_outputs(iter(["g1", "-"]))
            log.append(canon(config.outputs))
            return log
        observe("outputs_flow", outputs_flow)


# ---------------------------------------------------------------------------
# SECTION 5: userdata
# ---------------------------------------------------------------------------
def section_userdata():
    emit("== SECTION userdata")
    names = ["name", "a.b", "", " n ", "N"]
    seps = ["=", " = ", "= ", " =", "==", ""]
    values = ["value", "", "'q'", '"dq"', "'", '"', "a=b", " sp ", "'mixed\"",
              "''", "x'y", "=", "'a=b'", "\t"]
    wrappers = ["%s", " %s ", "'%s'", '"%s"', " '%s' ", "'%s\"", "\"%s", "%s'"]
    for wrapper in wrappers:
        for name in names:
            for sep in seps:
                for value in values:
                    text = wrapper % (name + sep + value)
                    observe("parse_user_define(%r)" % text, parse_user_define, text)
    for text in ["", " ", "=", "'='", "''", "'", '"', "'\"", "\"'", "a", "'a'",
                 "'a", "==", "\"=\"", "\"\"=\"\"", u"\xfc=\xe4", "a\nb=c\nd",
                 None, 5, b"a=b", ["a=b"]]:
        observe("parse_user_define(%r)" % (text,), parse_user_define, text)
        observe("unqote(%r)" % (text,), unqote, text)
    for text in ["''", "'x'", '"x"', "'x\"", "x", "'", "\"\"\"", "'''", " 'x' ",
                 "'a'b'", "\"a'", "x'", "'x", u"'\xfc'"]:
        observe("unqote(%r)" % (text,), unqote, text)

    bool_texts = ["true", "True", "TRUE", " yes ", "on", "1", "false", "No", "OFF",
                  "0", "", "2", "maybe", "y", "n", "t", "tru e", "\tON\n", "1.0",
                  "00", u"\xfc", "yes!", "none"]
    for text in bool_texts:
        observe("parse_bool(%r)" % text, parse_bool, text)
    for text in [None, 1, True, b"yes", ["yes"]]:
        observe("parse_bool(%r)" % (text,), parse_bool, text)

    data = UserData({
        "int": "12", "neg": "-3", "flt": "1.5", "exp": "1e3", "yes": "yes",
        "off": "OFF", "empty": "", "word": "hello", "space": " 7 ", "i": 42,
        "f": 2.5, "b": True, "bf": False, "none": None, "list": [1], "hex": "0x10",
        "inf": "inf", "one": "1", "zero": "0", "long": "1" * 30,
    })
    getters = ["getint", "getfloat", "getbool"]
    keys = sorted(data.keys()) + ["missing", "", None, 5]
    for getter in getters:
        for key in keys:
            observe("UserData.%s(%r)" % (getter, key), getattr(data, getter), key)
            observe("UserData.%s(%r, default)" % (getter, key),
                    getattr(data, getter), key, "DEFAULT")
            observe("UserData.%s(%r, default=None)" % (getter, key),
                    getattr(data, getter), key, default=None)
    converters = [("int", int, None), ("float", float, None), ("str", str, None),
                  ("bool", parse_bool, bool), ("upper", lambda s: s.upper(), str),
                  ("len", len, int), ("list", list, list),
                  ("tupletype", int, (int, float)), ("none-conv", None, int),
                  ("noncallable", 5, int), ("notype", len, None)]
    for cname, conv, vtype in converters:
        for key in keys[:-2]:
            observe("UserData.getas(%s, %r)" % (cname, key),
                    data.getas, conv, key, valuetype=vtype)
            observe("UserData.getas(%s, %r, 'D')" % (cname, key),
                    data.getas, conv, key, "D", vtype)
    from behave._types import Unknown
    data2 = UserData(u=Unknown, s="x")
    observe("UserData.getas(Unknown stored)", data2.getas, str, "u", "dflt")
    observe("UserData.getint(Unknown stored)", data2.getint, "u")
    observe("UserData.make(None)", UserData.make, None)
    observe("UserData.make(dict)", UserData.make, {"a": 1})
    observe("UserData.make(pairs)", UserData.make, [("a", 1)])
    same = UserData(a=1)
    observe("UserData.make(same) is same", lambda: UserData.make(same) is same)
    observe("UserData.make(bad)", UserData.make, 5)

    ns = UserDataNamespace("my.config", {"my.config.n": "3", "my.config.b": "on",
                                         "my.configx": "1", "other": "2",
                                         "my.config.f": "0.5"})
    observe("ns.getint", ns.getint, "n")
    observe("ns.getint missing", ns.getint, "zz", 9)
    observe("ns.getbool", ns.getbool, "b")
    observe("ns.getfloat", ns.getfloat, "f")
    observe("ns.getfloat bad", ns.getfloat, "b")
    observe("ns.getas", ns.getas, parse_bool, "b", valuetype=bool)
    observe("ns.get", ns.get, "n")
    observe("ns.keys", lambda: sorted(ns.keys()))
    observe("ns.items", lambda: sorted(ns.items()))
    observe("ns.values", lambda: sorted(ns.values()))
    observe("ns.len", len, ns)
    observe("ns.contains", lambda: ("n" in ns, "other" in ns))
    ns0 = UserDataNamespace("", {"a": "1"})
    observe("ns0.getint", ns0.getint, "a")
    observe("ns0.len", len, ns0)


def main(sections):
    old_cwd = os.getcwd()
    try:
        for section in sections:
            section()
    finally:
        os.chdir(old_cwd)
        shutil.rmtree(ROOT, ignore_errors=True)
    sys.stdout.write("\n".join(OUT) + "\n")


ALL_SECTIONS = [section_schema, section_coupling, section_readers,
                section_configuration, section_userdata]

if __name__ == "__main__":
    main(ALL_SECTIONS)
