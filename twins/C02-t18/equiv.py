# -*- coding: UTF-8 -*-
"""Equivalence transcript for C02-t18 (Step.run: exception ladder, error text helper).

Runs generated features in-process through behave's ModelRunner with a private
StepRegistry, a recording formatter and recording hooks, and prints a canonical
transcript: call log of step functions, formatter/hook protocol, step statuses,
scenario/feature statuses, undefined steps, context.failed.
"""
from __future__ import print_function
import sys
sys.path.insert(0, "/tmp/wtW/C02")

import itertools
import random
import re

from behave.configuration import Configuration
from behave.formatter.base import Formatter
from behave.model_core import Status
from behave.parser import parse_feature
from behave.runner import ModelRunner
from behave.step_registry import StepRegistry
from behave.exception import StepNotImplementedError, PendingStepError
from behave import matchers

OUTCOMES = ("pass", "fail", "fail0", "failu", "fail2", "exc", "pend", "pend0",
            "pend2", "undef", "skip", "kbd", "conv")
CALLS = []


def norm(text):
    """Normalize volatile parts of error messages (paths, line numbers)."""
    if text is None:
        return None
    text = re.sub(r'File "[^"]*[\\/]([^"\\/]+)", line \d+', r'File "\1", line N', text)
    text = re.sub(r"0x[0-9a-fA-F]+", "0xX", text)
    return text


def make_registry():
    registry = StepRegistry()

    def bad_number(text):
        raise ValueError("bad number: %s" % text)
    matchers.register_type(BadNumber=bad_number)

    def s_pass(context, tag):
        CALLS.append(("pass", tag, context.scenario.name))

    def s_fail(context, tag):
        CALLS.append(("fail", tag, context.scenario.name))
        assert False, "boom %s" % tag

    def s_fail_noargs(context, tag):
        CALLS.append(("fail0", tag, context.scenario.name))
        raise AssertionError()

    def s_exc(context, tag):
        CALLS.append(("exc", tag, context.scenario.name))
        raise RuntimeError("oops %s" % tag)

    def s_pend(context, tag):
        CALLS.append(("pend", tag, context.scenario.name))
        raise StepNotImplementedError("todo %s" % tag)

    def s_pend_noargs(context, tag):
        CALLS.append(("pend0", tag, context.scenario.name))
        raise StepNotImplementedError()

    def s_failu(context, tag):
        CALLS.append(("failu", tag, context.scenario.name))
        raise AssertionError(u"\u00e4rger mit \u20ac %s" % tag)

    def s_fail2(context, tag):
        CALLS.append(("fail2", tag, context.scenario.name))
        raise AssertionError("first", 2, None)

    def s_failempty(context, tag):
        CALLS.append(("failempty", tag, context.scenario.name))
        raise AssertionError("")

    def s_failnone(context, tag):
        CALLS.append(("failnone", tag, context.scenario.name))
        raise AssertionError(None)

    class MyAssertion(AssertionError):
        def __str__(self):
            return "custom-str<%s>" % (self.args,)

    def s_failsub(context, tag):
        CALLS.append(("failsub", tag, context.scenario.name))
        raise MyAssertion("sub", tag)

    def s_failsub0(context, tag):
        CALLS.append(("failsub0", tag, context.scenario.name))
        raise MyAssertion()

    def s_pend2(context, tag):
        CALLS.append(("pend2", tag, context.scenario.name))
        raise PendingStepError(u"sp\u00e4ter %s" % tag)

    def s_pend20(context, tag):
        CALLS.append(("pend20", tag, context.scenario.name))
        raise PendingStepError()

    def s_notimpl(context, tag):
        CALLS.append(("notimpl", tag, context.scenario.name))
        raise NotImplementedError("plain %s" % tag)

    def s_nested(context, tag):
        CALLS.append(("nested", tag, context.scenario.name))
        context.execute_steps(u"When do pass n1\nWhen do fail n2\nWhen do pass n3")

    def s_nestedpend(context, tag):
        CALLS.append(("nestedpend", tag, context.scenario.name))
        context.execute_steps(u"When do pend0 n1")

    def s_skip(context, tag):
        CALLS.append(("skip", tag, context.scenario.name))
        context.scenario.skip("by step %s" % tag)

    def s_kbd(context, tag):
        CALLS.append(("kbd", tag, context.scenario.name))
        raise KeyboardInterrupt()

    def s_conv(context, tag, n):
        CALLS.append(("conv", tag, context.scenario.name))

    def s_print(context, tag):
        CALLS.append(("print", tag, context.scenario.name))
        print("captured output %s" % tag)
        assert False, "after print %s" % tag

    registry.add_step_definition("step", "do pass {tag}", s_pass)
    registry.add_step_definition("step", "do fail {tag}", s_fail)
    registry.add_step_definition("step", "do fail0 {tag}", s_fail_noargs)
    registry.add_step_definition("step", "do exc {tag}", s_exc)
    registry.add_step_definition("step", "do pend {tag}", s_pend)
    registry.add_step_definition("step", "do pend0 {tag}", s_pend_noargs)
    registry.add_step_definition("step", "do skip {tag}", s_skip)
    registry.add_step_definition("step", "do kbd {tag}", s_kbd)
    registry.add_step_definition("step", "do conv {tag} {n:BadNumber}", s_conv)
    registry.add_step_definition("step", "do print {tag}", s_print)
    for func in (s_failu, s_fail2, s_failempty, s_failnone, s_failsub,
                 s_failsub0, s_pend2, s_pend20, s_notimpl, s_nested,
                 s_nestedpend):
        registry.add_step_definition(
            "step", "do %s {tag}" % func.__name__[2:], func)
    return registry


def step_line(keyword, outcome, tag):
    if outcome == "conv":
        return "    %s do conv %s 12" % (keyword, tag)
    return "    %s do %s %s" % (keyword, outcome, tag)


class RecFormatter(Formatter):
    name = "rec"

    def __init__(self, log):
        self.log = log

    def uri(self, uri): pass
    def feature(self, feature): self.log.append("F.feature %s" % feature.name)
    def rule(self, rule): self.log.append("F.rule %s" % rule.name)
    def background(self, background): self.log.append("F.background")
    def scenario(self, scenario): self.log.append("F.scenario %s" % scenario.name)
    def step(self, step): self.log.append("F.step %s" % step.name)

    def match(self, match):
        self.log.append("F.match %s %s" % (
            type(match).__name__,
            getattr(match.func, "__name__", None)))

    def result(self, step):
        self.log.append("F.result %s -> %s" % (step.name, step.status.name))

    def eof(self): self.log.append("F.eof")
    def close(self): pass


def make_feature_text(fbg, rbg, steps, wip=False, outline=False, cafs=False,
                      second=None):
    lines = ["Feature: F"]
    if fbg is not None:
        lines.append("  Background: FB")
        lines += [step_line("Given", o, "fb%d" % i) for i, o in enumerate(fbg)]
    indent = ""
    if rbg is not None:
        lines.append("  Rule: R")
        lines.append("  Background: RB")
        lines += [step_line("Given", o, "rb%d" % i) for i, o in enumerate(rbg)]
    tags = []
    if wip:
        tags.append("@wip")
    if tags:
        lines.append("  " + " ".join(tags))
    if outline:
        lines.append("  Scenario Outline: S-<x>")
        lines += [step_line("When", o, "s%d<x>" % i) for i, o in enumerate(steps)]
        lines.append("    Examples:")
        lines.append("      | x |")
        lines.append("      | a |")
        lines.append("      | b |")
    else:
        lines.append("  Scenario: S1")
        lines += [step_line("When", o, "s%d" % i) for i, o in enumerate(steps)]
        if second is not None:
            lines.append("  Scenario: S2")
            lines += [step_line("Then", o, "t%d" % i) for i, o in enumerate(second)]
    return u"\n".join(lines) + u"\n"


def walk_steps(feature):
    for scenario in feature.walk_scenarios():
        for step in scenario.all_steps:
            yield scenario, step


def run_case(title, text, args=(), cafs=False, hooks=None, repeat=1,
             show_messages=True):
    print("=== %s" % title)
    del CALLS[:]
    log = []
    config = Configuration(command_args=list(args), load_config=False)
    config.format = []
    config.reporters = []
    registry = make_registry()
    feature = parse_feature(text, filename="gen.feature")
    if cafs:
        for scenario in feature.walk_scenarios(with_outlines=True):
            scenario.continue_after_failed_step = True
    for run_no in range(repeat):
        runner = ModelRunner(config, features=[feature], step_registry=registry)
        runner.formatters = [RecFormatter(log)]

        def make_hook(name):
            def hook(context, *a):
                what = a[0] if a else None
                log.append("H.%s %s" % (name, getattr(what, "name", what)))
                if hooks and name in hooks:
                    hooks[name](context, *a)
            return hook
        for name in ("before_scenario", "after_scenario", "before_step",
                     "after_step", "before_tag", "after_tag"):
            runner.hooks[name] = make_hook(name)
        try:
            failed = runner.run()
            print("run#%d failed=%r aborted=%r" % (run_no, failed, runner.aborted))
        except BaseException as e:   # noqa
            print("run#%d RAISED %s: %s" % (run_no, type(e).__name__, e))
        print("  calls: %s" % " ".join("%s:%s@%s" % c for c in CALLS))
        print("  undefined: %s" % [s.name for s in runner.undefined_steps])
        print("  context.failed=%r" % runner.context.failed)
        print("  feature.status=%s" % feature.status.name)
        for scenario in feature.walk_scenarios(with_outlines=True):
            print("  scenario %s: status=%s should_skip=%r skip_reason=%r "
                  "was_dry_run=%r" % (scenario.name, scenario.status.name,
                                      scenario.should_skip, scenario.skip_reason,
                                      getattr(scenario, "was_dry_run", None)))
        for scenario, step in walk_steps(feature):
            line = "    %s | %s: %s" % (scenario.name, step.name, step.status.name)
            if show_messages:
                line += " exc=%s msg=%r captured=%r" % (
                    type(step.exception).__name__, norm(step.error_message),
                    step.captured.output if step.captured else None)
            print(line)
        print("  log:")
        for entry in log:
            print("    " + entry)
        del CALLS[:]
        del log[:]


def main():
    # -- PART 1: exhaustive outcome sequences, length 0..3, plain scenario.
    for n in range(0, 3):
        for seq in itertools.product(OUTCOMES, repeat=n):
            text = make_feature_text(None, None, seq)
            run_case("plain %s" % ",".join(seq), text)
    # -- PART 2: length 2, all modes.
    for seq in itertools.product(OUTCOMES, repeat=2):
        for wip, dry, cafs in itertools.product((0, 1), repeat=3):
            args = ["--dry-run"] if dry else []
            text = make_feature_text(None, None, seq, wip=bool(wip))
            run_case("modes %s wip=%d dry=%d cafs=%d" % (",".join(seq), wip, dry, cafs),
                     text, args=args, cafs=bool(cafs))
    # -- PART 3: backgrounds (0..2 levels), outline, with each first-non-pass position.
    for bad in ("fail", "exc", "pend", "undef", "skip", "kbd", "conv"):
        for where in ("fb", "rb", "own"):
            for outline in (False, True):
                for dry in (False, True):
                    fbg = ["pass", bad if where == "fb" else "pass"]
                    rbg = [bad if where == "rb" else "pass",
                           "undef" if where == "fb" else "pass"]
                    own = ["pass", bad if where == "own" else "pass", "pass", "undef", "pass"]
                    text = make_feature_text(fbg, rbg, own, outline=outline)
                    run_case("bg bad=%s where=%s outline=%r dry=%r" % (bad, where, outline, dry),
                             text, args=["--dry-run"] if dry else [])
    text = make_feature_text(["pass", "fail"], None, ["pass"], second=["pass", "undef"])
    run_case("feature-bg only, two scenarios", text)
    # -- PART 4: repeated runs of the same scenario objects.
    for seq in (("pass", "fail", "pass"), ("skip", "pass"), ("pass", "undef", "undef", "pass"),
                ("pend", "pass"), ("pass", "pass")):
        text = make_feature_text(["pass"], ["pass"], seq, second=("pass", "exc", "undef"))
        run_case("repeat %s" % ",".join(seq), text, repeat=3)
    # -- PART 5: hooks that skip / fail / abort; show_skipped and tag selection.
    text = make_feature_text(["pass"], None, ["pass", "fail", "undef"], second=("pass", "undef"))

    def skip_in_before_scenario(context, scenario):
        if scenario.name == "S1":
            scenario.mark_skipped()

    def raise_in_before_scenario(context, scenario):
        if scenario.name == "S1":
            raise RuntimeError("hook problem")

    def raise_in_before_step(context, step):
        if step.name.endswith("s1"):
            raise RuntimeError("step hook problem")

    def raise_in_after_step(context, step):
        if step.name.endswith("s0"):
            raise RuntimeError("after step hook problem")

    def abort_in_before_scenario(context, scenario):
        context._runner.abort("by hook")

    run_case("hook mark_skipped", text, hooks={"before_scenario": skip_in_before_scenario})
    run_case("hook mark_skipped no-skipped", text, args=["--no-skipped"],
             hooks={"before_scenario": skip_in_before_scenario})
    run_case("hook raises before_scenario", text, hooks={"before_scenario": raise_in_before_scenario})
    run_case("hook raises before_step", text, hooks={"before_step": raise_in_before_step})
    run_case("hook raises after_step", text, hooks={"after_step": raise_in_after_step})
    run_case("hook aborts", text, hooks={"before_scenario": abort_in_before_scenario})
    run_case("tags exclude all", text, args=["--tags=@nope"])
    run_case("tags exclude all no-skipped", text, args=["--tags=@nope", "--no-skipped"])
    run_case("name select", text, args=["--name=S2"])
    run_case("stop", text, args=["--stop"])
    # -- PART 6: error messages and captured output.
    text = make_feature_text(None, None, ["pass", "print", "pass"])
    run_case("messages print", text, show_messages=True)
    for o in ("fail", "fail0", "failu", "fail2", "failempty", "failnone",
              "failsub", "failsub0", "exc", "pend", "pend0", "pend2", "pend20",
              "notimpl", "nested", "nestedpend", "kbd", "conv", "print"):
        for wip, dry, cafs in itertools.product((False, True), repeat=3):
            text = make_feature_text(["pass"], None, [o, "pass", o], wip=wip)
            run_case("messages %s wip=%r dry=%r cafs=%r" % (o, wip, dry, cafs),
                     text, args=["--dry-run"] if dry else [], cafs=cafs)
    # -- Step.run() in dry-run mode directly (status untested_pending).
    from behave.runner import Context
    for o in ("pend", "pend0", "pend2", "fail0", "undef", "pass"):
        for wip in (False, True):
            text = make_feature_text(None, None, [o], wip=wip)
            feature = parse_feature(text, filename="gen.feature")
            config = Configuration(command_args=["--dry-run"], load_config=False)
            config.format = []
            config.reporters = []
            runner = ModelRunner(config, features=[feature],
                                 step_registry=make_registry())
            runner.context = Context(runner)
            scenario = feature.scenarios[0]
            runner.context._push()
            runner.context.scenario = scenario
            runner.setup_capture()
            step = scenario.steps[0]
            for quiet, capture in itertools.product((False, True), repeat=2):
                keep_going = step.run(runner, quiet=quiet, capture=capture)
                print("direct dry-run %s wip=%r quiet=%r capture=%r: keep_going=%r "
                      "status=%s exc=%s msg=%r" % (
                          o, wip, quiet, capture, keep_going, step.status.name,
                          type(step.exception).__name__, norm(step.error_message)))
    # -- PART 7: random longer sequences.
    rng = random.Random(20260927)
    for i in range(150):
        fbg = [rng.choice(OUTCOMES[:2] + ("pass",) * 4) for _ in range(rng.randint(0, 2))] or None
        rbg = [rng.choice(("pass",) * 5 + OUTCOMES) for _ in range(rng.randint(0, 2))] or None
        own = [rng.choice(("pass",) * 6 + OUTCOMES) for _ in range(rng.randint(0, 8))]
        wip, dry, cafs, outline = [rng.random() < 0.3 for _ in range(4)]
        text = make_feature_text(fbg, rbg, own, wip=wip, outline=outline)
        run_case("random#%d fbg=%s rbg=%s own=%s wip=%r dry=%r cafs=%r outline=%r" % (
            i, fbg, rbg, own, wip, dry, cafs, outline), text,
            args=["--dry-run"] if dry else [], cafs=cafs, repeat=rng.choice((1, 1, 2)))


if __name__ == "__main__":
    main()
