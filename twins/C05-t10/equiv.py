# -*- coding: UTF-8 -*-
"""
Equivalence transcript for the C05 parser twins.

Exercises behave.parser through all public entry points (parse_feature,
parse_rule, parse_scenario, parse_steps, parse_step, parse_tags) and through
the Parser helper methods on curated documents, on every single-line
mutation of these documents and on seeded random line soups in several
languages. Prints a canonical transcript: model dumps or exception
type/message/line, final parser state, log records.
"""
from __future__ import print_function, unicode_literals
import sys
sys.path.insert(0, "/tmp/wtV/C05")

import hashlib
import logging
import random

from behave import parser as bparser
from behave import i18n, model
from behave.parser import Parser, ParserError, State


# ---------------------------------------------------------------------------
# LOG CAPTURE
# ---------------------------------------------------------------------------
class ListHandler(logging.Handler):
    def __init__(self):
        logging.Handler.__init__(self)
        self.records = []

    def emit(self, record):
        self.records.append("%s:%s" % (record.levelname, record.getMessage()))


LOG = ListHandler()
_logger = logging.getLogger("behave")
_logger.addHandler(LOG)
_logger.setLevel(logging.DEBUG)
_logger.propagate = False


# ---------------------------------------------------------------------------
# DUMPERS
# ---------------------------------------------------------------------------
def dump_tags(tags):
    return [(u"%s" % tag, getattr(tag, "line", None)) for tag in tags]


def dump_table(table):
    if table is None:
        return None
    return ("table", table.line, list(table.headings),
            [(list(row.cells), row.line) for row in table.rows])


def dump_step(step):
    text = step.text
    if text is not None:
        text = (u"%s" % text, text.content_type, text.line)
    return ("step", step.filename, step.line, step.keyword, step.step_type,
            step.name, text, dump_table(step.table))


def dump_examples(examples):
    return ("examples", examples.filename, examples.line, examples.keyword,
            examples.name, dump_tags(examples.tags), dump_table(examples.table))


def dump_background(background):
    if background is None:
        return None
    return ("background", background.filename, background.line,
            background.keyword, background.name,
            list(getattr(background, "description", [])),
            [dump_step(s) for s in background.steps])


def dump_scenario(scenario):
    data = [type(scenario).__name__, scenario.filename, scenario.line,
            scenario.keyword, scenario.name, dump_tags(scenario.tags),
            list(scenario.description),
            [dump_step(s) for s in scenario.steps]]
    parent = getattr(scenario, "parent", None)
    data.append(type(parent).__name__)
    if isinstance(scenario, model.ScenarioOutline):
        data.append([dump_examples(e) for e in scenario.examples])
    return tuple(data)


def dump_container(container):
    data = [type(container).__name__, container.filename, container.line,
            container.keyword, container.name, dump_tags(container.tags),
            list(container.description),
            dump_background(container.background)]
    items = []
    for item in container.run_items:
        if isinstance(item, model.Rule):
            items.append(dump_container(item))
        else:
            items.append(dump_scenario(item))
    data.append(items)
    data.append([s.name for s in container.scenarios])
    if isinstance(container, model.Feature):
        data.append(container.language)
        data.append([r.name for r in container.rules])
    return tuple(data)


def dump_any(obj):
    if obj is None:
        return None
    if isinstance(obj, (model.Feature, model.Rule)):
        return dump_container(obj)
    if isinstance(obj, model.Scenario):
        return dump_scenario(obj)
    if isinstance(obj, model.Background):
        return dump_background(obj)
    if isinstance(obj, model.Step):
        return dump_step(obj)
    if isinstance(obj, list):
        if obj and isinstance(obj[0], model.Tag):
            return dump_tags(obj)
        return [dump_any(x) for x in obj]
    return repr(obj)


def dump_parser_state(p):
    return ("parser", p.language, p.variant, p.state.name, p.line,
            p.last_step_type, dump_tags(p.tags), list(p.lines),
            p.multiline_start, p.multiline_leading, p.multiline_terminator,
            p.table is None, p.examples is None, type(p.statement).__name__,
            type(p.scenario_container).__name__, p.filename)


def dump_error(e):
    data = [type(e).__name__]
    if isinstance(e, ParserError):
        data.extend([e.args, e.line, e.line_text, e.filename, u"%s" % e])
    else:
        data.append(repr(e.args))
    return tuple(data)


# ---------------------------------------------------------------------------
# RUNNERS
# ---------------------------------------------------------------------------
def observe(func, *args, **kwargs):
    del LOG.records[:]
    try:
        result = ("ok", dump_any(func(*args, **kwargs)))
    except Exception as e:  # pylint: disable=broad-except
        result = ("error", dump_error(e))
    return result + (tuple(LOG.records),)


def via_parser_feature(text, language=None, filename=None):
    p = Parser(language)
    try:
        feature = p.parse(text, filename)
    finally:
        via_parser_feature.state = dump_parser_state(p)
    return feature


ENTRY_POINTS = [
    ("feature", lambda t, lang: observe(bparser.parse_feature, t, lang, "x.feature")),
    ("feature/nofile", lambda t, lang: observe(bparser.parse_feature, t, lang)),
    ("rule", lambda t, lang: observe(bparser.parse_rule, t, lang, "x.rule")),
    ("scenario", lambda t, lang: observe(bparser.parse_scenario, t, lang, "x.scenario")),
    ("steps", lambda t, lang: observe(bparser.parse_steps, t, lang, "x.steps")),
    ("step", lambda t, lang: observe(bparser.parse_step, t, lang, "x.step")),
    ("tags", lambda t, lang: observe(bparser.parse_tags, t)),
]


def run_all_entries(text, language=None):
    results = []
    for name, entry in ENTRY_POINTS:
        results.append((name, entry(text, language)))
    outcome = observe(via_parser_feature, text, language, "p.feature")
    results.append(("Parser.parse", outcome, via_parser_feature.state))
    return results


def digest(obj):
    return hashlib.sha1(repr(obj).encode("utf-8")).hexdigest()[:16]


def short(results):
    parts = []
    for item in results:
        name, outcome = item[0], item[1]
        if outcome[0] == "ok":
            parts.append("%s=ok" % name)
        else:
            err = outcome[1]
            line = err[2] if err[0] == "ParserError" else "-"
            parts.append("%s=%s@%s" % (name, err[0], line))
    return " ".join(parts)


def show_full(title, text, language=None):
    print("=" * 70)
    print("CASE %s (language=%s)" % (title, language))
    for item in run_all_entries(text, language):
        print("  %r" % (item,))


def show_brief(title, text, language=None):
    results = run_all_entries(text, language)
    print("%s | %s | %s" % (title, digest(results), short(results)))


# ---------------------------------------------------------------------------
# CORPUS
# ---------------------------------------------------------------------------
DOC_EN = u'''# language: en
# a comment
@feature_tag @f2   # trailing comment
Feature: Alice
  Feature description line 1
  line 2

  Background: Common
    Background description
    Given a background step
      And another background step

  @s1
  @s2 @s3
  Scenario: First
    Scenario description
    Given a step
      """
      doc string line 1
        indented line 2

      """
    When a table step:
      | name  | value |
      | a\\|b | 1     |
      | c     |       |
    Then something
    But not this
    * generic step

  Scenario Outline: Template <name>
    Given <name> exists
    # comment inside steps
    Then <value> is seen

    @ex_tag
    Examples: Set 1
      | name | value |
      | x    | 1     |
      | y    | 2     |

    Examples:
      | name | value |
      | z    | 3     |

  @r1
  Rule: Business rule
    Rule description

    Background: Rule background
      Given a rule background step

    Example: In rule
      And inherits type from background
      When x
        \'\'\'
        single quoted
        \'\'\'

    Scenario Template: T2
      Given <a>
      Examples:
        | a |
        | 1 |

  Rule: Second rule
    Scenario: Title only
    Scenario: Another
      Given one
'''

DOC_DE = u'''# language: de
@de
Funktionalit\xe4t: Beispielfunktion
  Beschreibung

  Grundlage:
    Angenommen es gibt etwas

  Szenario: Erstes
    Wenn ich etwas tue
    Und noch etwas
      | a | b |
      | 1 | 2 |
    Dann passiert etwas
    Aber nicht das

  Szenariogrundriss: Vorlage
    Gegeben sei <x>
    Beispiele: Daten
      | x |
      | 1 |

  Regel: Eine Regel
    Beispiel: In Regel
      * irgendwas
'''

DOC_FR = u'''# language: fr
Fonctionnalit\xe9: Exemple
  Contexte:
    Soit un contexte
  @t
  Sc\xe9nario: Un
    Quand je fais
    Alors je vois
    Et encore
  Plan du sc\xe9nario: Deux
    Etant donn\xe9 <v>
    Exemples:
      | v |
      | 1 |
'''

DOC_ZH = u'''# language: zh-CN
功能: 中文
  背景:
    假如有东西
  场景: 一
    当我做
    那么我看到
    而且还有
'''

DOC_NOHEADER = u'''Feature: No header
  Scenario: S
    Given a
    And b
  Scenario Outline: O
    When <c>
    Examples: E
      | c |
      | 1 |
'''

DOC_RULE = u'''@rt
Rule: Only a rule
  Description
  Background:
    Given bg
  Scenario: R1
    But uses background
  Scenario: R2
    When w
'''

DOC_SCENARIO = u'''@st1 @st2
Scenario: Just a scenario
  Description here
  Given g
    | h |
    | 1 |
  When w
  Then t
'''

DOC_OUTLINE = u'''Scenario Outline: Just an outline
  Given <g>
  @e
  Examples: Ex
    | g |
    | 1 |
'''

DOC_STEPS = u'''Given a first step
  """
  text
  """
When a second step:
  | col1 | col2 |
  | v1   | v2   |
Then third
And fourth
* fifth
'''

DOC_TAGS = u'''@one @two
@three # comment @not_a_tag
'''

DOCS = [
    ("en", DOC_EN, None),
    ("de", DOC_DE, None),
    ("fr", DOC_FR, None),
    ("zh", DOC_ZH, None),
    ("noheader", DOC_NOHEADER, None),
    ("noheader/de-lang", DOC_NOHEADER, "de"),
    ("de-body/no-header-lang-de", u"\n".join(DOC_DE.splitlines()[1:]), "de"),
    ("rule", DOC_RULE, None),
    ("scenario", DOC_SCENARIO, None),
    ("outline", DOC_OUTLINE, None),
    ("steps", DOC_STEPS, None),
    ("tags", DOC_TAGS, None),
]

FAULT_LINES = [
    u"Feature: Second feature",
    u"Rule: Injected rule",
    u"Background: Injected background",
    u"Scenario: Injected scenario",
    u"Scenario Outline: Injected outline",
    u"Examples: Injected examples",
    u"And injected and-step",
    u"But injected but-step",
    u"* injected star-step",
    u"Given injected given",
    u"given lowercase given",
    u"| a | b | c |",
    u"| only |",
    u"| unterminated",
    u"|",
    u"||",
    u"@good_tag",
    u"@good bad_tag",
    u"@tag #comment",
    u"bad_tag @good",
    u'"""',
    u"'''",
    u"    '''",
    u"free text line",
    u"# language: de",
    u"# language: xx-unknown",
    u"#language:fr",
    u"# just a comment",
    u"   ",
    u"Funktionalit\xe4t: Deutsch",
    u"Wenn deutscher Schritt",
    u"Und deutsches Und",
    u"Examples:",
    u"Feature:",
    u"Scenario:",
    u":",
    u"Given",
    u"Given ",
    u"And",
    u"*",
    u"Scenarios: alias examples",
    u"Example: alias scenario",
    u"Scenario Template: alias outline",
]

SOUP_POOLS = {
    None: FAULT_LINES + [
        u"  When indented when",
        u"\tThen tabbed then",
        u"  | x | y |",
        u"  | 1 | 2 |",
        u"  | 1 | 2 | 3 |",
        u'  """',
        u"    text in docstring",
        u" x outdented text",
        u"",
        u"@a @b @c",
        u"@",
        u"@ @",
        u"# language: en",
    ],
    "de": [
        u"# language: de", u"Funktionalit\xe4t: F", u"Funktion: G",
        u"Grundlage: B", u"Hintergrund:", u"Szenario: S", u"Beispiel: E",
        u"Szenariogrundriss: O", u"Szenarien: P", u"Beispiele: X", u"Regel: R",
        u"Rule: R2", u"Angenommen a", u"Gegeben sei b", u"Wenn c", u"Dann d",
        u"Und e", u"Aber f", u"* g", u"| a |", u"| 1 |", u"| 1 | 2 |",
        u'"""', u"text", u"@tag", u"@tag bad", u"# c", u"", u"Feature: en",
        u"Given english",
    ],
    "fr": [
        u"# language: fr", u"Fonctionnalit\xe9: F", u"Contexte:", u"R\xe8gle: R",
        u"Sc\xe9nario: S", u"Exemple: E", u"Plan du sc\xe9nario: O",
        u"Exemples:", u"Soit a", u"Etant donn\xe9 b", u"Quand c", u"Alors d",
        u"Et e", u"Mais f", u"* g", u"| a |", u"| 1 |", u"'''", u"texte",
        u"@t", u"# c", u"", u"Lorsqu'il pleut", u"Et qu'il vente",
    ],
    "zh-CN": [
        u"# language: zh-CN", u"功能: F", u"背景:",
        u"场景: S", u"场景大纲: O", u"例子:",
        u"假如a", u"当b", u"那么c", u"而且d",
        u"但是e", u"* f", u"| a |", u"| 1 |", u'"""', u"@t", u"",
        u"Rule: R", u"规则: R",
    ],
}


def mutations(text):
    lines = text.splitlines()
    count = len(lines)
    for i in range(count):
        yield "del%d" % i, lines[:i] + lines[i + 1:]
    for i in range(count):
        yield "dup%d" % i, lines[:i + 1] + lines[i:]
    for i in range(count - 1):
        yield "swap%d" % i, lines[:i] + [lines[i + 1], lines[i]] + lines[i + 2:]
    for i in range(count + 1):
        yield "trunc%d" % i, lines[:i]
    for i in range(count + 1):
        for k, fault in enumerate(FAULT_LINES):
            yield "ins%d.%d" % (i, k), lines[:i] + [fault] + lines[i:]


# ---------------------------------------------------------------------------
# SECTIONS
# ---------------------------------------------------------------------------
def section_documents():
    print("#" * 70)
    print("# SECTION 1: curated documents, full dumps")
    for name, text, language in DOCS:
        show_full(name, text, language)
    edge_texts = [
        ("empty", u""), ("blank", u"\n\n  \n"), ("only-comment", u"# x\n"),
        ("only-tags", u"@a @b\n"), ("tags-then-eof", u"@a\n@b\n"),
        ("crlf", u"Feature: F\r\n  Scenario: S\r\n    Given a\r\n      \"\"\"\r\n      t  \r\n      \"\"\"\r\n"),
        ("table-at-eof", u"Feature: F\n Scenario: S\n  Given a\n   | h |\n   | 1 |"),
        ("examples-table-at-eof", u"Feature: F\n Scenario Outline: S\n  Given <h>\n  Examples:\n   | h |\n   | 1 |"),
        ("unterminated-docstring", u"Feature: F\n Scenario: S\n  Given a\n  \"\"\"\n  text\n"),
        ("bad-indent", u"Feature: F\n Scenario: S\n  Given a\n    \"\"\"\n  x text\n    \"\"\"\n"),
        ("language-after-tags", u"@t\n# language: de\nFeature: F\n"),
        ("language-twice", u"# language: de\n# language: fr\nFonctionnalit\xe9: F\n"),
        ("language-unknown", u"# language: nope\nFeature: F\n"),
        ("language-mixed-case", u"#  LANGUAGE:  de  \nFunktion: F\n"),
        ("language-empty", u"# language:\nFeature: F\n"),
        ("comment-hash-only", u"#\nFeature: F\n"),
        ("and-first", u"Feature: F\n Scenario: S\n  And a\n"),
        ("but-first", u"Feature: F\n Scenario: S\n  But a\n"),
        ("star-first", u"Feature: F\n Scenario: S\n  * a\n  And b\n"),
        ("and-after-empty-background", u"Feature: F\n Background:\n Scenario: S\n  And a\n"),
        ("and-in-rule-inherited", u"Feature: F\n Background:\n  When bg\n Rule: R\n  Background:\n  Scenario: S\n   And a\n"),
        ("second-background", u"Feature: F\n Background:\n  Given a\n Background:\n  Given b\n"),
        ("second-empty-background", u"Feature: F\n Background: A\n Background: B\n  Given b\n"),
        ("background-with-tags", u"Feature: F\n @t\n Background:\n"),
        ("background-after-scenario", u"Feature: F\n Scenario: S\n  Given a\n Background:\n"),
        ("examples-in-scenario", u"Feature: F\n Scenario: S\n  Given a\n Examples:\n  | a |\n"),
        ("wrong-cells", u"Feature: F\n Scenario: S\n  Given a\n  | a | b |\n  | 1 |\n"),
        ("malformed-row", u"Feature: F\n Scenario: S\n  Given a\n  | a | b\n  | 1 | 2\n"),
        ("malformed-row-steps", u"Given a\n  | a\n"),
        ("table-before-step", u"Feature: F\n Scenario: S\n  | a | b |\n"),
        ("docstring-before-step", u"Feature: F\n Scenario: S\n  desc\n  \"\"\"\n"),
        ("second-feature", u"Feature: F\n Scenario: S\n  Given a\nFeature: G\n"),
        ("text-after-steps", u"Feature: F\n Scenario: S\n  Given a\n  free text\n"),
        ("bad-tag", u"Feature: F\n @a b\n Scenario: S\n"),
        ("tags-before-text", u"Feature: F\n @a\n free text\n"),
        ("rule-before-feature", u"Rule: R\n"),
        ("scenario-before-feature", u"Scenario: S\n"),
        ("lowercase-steps", u"Feature: F\n Scenario: S\n  given a\n  when b\n  then c\n  and d\n  but e\n"),
        ("keyword-no-space", u"Feature: F\n Scenario: S\n  Givenx\n  Whenever\n"),
    ]
    for name, text in edge_texts:
        show_full("edge:" + name, text)


def section_mutations():
    print("#" * 70)
    print("# SECTION 2: single-line mutations of curated documents (digests)")
    for name, text, language in DOCS:
        for label, lines in mutations(text):
            show_brief("mut:%s:%s" % (name, label), u"\n".join(lines), language)


def section_soups():
    print("#" * 70)
    print("# SECTION 3: seeded random line soups (digests)")
    rng = random.Random(20240517)
    for language in (None, "de", "fr", "zh-CN"):
        pool = SOUP_POOLS[language]
        for i in range(700):
            size = rng.randint(1, 14)
            lines = [rng.choice(pool) for _ in range(size)]
            # -- SOMETIMES: explicit language arg, sometimes only header line.
            lang_arg = language if rng.random() < 0.5 else None
            show_brief("soup:%s:%d" % (language, i), u"\n".join(lines), lang_arg)
    # -- MIXED POOL:
    mixed = [x for pool in SOUP_POOLS.values() for x in pool]
    for i in range(700):
        size = rng.randint(1, 20)
        lines = [rng.choice(mixed) for _ in range(size)]
        show_brief("soup:mixed:%d" % i, u"\n".join(lines), None)


def section_helpers():
    print("#" * 70)
    print("# SECTION 4: Parser helper methods")
    # -- parse_tags (method and function):
    tag_lines = [u"@a", u"@a @b", u"@a   @b\t@c", u"@a #c @b", u"#c @a",
                 u"@a b", u"b @a", u"@", u"@@x", u"@a#b", u"@a # b c", u"",
                 u"   ", u"@a\n@b", u"@a\nb", u"x", u"@a @b c #d"]
    for line in tag_lines:
        p = Parser(variant="tags")
        p.line = 7
        p.filename = "tags.file"
        print("Parser.parse_tags(%r) -> %r" % (line, observe(p.parse_tags, line)))
        print("parse_tags(%r) -> %r" % (line, observe(bparser.parse_tags, line)))

    # -- match_keyword: with and without keywords
    for language in (None, "en", "de", "fr"):
        for keyword in ("feature", "rule", "background", "scenario",
                        "scenario_outline", "examples"):
            for line in (u"Feature: x", u"Feature x", u"Funktion: y",
                         u"Szenario: z", u"Example: e", u"Examples: e",
                         u"Scenarios: e", u"Scenario Outline: o", u"Rule:",
                         u"Background:", u"", u":"):
                p = Parser(language)
                found = observe(p.match_keyword, keyword, line)
                print("match_keyword[%s](%s, %r) -> %r lang=%s" %
                      (language, keyword, line, found, p.language))
    p = Parser("en")
    print("match_keyword(unknown) -> %r" % (observe(p.match_keyword, "nope", u"x"),))

    # -- parse_step: depending on last_step_type
    step_lines = [u"Given a", u"When b", u"Then c", u"And d", u"But e", u"* f",
                  u"given g", u"AND h", u"Given", u"Andy", u"text", u"", u"*x",
                  u"Wenn i", u"Und j"]
    for language in ("en", "de"):
        for last in (None, "given", "when", "then"):
            for line in step_lines:
                p = Parser(language)
                p.reset("steps.file")
                p.line = 3
                p.last_step_type = last
                outcome = observe(p.parse_step, line)
                print("parse_step[%s,last=%s](%r) -> %r last_after=%s" %
                      (language, last, line, outcome, p.last_step_type))
    p = Parser()
    print("parse_step(no keywords) -> %r" % (observe(p.parse_step, u"Given x"),))

    # -- parse_step: And/But uses the background of the scenario container
    feature = bparser.parse_feature(u"Feature: F\n Background:\n  When bg\n")
    for line in (u"And a", u"But b", u"* c"):
        p = Parser("en")
        p.reset()
        p.scenario_container = feature
        print("parse_step[bg](%r) -> %r last_after=%s" %
              (line, observe(p.parse_step, line), p.last_step_type))

    # -- ask_parse_failure_oracle and diagnose_*:
    oracle_lines = [u"Feature: x", u"Rule: x", u"Background: x", u"Scenario: x",
                    u"Example: x", u"Scenario Outline: x", u"Scenario Template: x",
                    u"Examples: x", u"text", u"", u"Given x"]
    for variant in (None, "feature", "rule", "scenario", "steps"):
        for with_feature in (False, True):
            for tags in ([], [u"t"]):
                for line in oracle_lines:
                    p = Parser("en", variant=variant)
                    p.reset()
                    if with_feature:
                        p.feature = model.Feature("f", 1, u"Feature", u"F")
                        p.scenario_container = p.feature
                    p.tags = list(tags)
                    print("oracle[%s,%s,%s](%r) -> %r" %
                          (variant, with_feature, tags, line,
                           observe(p.ask_parse_failure_oracle, line)))

    # -- action: direct calls in every state
    action_lines = [u"# comment", u"  # language: de", u"# language: zz",
                    u"#language: fr  ", u"@t", u"Feature: F", u"Scenario: S",
                    u"Given a", u"| a |", u'"""', u"text", u"  Examples: e",
                    u"Rule: R", u"Background: B"]
    for state in State:
        for variant in (None, "rule", "scenario", "steps"):
            for line in action_lines:
                p = Parser(None, variant=variant)
                p.reset("act.file")
                p.line = 5
                p.state = state
                if state == State.MULTILINE_TEXT:
                    p.multiline_terminator = u'"""'
                    p.multiline_leading = 0
                    p.multiline_start = 4
                if state not in (State.INITIAL,):
                    p.feature = model.Feature("act.file", 1, u"Feature", u"F")
                    p.scenario_container = p.feature
                    p.statement = model.Scenario("act.file", 2, u"Scenario", u"S")
                    p.statement.steps.append(
                        model.Step("act.file", 3, u"Given", "given", u"x"))
                outcome = observe(p.action, line)
                print("action[%s,%s](%r) -> %r %r" %
                      (state.name, variant, line, outcome, dump_parser_state(p)))
    # -- action: tags pending in INITIAL state, unknown state
    p = Parser()
    p.reset()
    p.tags = [model.Tag(u"t", 1)]
    print("action[initial+tags] -> %r %r" %
          (observe(p.action, u"# language: de"), dump_parser_state(p)))

    class FakeState(object):
        name = "NOWHERE"

        def __str__(self):
            return "FakeState.NOWHERE"

    p = Parser()
    p.reset("fake.file")
    p.state = FakeState()
    p.line = 9
    print("action[unknown state] -> %r" % (observe(p.action, u"  some line  "),))

    # -- ParserError formatting:
    for args in [(u"msg", 0), (u"msg", 3), (u"msg", 3, "f.feature"),
                 (u"msg", 3, None, u"  the line  "),
                 (u"msg", 3, "f", u"l", u"because"),
                 (u"msg", None, None, None, u"because"),
                 (u"msg", 3, "f", u"l", u"because", False)]:
        e = ParserError(*args)
        print("ParserError%r -> %r" % (args, dump_error(e)))


def section_subclass():
    print("#" * 70)
    print("# SECTION 5: subclass that logs the builder / keyword calls")
    calls = []

    class LoggingParser(Parser):
        def match_keyword(self, keyword, line):
            found = Parser.match_keyword(self, keyword, line)
            calls.append(("match", keyword, line, found, self.line))
            return found

        def _build_rule_statement(self, keyword, line):
            calls.append(("rule", keyword, line, self.line, self.state.name))
            return Parser._build_rule_statement(self, keyword, line)

        def _build_scenario_statement(self, keyword, line):
            calls.append(("scenario", keyword, line, self.line, self.state.name))
            return Parser._build_scenario_statement(self, keyword, line)

        def _build_scenario_outline_statement(self, keyword, line):
            calls.append(("outline", keyword, line, self.line, self.state.name))
            return Parser._build_scenario_outline_statement(self, keyword, line)

        def _build_examples(self, keyword, line):
            calls.append(("examples", keyword, line, self.line, self.state.name))
            return Parser._build_examples(self, keyword, line)

        def parse_step(self, line):
            step = Parser.parse_step(self, line)
            calls.append(("step", line, self.line, step is not None,
                          self.last_step_type))
            return step

        def parse_tags(self, line):
            calls.append(("tags", line, self.line))
            return Parser.parse_tags(self, line)

        def action(self, line):
            calls.append(("action", line, self.line, self.state.name))
            return Parser.action(self, line)

    texts = [DOC_EN, DOC_DE, DOC_NOHEADER,
             u"Feature: F\n Scenario: S\n  Given a\nFeature: G\n",
             u"Feature: F\n Scenario: S\n  Given a\n Examples:\n",
             u"Feature: F\n @a b\n"]
    for index, text in enumerate(texts):
        del calls[:]
        p = LoggingParser()
        outcome = observe(p.parse, text, "log.feature")
        print("logging-parser %d -> %s %r" % (index, digest(outcome), dump_parser_state(p)))
        for call in calls:
            print("    %r" % (call,))
    for variant, method, text in [("rule", "parse_rule", DOC_RULE),
                                  ("scenario", "parse_scenario", DOC_SCENARIO),
                                  ("scenario", "parse_scenario", DOC_OUTLINE),
                                  ("steps", "parse_steps", DOC_STEPS)]:
        del calls[:]
        p = LoggingParser(variant=variant)
        outcome = observe(getattr(p, method), text, "log.file")
        print("logging-parser %s -> %s %r" % (method, digest(outcome), dump_parser_state(p)))
        for call in calls:
            print("    %r" % (call,))


def main():
    section_documents()
    section_helpers()
    section_subclass()
    section_mutations()
    section_soups()
    print("DONE")


if __name__ == "__main__":
    main()
