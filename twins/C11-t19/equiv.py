# -*- coding: UTF-8 -*-
"""Equivalence transcript for C11-t19 (StepRegistry.find_match/find_step_definition)."""
from __future__ import print_function
import sys
sys.path.insert(0, "/tmp/wtW/C11")

import contextlib
import itertools
import os
import re
import shutil
import subprocess
import tempfile
import parse
from behave.matchers import get_step_matcher_factory, ParseMatcher, CFParseMatcher
from behave.step_registry import StepRegistry, AmbiguousStep

STEP_TYPES = ("given", "when", "then", "step")


class FakeContext(object):
    def __init__(self):
        self.log = []

    @contextlib.contextmanager
    def use_with_user_mode(self):
        yield


class FakeStep(object):
    def __init__(self, step_type, name):
        self.step_type = step_type
        self.name = name


class CountingStep(object):
    """Step whose attribute reads are visible only through results."""
    def __init__(self, step_type, name):
        self.step_type = step_type
        self.name = name


def make_recorder(label):
    def step_func(context, *args, **kwargs):
        context.log.append((label, args, sorted(kwargs.items())))
    step_func.__name__ = "step_%s" % label
    return step_func


@parse.with_pattern(r"\d+")
def parse_number(text):
    return int(text)


@parse.with_pattern(r"[A-Z]+")
def parse_fussy(text):
    if text == "BAD":
        raise ValueError("fussy does not like BAD")
    return text.lower()


def describe_args(arguments):
    return [(a.start, a.end, a.original, repr(a.value), a.name)
            for a in arguments]


class CannedDefinition(object):
    """Step definition stand-in with a canned match() result and call log."""
    def __init__(self, label, outcome, log):
        self.label = label
        self.outcome = outcome
        self.log = log

    def match(self, text):
        self.log.append("%s.match(%r)" % (self.label, text))
        if isinstance(self.outcome, Exception):
            raise self.outcome
        return self.outcome

    def __repr__(self):
        return "<Canned %s>" % self.label


def exercise_canned():
    print("== canned step definitions: order of match() calls, first hit wins")
    hit = lambda label: ("HIT", label)
    outcomes = [None, 0, [], "", False]
    layouts = [
        # (type-specific outcomes, generic outcomes)
        ([], []),
        ([None], []),
        ([], [None]),
        ([None, None], [None, None]),
        (["T1"], ["G1"]),
        ([None, "T2", "T3"], ["G1"]),
        ([None, None], ["G1", "G2"]),
        ([None, None], [None, "G2"]),
        ([0, [], "", False], [None, "G2"]),
        ([NotImplementedError("no check_match")], ["G1"]),
        ([None, ValueError("boom")], ["G1"]),
        ([None], [KeyError("generic boom"), "G2"]),
    ]
    for specific, generic in layouts:
        for step_type in STEP_TYPES:
            for method_name in ("find_match", "find_step_definition"):
                log = []
                registry = StepRegistry()
                convert = lambda prefix, items: [
                    CannedDefinition("%s%d" % (prefix, i),
                                     hit(o) if isinstance(o, str) and o else o, log)
                    for i, o in enumerate(items)]
                specific_defs = convert("t", specific)
                generic_defs = convert("g", generic)
                if step_type != "step":
                    registry.steps[step_type] = specific_defs
                    registry.steps["step"] = generic_defs
                else:
                    registry.steps["step"] = specific_defs + generic_defs
                before = dict((k, list(v)) for k, v in registry.steps.items())
                ids_before = dict((k, id(v)) for k, v in registry.steps.items())
                method = getattr(registry, method_name)
                try:
                    outcome = repr(method(FakeStep(step_type, "some text")))
                except Exception as e:  # pylint: disable=broad-except
                    outcome = "RAISED %s: %s" % (e.__class__.__name__, e)
                unchanged = (before == registry.steps and
                             ids_before == dict((k, id(v)) for k, v in registry.steps.items()))
                print("  %s/%s %s(%s) -> %s calls=%r lists-unchanged=%r" % (
                    specific, generic, method_name, step_type, outcome, log, unchanged))
    print("== unusual containers and unknown step types")
    registry = StepRegistry()
    for step_type in ("and", "but", "Given", "", None):
        for method_name in ("find_match", "find_step_definition"):
            try:
                print("  %s(%r) -> %r" % (method_name, step_type,
                      getattr(registry, method_name)(FakeStep(step_type, "x"))))
            except Exception as e:  # pylint: disable=broad-except
                print("  %s(%r) RAISED %s: %s" % (
                    method_name, step_type, e.__class__.__name__, e))
    log = []
    registry.steps["when"] = (CannedDefinition("t0", None, log),)
    registry.steps["step"] = (CannedDefinition("g0", "G", log),)
    for method_name in ("find_match", "find_step_definition"):
        print("  tuples: %s -> %r calls=%r" % (
            method_name, getattr(registry, method_name)(FakeStep("when", "x")), log))
    del registry.steps["step"]
    for step_type in ("when", "step"):
        try:
            print("  no-generic: %r" % registry.find_match(FakeStep(step_type, "x")))
        except Exception as e:  # pylint: disable=broad-except
            print("  no-generic(%s) RAISED %s: %s" % (step_type, e.__class__.__name__, e))


HISTORIES = [
    [("parse", "given", "I have {count:d} apples"),
     ("parse", "step", "I have {what}"),
     ("parse", "given", "I have {n:d} {thing}"),
     ("re", "when", r"I have (?P<n>\d+) pears"),
     ("re", "step", r"(?P<who>\w+) has (\d+) (\w+)"),
     ("cfparse", "then", "numbers {values:Number+}"),
     ("parse", "then", "numbers {rest}"),
     ("re0", "then", r"^\d+ is (odd|even)"),
     ("parse", "step", "{x:d} is {what}"),
     ("parse", "when", "fussy {v:Fussy}"),
     ("parse", "step", "fussy {any}")],
    [("parse", "step", "{anything}"),
     ("parse", "given", "a {thing}"),
     ("parse", "given", "a specific thing"),
     ("parse", "when", "a specific thing"),
     ("parse", "when", "a {thing}"),
     ("re", "then", "a (.*)"),
     ("re", "Then", "a specific thing"),
     ("parse", "STEP", "a specific thing")],
    [("re", "given", "x"), ("re0", "given", "x"), ("parse", "given", "X"),
     ("parse", "given", "x"), ("cfparse", "when", "x"), ("parse", "step", "x")],
]

TEXTS = [
    "I have 3 apples", "I have 3 pears", "I have cheese", "i have 3 apples",
    "Bob has 3 cats", "numbers 1, 2", "numbers one", "7 is odd", "7 is odd today",
    "8 is large", "fussy OK", "fussy BAD", "fussy lower", "a specific thing",
    "a thing", "A thing", "x", "X", "xx", " x", "", "unmatched text",
]


def exercise_histories():
    factory = get_step_matcher_factory()
    for number, history in enumerate(HISTORIES):
        print("== history %d" % number)
        factory.reset()
        for matcher_class in (ParseMatcher, CFParseMatcher):
            matcher_class.register_type(Number=parse_number, Fussy=parse_fussy)
        registry = StepRegistry()
        functions = {}
        for index, (matcher_name, step_type, pattern) in enumerate(history):
            factory.use_step_matcher(matcher_name)
            func = make_recorder("h%d_%d" % (number, index))
            functions[func] = index
            try:
                registry.add_step_definition(step_type, pattern, func)
                print("  add[%d] %s %s %r OK" % (index, matcher_name, step_type, pattern))
            except AmbiguousStep as e:
                print("  add[%d] %s %s %r AmbiguousStep: %s" % (
                    index, matcher_name, step_type, pattern,
                    str(e).replace("/tmp/wtW/C11/", "")))
        factory.use_default_step_matcher()
        for step_type in STEP_TYPES:
            print("  steps[%s]=%r" % (step_type, registry.steps[step_type]))
        snapshot = dict((k, list(v)) for k, v in registry.steps.items())
        for step_type, text in itertools.product(STEP_TYPES, TEXTS):
            step = FakeStep(step_type, text)
            result = registry.find_match(step)
            definition = registry.find_step_definition(step)
            if result is None:
                print("  lookup(%s, %r) -> None / %r" % (step_type, text, definition))
                continue
            context = FakeContext()
            try:
                result.run(context)
                ran = repr(context.log)
            except Exception as e:  # pylint: disable=broad-except
                ran = "RAISED %s: %s" % (e.__class__.__name__, e)
            print("  lookup(%s, %r) -> %s %s args=%r run=%s / %r same-func=%r" % (
                step_type, text, result.__class__.__name__, result.func.__name__,
                describe_args(result.arguments or []), ran, definition,
                definition.func is result.func))
        assert snapshot == registry.steps
    factory.reset()


FEATURE = u"""\
Feature: dispatch
  Scenario: first
    Given I have 3 apples
    And I have cheese
    When I have 4 pears
    But I have 5 apples
    Then 7 is odd
    And 8 is large
    And an undefined step
  Scenario: second
    Given a specific thing
    When a specific thing
    Then a specific thing
    * a specific thing
"""

STEPS = u"""\
from behave import given, when, then, step, use_step_matcher

@given(u'I have {count:d} apples')
def given_apples(ctx, count):
    print("given_apples count=%r" % count)

@step(u'I have {what}')
def generic_have(ctx, what):
    print("generic_have what=%r" % what)

use_step_matcher("re")

@when(u'I have (?P<n>\\\\d+) pears')
def when_pears(ctx, n):
    print("when_pears n=%r" % n)

@then(u'(\\\\d+) is (odd|even)')
def then_parity(ctx, number, parity):
    print("then_parity %r %r" % (number, parity))

use_step_matcher("parse")

@step(u'{x:d} is {what}')
def generic_is(ctx, x, what):
    print("generic_is %r %r" % (x, what))

@given(u'a specific thing')
def given_specific(ctx):
    print("given_specific")

@step(u'a {thing} thing')
def generic_thing(ctx, thing):
    print("generic_thing %r" % thing)

@then(u'a specific {what}')
def then_specific(ctx, what):
    print("then_specific %r" % what)
"""


def exercise_subprocess():
    print("== python -m behave")
    workdir = tempfile.mkdtemp(prefix="c11t19_")
    try:
        os.makedirs(os.path.join(workdir, "features", "steps"))
        with open(os.path.join(workdir, "features", "dispatch.feature"), "w") as f:
            f.write(FEATURE)
        with open(os.path.join(workdir, "features", "steps", "steps.py"), "w") as f:
            f.write(STEPS)
        env = dict(os.environ, PYTHONPATH="/tmp/wtW/C11", PYTHONDONTWRITEBYTECODE="1")
        for args in (["-f", "plain", "--no-capture", "--no-timings", "--no-color"],
                     ["-f", "steps.usage", "--dry-run", "--no-timings", "--no-color"],
                     ["-f", "pretty", "--no-timings", "--no-color", "--no-capture"]):
            proc = subprocess.Popen(
                [sys.executable, "-m", "behave"] + args + ["features"],
                cwd=workdir, env=env, stdout=subprocess.PIPE,
                stderr=subprocess.STDOUT, universal_newlines=True)
            output = proc.communicate()[0]
            print("  args=%r rc=%d" % (args, proc.returncode))
            output = re.sub(r"Took \d+m\d+\.\d+s", "Took <DURATION>", output)
            for line in output.replace(workdir, "<WORKDIR>").splitlines():
                print("    | " + line.rstrip())
    finally:
        shutil.rmtree(workdir, ignore_errors=True)


def main():
    exercise_canned()
    exercise_histories()
    exercise_subprocess()


if __name__ == "__main__":
    main()
