# -*- coding: UTF-8 -*-
"""
Equivalence transcript for property C18 (output capture isolates step output
and always restores the real streams).

Prints a canonical transcript of

  PART 1: child processes (python -m behave) over a generated feature set,
          for all 8 capture switch combinations, logging options, hook errors,
          nested execute_steps, KeyboardInterrupt, junit, wip mode, dry-run ...
          (bytes on the real stdout / stderr, observations made in hooks)
  PART 2: CaptureController / capture_output probes (in-process)
  PART 3: LoggingCapture / RecordFilter / @capture probes (in-process)
  PART 4: Captured arithmetic and reports (in-process)
  PART 5: Step.run against a recording fake runner, all exit paths

Run on the clean tree and on the patched tree; outputs must be identical.
"""

from __future__ import absolute_import, print_function
import sys
WORKTREE = "/tmp/wtX/C18"
sys.path.insert(0, WORKTREE)

import glob
import io
import itertools
import logging
import os
import re
import shutil
import subprocess
import tempfile
import textwrap

import behave
assert os.path.abspath(behave.__file__).startswith(WORKTREE), behave.__file__
from behave import capture as capture_module
from behave.capture import Captured, CaptureController, capture_output, add_text_to
from behave import log_capture as log_capture_module
from behave.log_capture import LoggingCapture, RecordFilter, MemoryHandler
from behave.model import Step
from behave.model_core import Status
from behave.api.pending_step import StepNotImplementedError

REAL_STDOUT = sys.stdout
REAL_STDERR = sys.stderr


def out(text=""):
    REAL_STDOUT.write(text + "\n")


def section(title):
    out("")
    out("=" * 70)
    out(title)
    out("=" * 70)


# ---------------------------------------------------------------------------
# NORMALISATION
# ---------------------------------------------------------------------------
def normalize(text, workdir=None):
    if workdir:
        text = text.replace(workdir, "<WORK>")
    text = text.replace(WORKTREE, "<TREE>")
    text = re.sub(r'line \d+', "line N", text)
    text = re.sub(r'Took \d+m[\d.]+s', "Took <T>", text)
    text = re.sub(r'\b\d+\.\d{3,}s\b', "<D>s", text)
    text = re.sub(r'time="[^"]*"', 'time="<T>"', text)
    text = re.sub(r'timestamp="[^"]*"', 'timestamp="<TS>"', text)
    text = re.sub(r'hostname="[^"]*"', 'hostname="<H>"', text)
    text = re.sub(r' in [\d.]+s', " in <D>s", text)
    text = re.sub(r'0x[0-9a-fA-F]+', "0xADDR", text)
    # -- Python 3.11+ traceback decorations (column markers).
    text = re.sub(r'\n\s*[\^~]+\s*(?=\n)', "", text)
    return text


# ---------------------------------------------------------------------------
# PART 1: CHILD PROCESSES
# ---------------------------------------------------------------------------
ENVIRONMENT_PY = '''
from __future__ import print_function
import logging
import os
import sys

OBS_FILE = os.environ["OBS_FILE"]
REAL = {}


class TaggedHandler(logging.Handler):
    def __init__(self, tag):
        logging.Handler.__init__(self)
        self.tag = tag

    def emit(self, record):
        REAL["stderr"].write("HANDLER[%s]: %s\\n" % (self.tag, record.getMessage()))


def obs(message):
    with open(OBS_FILE, "a") as f:
        f.write(message + "\\n")


def streams():
    return "stdout_is_real=%s stderr_is_real=%s" % (
        sys.stdout is REAL["stdout"], sys.stderr is REAL["stderr"])


def describe(handler):
    return "%s%s" % (type(handler).__name__,
                     "[%s]" % handler.tag if hasattr(handler, "tag") else "")


def root_state():
    root = logging.getLogger()
    named = logging.getLogger("app")
    return "root.level=%s root.handlers=%s app.handlers=%s" % (
        root.level, [describe(h) for h in root.handlers],
        [describe(h) for h in named.handlers])


def emit(tag):
    print("OUT-%s" % tag)
    print("ERR-%s" % tag, file=sys.stderr)
    logging.getLogger("app").warning("LOG-%s", tag)


def before_all(context):
    REAL["stdout"] = sys.stdout
    REAL["stderr"] = sys.stderr
    userdata = context.config.userdata
    if userdata.get("preinstall") == "yes":
        logging.getLogger().addHandler(TaggedHandler("root"))
        logging.getLogger("app").addHandler(TaggedHandler("app"))
        logging.getLogger("x.y.z")
    if userdata.get("rootlevel"):
        logging.getLogger().setLevel(int(userdata["rootlevel"]))
    obs("before_all: %s | %s" % (streams(), root_state()))


def after_all(context):
    obs("after_all: %s | %s" % (streams(), root_state()))


def before_feature(context, feature):
    obs("before_feature %s: %s | %s" % (feature.name, streams(), root_state()))


def after_feature(context, feature):
    obs("after_feature %s: %s | %s" % (feature.name, streams(), root_state()))


def before_scenario(context, scenario):
    obs("before_scenario %s: %s | %s" % (scenario.name, streams(), root_state()))
    if "continue" in scenario.tags:
        scenario.continue_after_failed_step = True
    if "hook_emits" in scenario.tags:
        emit("before_scenario:%s" % scenario.name)


def after_scenario(context, scenario):
    obs("after_scenario %s: status=%s %s | %s" % (
        scenario.name, scenario.status.name, streams(), root_state()))
    for step in scenario.all_steps:
        obs("  step %r: %s error_message=%r" % (
            step.name, step.status.name, step.error_message))


def before_step(context, step):
    obs("before_step %s: %s" % (step.name, streams()))
    tags = context.scenario.effective_tags
    if "hook_emits" in tags:
        emit("before_step:%s" % step.name)
    if "before_step_error" in tags and "hookfail" in step.name:
        raise RuntimeError("before_step oops %s" % step.name)
    if "before_step_interrupt" in tags and "hookfail" in step.name:
        raise KeyboardInterrupt()


def after_step(context, step):
    obs("after_step %s: %s %s" % (step.name, step.status.name, streams()))
    tags = context.scenario.effective_tags
    if "hook_emits" in tags:
        emit("after_step:%s" % step.name)
    if "after_step_error" in tags and "hookfail" in step.name:
        raise RuntimeError("after_step oops %s" % step.name)
'''

STEPS_PY = '''
from __future__ import print_function
import logging
import os
import sys
from behave import given, when, then, step
from behave.api.pending_step import StepNotImplementedError

OBS_FILE = os.environ["OBS_FILE"]


def obs(message):
    with open(OBS_FILE, "a") as f:
        f.write(message + "\\n")


def emit(tag):
    print("OUT-%s" % tag)
    print("ERR-%s" % tag, file=sys.stderr)
    logging.getLogger("app").warning("LOG-%s", tag)
    logging.getLogger("noisy").info("LOGN-%s", tag)
    logging.getLogger("noisy.child").error("LOGC-%s", tag)
    logging.debug("LOGR-%s", tag)


@step(u'I emit "{tag}"')
def step_emit(context, tag):
    emit(tag)


@step(u'hookfail emits "{tag}"')
def step_hookfail_emit(context, tag):
    emit(tag)


@step(u'I fail with "{tag}"')
def step_fail(context, tag):
    emit(tag)
    assert False, "boom %s" % tag


@step(u'I fail bare')
def step_fail_bare(context):
    emit("bare")
    assert False


@step(u'I raise "{tag}"')
def step_raise(context, tag):
    emit(tag)
    raise RuntimeError("kaputt %s" % tag)


@step(u'I interrupt')
def step_interrupt(context):
    emit("interrupt")
    raise KeyboardInterrupt()


@step(u'I am pending')
def step_pending(context):
    emit("pending")
    raise StepNotImplementedError("not yet")


@step(u'I run nested "{tag}"')
def step_nested(context, tag):
    emit(tag + "-pre")
    context.execute_steps(u"""
        Given I emit "%s-n1"
        When I emit "%s-n2"
    """ % (tag, tag))
    emit(tag + "-post")


@step(u'I run nested failing "{tag}"')
def step_nested_failing(context, tag):
    emit(tag + "-pre")
    context.execute_steps(u"""
        Given I emit "%s-n1"
        Then I fail with "%s-n2"
        And I emit "%s-n3"
    """ % (tag, tag, tag))
    emit(tag + "-post")


@step(u'the streams are inspected')
def step_inspect(context):
    controller = context._runner.capture_controller
    config = context.config
    obs("in-step: stdout_is_buffer=%s stderr_is_buffer=%s log_handler_installed=%s" % (
        sys.stdout is controller.stdout_capture if config.stdout_capture else None,
        sys.stderr is controller.stderr_capture if config.stderr_capture else None,
        controller.log_capture in logging.getLogger().handlers))


@step(u'the scenario is skipped')
def step_skip(context):
    emit("skip")
    context.scenario.skip("skipped by step")
'''

FEATURE_MAIN = u'''
Feature: Capture

  Scenario: A passes
    Given I emit "A1"
    When I emit "A2"
    Then the streams are inspected

  Scenario: B fails
    Given I emit "B1"
    When I emit "B2"
    Then I fail with "B3"
    And I emit "B4"

  Scenario: C raises
    Given I emit "C1"
    Then I raise "C2"

  Scenario: D passes after failures
    Given I emit "D1"

  Scenario: E nested
    Given I emit "E1"
    When I run nested "E2"
    Then I run nested failing "E3"

  Scenario: F bare assert
    Given I fail bare

  Scenario: G pending and undefined
    Given I emit "G1"
    When I am pending
    Then I emit "G3"

  Scenario: H undefined
    Given I emit "H1"
    When this step does not exist
    Then I emit "H3"

  @continue
  Scenario: I continues after failure
    Given I emit "I1"
    When I fail with "I2"
    Then I emit "I3"
    And I raise "I4"

  Scenario: J skips itself
    Given I emit "J1"
    When the scenario is skipped
    Then I emit "J3"

  Scenario: K passes at the end
    Given I emit "K1"
'''

FEATURE_HOOKS = u'''
Feature: Hooks

  @hook_emits
  Scenario: HA hooks emit and pass
    Given I emit "HA1"
    When I emit "HA2"

  @hook_emits
  Scenario: HB hooks emit and fail
    Given I emit "HB1"
    When I fail with "HB2"

  @hook_emits @before_step_error
  Scenario: HC before_step error
    Given I emit "HC1"
    When hookfail emits "HC2"
    Then I emit "HC3"

  @hook_emits @after_step_error
  Scenario: HD after_step error
    Given I emit "HD1"
    When hookfail emits "HD2"
    Then I emit "HD3"

  @after_step_error
  Scenario: HE after_step error after failure
    Given I emit "HE1"
    When hookfail emits "HE2"

  Scenario: HF passes at the end
    Given I emit "HF1"
'''

FEATURE_INTERRUPT = u'''
Feature: Interrupt

  Scenario: IA passes
    Given I emit "IA1"

  Scenario: IB interrupted
    Given I emit "IB1"
    When I interrupt
    Then I emit "IB3"

  Scenario: IC after interrupt
    Given I emit "IC1"
'''

FEATURE_HOOK_INTERRUPT = u'''
Feature: HookInterrupt

  Scenario: KA passes
    Given I emit "KA1"

  @before_step_interrupt
  Scenario: KB interrupted in hook
    Given I emit "KB1"
    When hookfail emits "KB2"
    Then I emit "KB3"

  Scenario: KC after interrupt
    Given I emit "KC1"
'''

FEATURE_WIP = u'''
Feature: Wip

  @wip
  Scenario: WA wip fails
    Given I emit "WA1"
    When I am pending

  @wip
  Scenario: WB wip passes
    Given I emit "WB1"
'''


def make_workdir():
    workdir = tempfile.mkdtemp(prefix="c18equiv_")
    workdir = os.path.realpath(workdir)
    os.makedirs(os.path.join(workdir, "features", "steps"))
    files = {
        "features/environment.py": ENVIRONMENT_PY,
        "features/steps/steps.py": STEPS_PY,
        "features/main.feature": FEATURE_MAIN,
        "features/hooks.feature": FEATURE_HOOKS,
        "features/interrupt.feature": FEATURE_INTERRUPT,
        "features/hook_interrupt.feature": FEATURE_HOOK_INTERRUPT,
        "features/wip.feature": FEATURE_WIP,
    }
    for name, contents in files.items():
        with io.open(os.path.join(workdir, name), "w", encoding="utf-8") as f:
            f.write(textwrap.dedent(contents).lstrip() if name.endswith(".py")
                    else contents.lstrip())
    return workdir


def run_behave(workdir, title, args, show_obs=True, junit=False):
    obs_file = os.path.join(workdir, "obs.log")
    if os.path.exists(obs_file):
        os.remove(obs_file)
    reports = os.path.join(workdir, "reports")
    shutil.rmtree(reports, ignore_errors=True)
    env = dict(os.environ)
    env["PYTHONPATH"] = WORKTREE
    env["OBS_FILE"] = obs_file
    env["PYTHONDONTWRITEBYTECODE"] = "1"
    env["PYTHONHASHSEED"] = "0"
    env.pop("BEHAVE_DEBUG_ON_ERROR", None)
    command = [sys.executable, "-m", "behave", "--no-color", "-T"] + args
    if junit:
        command += ["--junit", "--junit-directory", reports]
    proc = subprocess.Popen(command, cwd=workdir, env=env,
                            stdout=subprocess.PIPE, stderr=subprocess.PIPE)
    stdout, stderr = proc.communicate()
    out("-" * 70)
    out("RUN: %s :: behave %s" % (title, " ".join(args)))
    out("returncode: %s" % proc.returncode)
    out("--- child stdout:")
    out(normalize(stdout.decode("utf-8", "replace"), workdir))
    out("--- child stderr:")
    out(normalize(stderr.decode("utf-8", "replace"), workdir))
    if show_obs:
        out("--- hook observations:")
        if os.path.exists(obs_file):
            with io.open(obs_file, encoding="utf-8") as f:
                out(normalize(f.read(), workdir))
    if junit:
        out("--- junit reports:")
        for path in sorted(glob.glob(os.path.join(reports, "*.xml"))):
            out("FILE %s" % os.path.basename(path))
            with io.open(path, encoding="utf-8") as f:
                out(normalize(f.read(), workdir))


def part1_child_processes():
    section("PART 1: child processes")
    workdir = make_workdir()
    try:
        switches = [("--capture", "--no-capture"),
                    ("--capture-stderr", "--no-capture-stderr"),
                    ("--logcapture", "--no-logcapture")]
        for combo in itertools.product(*switches):
            run_behave(workdir, "main " + " ".join(combo),
                       ["-f", "plain"] + list(combo) + ["features/main.feature"])
        for combo in itertools.product(*switches):
            run_behave(workdir, "hooks " + " ".join(combo),
                       ["-f", "plain"] + list(combo) + ["features/hooks.feature"])
        for combo in (("--capture", "--capture-stderr", "--logcapture"),
                      ("--no-capture", "--no-capture-stderr", "--no-logcapture"),
                      ("--capture", "--no-capture-stderr", "--logcapture")):
            run_behave(workdir, "interrupt " + " ".join(combo),
                       ["-f", "plain"] + list(combo) + ["features/interrupt.feature"])
            run_behave(workdir, "hook-interrupt " + " ".join(combo),
                       ["-f", "plain"] + list(combo)
                       + ["features/hook_interrupt.feature"])

        # -- LOGGING OPTIONS:
        logging_variants = [
            ["--logging-level=WARNING"],
            ["--logging-level=ERROR"],
            ["--logging-level=DEBUG"],
            ["--logging-filter=app"],
            ["--logging-filter=-noisy"],
            ["--logging-filter=app,noisy.child"],
            ["--logging-filter=-app,-noisy.child"],
            ["--logging-filter=app,-noisy"],
            ["--logging-format=%(name)s|%(levelname)s|%(message)s"],
            ["--logging-format=%(asctime)s %(message)s", "--logging-datefmt=DATE"],
            ["--logging-datefmt=DATE"],
            ["--logging-clear-handlers", "-D", "preinstall=yes"],
            ["--logging-clear-handlers", "-D", "preinstall=yes", "--no-logcapture"],
            ["-D", "preinstall=yes"],
            ["-D", "preinstall=yes", "-D", "rootlevel=30"],
            ["--logging-clear-handlers", "-D", "preinstall=yes", "-D", "rootlevel=40",
             "--logging-level=INFO"],
            ["-D", "rootlevel=40", "--no-logcapture"],
        ]
        for variant in logging_variants:
            run_behave(workdir, "logging", ["-f", "plain"] + variant
                       + ["features/main.feature"])
        run_behave(workdir, "logging hooks",
                   ["-f", "plain", "--logging-clear-handlers", "-D", "preinstall=yes",
                    "features/hooks.feature"])

        # -- OTHER RUN MODES:
        run_behave(workdir, "all features, pretty", ["-f", "pretty", "features"])
        run_behave(workdir, "all features, progress", ["-f", "progress3", "features"],
                   show_obs=False)
        run_behave(workdir, "stop", ["-f", "plain", "--stop", "features/main.feature",
                                     "features/hooks.feature"])
        run_behave(workdir, "dry-run", ["-f", "plain", "--dry-run",
                                        "features/main.feature"])
        run_behave(workdir, "wip mode", ["-f", "plain", "--wip", "features"])
        run_behave(workdir, "wip feature, normal mode",
                   ["-f", "plain", "features/wip.feature"])
        run_behave(workdir, "junit", ["-f", "plain", "features/main.feature",
                                      "features/hooks.feature"], junit=True)
        run_behave(workdir, "junit, no stdout capture",
                   ["-f", "plain", "--no-capture", "features/main.feature"],
                   junit=True, show_obs=False)
        run_behave(workdir, "scenario by name",
                   ["-f", "plain", "-n", "B fails", "-n", "K passes",
                    "features/main.feature"])
        run_behave(workdir, "show-skipped off",
                   ["-f", "plain", "--no-skipped", "-n", "C raises",
                    "features/main.feature"])
    finally:
        shutil.rmtree(workdir, ignore_errors=True)


# ---------------------------------------------------------------------------
# PART 2: CaptureController
# ---------------------------------------------------------------------------
class Config(object):
    def __init__(self, **kwargs):
        self.stdout_capture = True
        self.stderr_capture = True
        self.log_capture = True
        self.logging_format = None
        self.logging_datefmt = None
        self.logging_level = None
        self.logging_filter = None
        self.logging_clear_handlers = False
        self.__dict__.update(kwargs)


class Namespace(object):
    def __init__(self, **kwargs):
        self.__dict__.update(kwargs)


class FakeStream(object):
    def __init__(self, name, truth=True):
        self.name = name
        self.truth = truth
        self.data = []

    def write(self, text):
        self.data.append(text)

    def flush(self):
        pass

    def __bool__(self):
        return self.truth
    __nonzero__ = __bool__

    def __repr__(self):
        return "<FakeStream %s>" % self.name


def reset_logging():
    root = logging.getLogger()
    root.handlers[:] = []
    root.setLevel(logging.WARNING)
    logging.Logger.manager.loggerDict.clear()


def name_of(obj, controller, fakes):
    if obj is None:
        return "None"
    if obj is controller.stdout_capture:
        return "stdout_capture"
    if obj is controller.stderr_capture:
        return "stderr_capture"
    for fake in fakes:
        if obj is fake:
            return repr(fake)
    if obj is REAL_STDOUT:
        return "REAL_STDOUT"
    if obj is REAL_STDERR:
        return "REAL_STDERR"
    return "other:%s" % type(obj).__name__


def controller_state(controller, fakes):
    return "sys.stdout=%s sys.stderr=%s old_stdout=%s old_stderr=%s" % (
        name_of(sys.stdout, controller, fakes),
        name_of(sys.stderr, controller, fakes),
        name_of(controller.old_stdout, controller, fakes),
        name_of(controller.old_stderr, controller, fakes))


def attempt(label, func, *args):
    try:
        result = func(*args)
        return "%s -> ok %r" % (label, result)
    except BaseException as e:  # pylint: disable=broad-except
        context = getattr(e, "__context__", None)
        return "%s -> %s(%s) context=%s" % (
            label, type(e).__name__, e, type(context).__name__)


def show_captured(captured):
    return "Captured(stdout=%r, stderr=%r, log_output=%r) bool=%s" % (
        captured.stdout, captured.stderr, captured.log_output, bool(captured))


def part2_capture_controller():
    section("PART 2: CaptureController")
    for so, se, lc in itertools.product((True, False), repeat=3):
        reset_logging()
        out("-- config stdout=%s stderr=%s log=%s" % (so, se, lc))
        fake_out = FakeStream("out")
        fake_err = FakeStream("err")
        fakes = [fake_out, fake_err]
        sys.stdout, sys.stderr = fake_out, fake_err
        try:
            config = Config(stdout_capture=so, stderr_capture=se, log_capture=lc)
            controller = CaptureController(config)
            out("initial: " + controller_state(controller, fakes))
            out("captured before setup: " + show_captured(controller.captured))
            out(attempt("stop before setup", controller.stop_capture))
            out("state: " + controller_state(controller, fakes))
            context = Namespace()
            out(attempt("setup", controller.setup_capture, context))
            out("context attrs: %s" % sorted(context.__dict__))
            out("context shares buffers: %s" % [
                getattr(context, name, None) is getattr(controller, name)
                for name in ("stdout_capture", "stderr_capture", "log_capture")])
            out("root handlers: %s level=%s" % (
                [type(h).__name__ for h in logging.getLogger().handlers],
                logging.getLogger().level))
            out("captured after setup: " + show_captured(controller.captured))
            out(attempt("start", controller.start_capture))
            out("state: " + controller_state(controller, fakes))
            sys.stdout.write("one-out\n")
            sys.stderr.write("one-err\n")
            logging.getLogger("foo").warning("one-log")
            out(attempt("start (nested)", controller.start_capture))
            out("state: " + controller_state(controller, fakes))
            sys.stdout.write("two-out\n")
            sys.stderr.write("two-err\n")
            logging.getLogger("foo.bar").error("two-log")
            out(attempt("stop", controller.stop_capture))
            out("state: " + controller_state(controller, fakes))
            sys.stdout.write("three-out\n")
            sys.stderr.write("three-err\n")
            out(attempt("stop (again)", controller.stop_capture))
            out("state: " + controller_state(controller, fakes))
            out("captured: " + show_captured(controller.captured))
            out("report: %r" % controller.make_capture_report())
            out("passed through: out=%r err=%r" % (fake_out.data, fake_err.data))
            # -- SECOND ROUND ON SAME BUFFERS, THEN NEW SETUP:
            out(attempt("start 2", controller.start_capture))
            sys.stdout.write("four-out\n")
            sys.stderr.write("four-err\n")
            out(attempt("stop 2", controller.stop_capture))
            out("captured: " + show_captured(controller.captured))
            old_buffers = (controller.stdout_capture, controller.stderr_capture,
                           controller.log_capture)
            out(attempt("teardown", controller.teardown_capture))
            out("root handlers: %s level=%s" % (
                [type(h).__name__ for h in logging.getLogger().handlers],
                logging.getLogger().level))
            out(attempt("setup 2", controller.setup_capture, context))
            out("new buffers: %s" % [
                (new is not old) for new, old in zip(
                    (controller.stdout_capture, controller.stderr_capture,
                     controller.log_capture), old_buffers)])
            out("captured after setup 2: " + show_captured(controller.captured))
            out(attempt("teardown 2", controller.teardown_capture))
            out("state: " + controller_state(controller, fakes))
        finally:
            sys.stdout, sys.stderr = REAL_STDOUT, REAL_STDERR

    out("-- boundary: start without setup_capture")
    for so, se in itertools.product((True, False), repeat=2):
        fake_out, fake_err = FakeStream("out"), FakeStream("err")
        fakes = [fake_out, fake_err]
        sys.stdout, sys.stderr = fake_out, fake_err
        try:
            controller = CaptureController(
                Config(stdout_capture=so, stderr_capture=se, log_capture=False))
            out(attempt("start %s %s" % (so, se), controller.start_capture))
            state = controller_state(controller, fakes)
            result = attempt("stop", controller.stop_capture)
            state2 = controller_state(controller, fakes)
        finally:
            sys.stdout, sys.stderr = REAL_STDOUT, REAL_STDERR
        out("state: " + state)
        out(result)
        out("state: " + state2)

    out("-- boundary: teardown without setup (log_capture on)")
    controller = CaptureController(Config())
    out(attempt("teardown", controller.teardown_capture))
    controller = CaptureController(Config(log_capture=False))
    out(attempt("teardown", controller.teardown_capture))
    out(attempt("setup(None)", controller.setup_capture, None))

    out("-- boundary: falsy real streams")
    for which in ("stdout", "stderr", "both"):
        reset_logging()
        fake_out = FakeStream("out", truth=which not in ("stdout", "both"))
        fake_err = FakeStream("err", truth=which not in ("stderr", "both"))
        fakes = [fake_out, fake_err]
        sys.stdout, sys.stderr = fake_out, fake_err
        lines = []
        try:
            controller = CaptureController(Config(log_capture=False))
            controller.setup_capture(Namespace())
            lines.append(attempt("start", controller.start_capture))
            lines.append(controller_state(controller, fakes))
            lines.append(attempt("start again", controller.start_capture))
            lines.append(controller_state(controller, fakes))
            lines.append(attempt("stop", controller.stop_capture))
            lines.append(controller_state(controller, fakes))
        finally:
            sys.stdout, sys.stderr = REAL_STDOUT, REAL_STDERR
        out("falsy=%s" % which)
        for line in lines:
            out("  " + line)

    out("-- boundary: user replaces sys.stdout / sys.stderr while capturing")
    for which in ("stdout", "stderr"):
        fake_out, fake_err = FakeStream("out"), FakeStream("err")
        intruder = FakeStream("intruder")
        fakes = [fake_out, fake_err, intruder]
        sys.stdout, sys.stderr = fake_out, fake_err
        lines = []
        try:
            controller = CaptureController(Config(log_capture=False))
            controller.setup_capture(Namespace())
            controller.start_capture()
            setattr(sys, which, intruder)
            lines.append(attempt("start again", controller.start_capture))
            lines.append(controller_state(controller, fakes))
            lines.append(attempt("stop", controller.stop_capture))
            lines.append(controller_state(controller, fakes))
            # -- NOT CAPTURING, BUT sys.<stream> IS THE BUFFER:
            setattr(sys, which, getattr(controller, which + "_capture"))
            lines.append(attempt("stop while buffer installed",
                                 controller.stop_capture))
            lines.append(controller_state(controller, fakes))
        finally:
            sys.stdout, sys.stderr = REAL_STDOUT, REAL_STDERR
        out("replaced=%s" % which)
        for line in lines:
            out("  " + line)

    out("-- capture_output context manager")
    for enabled in (True, False):
        for raising in (None, ValueError("inner"), KeyboardInterrupt(),
                        StopIteration("stop")):
            fake_out, fake_err = FakeStream("out"), FakeStream("err")
            fakes = [fake_out, fake_err]
            sys.stdout, sys.stderr = fake_out, fake_err
            lines = []
            try:
                controller = CaptureController(Config(log_capture=False))
                controller.setup_capture(Namespace())

                def body():
                    with capture_output(controller, enabled=enabled):
                        lines.append("inside: " + controller_state(controller, fakes))
                        sys.stdout.write("cm-out")
                        sys.stderr.write("cm-err")
                        if raising is not None:
                            raise raising
                    return "done"
                lines.append(attempt("with", body))
                lines.append("after: " + controller_state(controller, fakes))
                lines.append(show_captured(controller.captured))
                lines.append("passed through: %r %r" % (fake_out.data, fake_err.data))
            finally:
                sys.stdout, sys.stderr = REAL_STDOUT, REAL_STDERR
            out("enabled=%s raising=%r" % (enabled, raising))
            for line in lines:
                out("  " + line)

    out("-- public names")
    out("capture module: %s" % sorted(
        name for name in dir(capture_module) if not name.startswith("_")))
    out("CaptureController: %s" % sorted(
        name for name in dir(CaptureController) if not name.startswith("_")))
    out("Captured: %s" % sorted(
        name for name in dir(Captured) if not name.startswith("_")))


# ---------------------------------------------------------------------------
# PART 3: LoggingCapture
# ---------------------------------------------------------------------------
class NamedHandler(logging.Handler):
    def __init__(self, tag):
        logging.Handler.__init__(self)
        self.tag = tag
        self.seen = []

    def emit(self, record):
        self.seen.append(record.getMessage())

    def __repr__(self):
        return "<H %s>" % self.tag


def describe_handler(handler, known):
    for name, obj in known.items():
        if handler is obj:
            return name
    if isinstance(handler, NamedHandler):
        return repr(handler)
    return type(handler).__name__


def logging_state(known):
    root = logging.getLogger()
    parts = ["root(level=%s): %s" % (
        root.level, [describe_handler(h, known) for h in root.handlers])]
    for name in sorted(logging.Logger.manager.loggerDict):
        logger = logging.Logger.manager.loggerDict[name]
        if hasattr(logger, "handlers"):
            parts.append("%s(level=%s): %s" % (
                name, logger.level,
                [describe_handler(h, known) for h in logger.handlers]))
        else:
            parts.append("%s: placeholder" % name)
    return "; ".join(parts)


def old_handlers_of(handler, known):
    return [("root" if logger is logging.getLogger() else logger.name,
             describe_handler(h, known)) for logger, h in handler.old_handlers]


def emit_samples():
    logging.getLogger().debug("root-debug")
    logging.getLogger().warning("root-warning")
    logging.getLogger("app").info("app-info %s", 1)
    logging.getLogger("app").error("app-error")
    logging.getLogger("app.db").critical("db-critical")
    logging.getLogger("noisy").warning("noisy-warning")


def part3_logging_capture():
    section("PART 3: LoggingCapture / RecordFilter")
    out("-- constructor variants")
    configs = [
        {},
        {"logging_format": "%(name)s|%(levelname)s|%(message)s"},
        {"logging_format": ""},
        {"logging_format": "%(asctime)s %(message)s", "logging_datefmt": "DATE"},
        {"logging_datefmt": "DATE"},
        {"logging_datefmt": ""},
        {"logging_level": logging.WARNING},
        {"logging_level": logging.ERROR},
        {"logging_level": 0},
        {"logging_filter": "app"},
        {"logging_filter": "-noisy"},
        {"logging_filter": "app,noisy"},
        {"logging_filter": "app,-noisy"},
        {"logging_filter": "-app,-app.db"},
        {"logging_filter": ""},
        {"logging_filter": "app,,noisy"},
        {"logging_filter": "-"},
    ]
    for kwargs in configs:
        for level in (None, logging.ERROR, 0):
            reset_logging()
            label = "config=%s level=%r" % (sorted(kwargs.items()), level)
            try:
                handler = LoggingCapture(Config(**kwargs), level=level)
            except Exception as e:  # pylint: disable=broad-except
                out("%s -> %s(%s)" % (label, type(e).__name__, e))
                continue
            out(label)
            out("  handler.level=%r old_level=%r old_handlers=%r bool=%s capacity=%s"
                % (handler.level, handler.old_level, handler.old_handlers,
                   bool(handler), handler.capacity))
            out("  formatter fmt=%r datefmt=%r filters=%s" % (
                handler.formatter._fmt, handler.formatter.datefmt,
                [(type(f).__name__, sorted(f.include), sorted(f.exclude))
                 for f in handler.filters]))
            out("  " + attempt("inveigle", handler.inveigle))
            out("  root.level=%r old_level=%r" % (
                logging.getLogger().level, handler.old_level))
            emit_samples()
            out("  getvalue=%r" % handler.getvalue())
            out("  bool=%s any_errors=%s find(app)=%s find(zzz)=%s" % (
                bool(handler), handler.any_errors(), handler.find_event("app-.*"),
                handler.find_event("zzz")))
            out("  " + attempt("abandon", handler.abandon))
            out("  root.level=%r old_level=%r handlers=%s" % (
                logging.getLogger().level, handler.old_level,
                logging.getLogger().handlers))
            handler.truncate()
            out("  after truncate: getvalue=%r bool=%s" % (
                handler.getvalue(), bool(handler)))

    out("-- inveigle / abandon with pre-existing handlers")
    for clear, root_level, with_stale in itertools.product(
            (False, True), (logging.WARNING, logging.DEBUG, 0), (False, True)):
        reset_logging()
        known = {}
        root = logging.getLogger()
        root.setLevel(root_level)
        h_root1, h_root2 = NamedHandler("root1"), NamedHandler("root2")
        h_app, h_db, h_shared = (NamedHandler("app"), NamedHandler("db"),
                                 NamedHandler("shared"))
        root.addHandler(h_root1)
        stale = None
        if with_stale:
            stale = LoggingCapture(Config())
            known["stale"] = stale
            root.addHandler(stale)
        root.addHandler(h_root2)
        logging.getLogger("app").addHandler(h_app)
        logging.getLogger("app").addHandler(h_shared)
        logging.getLogger("app.db.deep").addHandler(h_db)
        logging.getLogger("app.db.deep").addHandler(h_shared)
        logging.getLogger("x.y.z")        # -- placeholders: x, x.y
        logging.getLogger("quiet")
        config = Config(logging_clear_handlers=clear, logging_level=logging.INFO)
        out("clear=%s root_level=%s stale=%s" % (clear, root_level, with_stale))
        out("  before: " + logging_state(known))
        handler = LoggingCapture(config)
        known["capture"] = handler
        handler.inveigle()
        out("  inveigled: " + logging_state(known))
        out("  old_handlers=%s old_level=%r" % (
            old_handlers_of(handler, known), handler.old_level))
        emit_samples()
        logging.getLogger("app.db.deep").warning("deep-warning")
        out("  getvalue=%r" % handler.getvalue())
        out("  seen: %s" % [(h.tag, h.seen) for h in
                             (h_root1, h_root2, h_app, h_db, h_shared)])
        # -- SECOND CAPTURE ON TOP (as in nested setup_capture calls):
        second = LoggingCapture(config)
        known["second"] = second
        second.inveigle()
        out("  second inveigled: " + logging_state(known))
        out("  second old_handlers=%s old_level=%r" % (
            old_handlers_of(second, known), second.old_level))
        second.abandon()
        out("  second abandoned: " + logging_state(known))
        handler.abandon()
        out("  abandoned: " + logging_state(known))
        out("  old_handlers=%s old_level=%r" % (
            old_handlers_of(handler, known), handler.old_level))
        handler.abandon()
        out("  abandoned twice: " + logging_state(known))
        emit_samples()
        out("  seen: %s" % [(h.tag, h.seen) for h in
                             (h_root1, h_root2, h_app, h_db, h_shared)])
        # -- RE-USE:
        handler.inveigle()
        out("  re-inveigled: " + logging_state(known))
        out("  old_handlers=%s old_level=%r" % (
            old_handlers_of(handler, known), handler.old_level))
        handler.abandon()
        out("  re-abandoned: " + logging_state(known))

    out("-- handler installed twice on the root logger (list manipulated directly)")
    reset_logging()
    handler = LoggingCapture(Config())
    other = NamedHandler("other")
    handler.inveigle()
    logging.getLogger().handlers.extend([other, handler])
    known = {"capture": handler}
    out("  before: " + logging_state(known))
    handler.abandon()
    out("  abandoned: " + logging_state(known))

    out("-- RecordFilter")
    for names in ("app", "-app", "app,noisy", "app,-noisy", "-app,-noisy", "a,-",
                  "", ",", "app,", "-app,", " app", "app.db"):
        try:
            record_filter = RecordFilter(names)
        except Exception as e:  # pylint: disable=broad-except
            out("%r -> %s(%s)" % (names, type(e).__name__, e))
            continue
        results = []
        for logger_name in ("app", "noisy", "app.db", "root", "", " app"):
            record = logging.LogRecord(logger_name, logging.INFO, "file", 1, "msg",
                                       (), None)
            results.append((logger_name, record_filter.filter(record)))
        out("%r -> include=%s exclude=%s %s" % (
            names, sorted(record_filter.include), sorted(record_filter.exclude),
            results))

    out("-- @capture decorator")
    from behave.log_capture import capture as log_capture_decorator
    for level_kw in (None, {"level": logging.ERROR}, {}):
        for raising in (False, True):
            reset_logging()
            root = logging.getLogger()
            pre = NamedHandler("pre")
            root.addHandler(pre)
            calls = []

            def hook(context, *args):
                calls.append(args)
                logging.getLogger("hook").warning("hook-warning")
                logging.getLogger("hook").error("hook-error")
                if raising:
                    raise ValueError("hook failed")
                return "hook-result"
            if level_kw is None:
                decorated = log_capture_decorator(hook)
            else:
                decorated = log_capture_decorator(**level_kw)(hook)
            context = Namespace(config=Config(logging_clear_handlers=True))
            fake_out = FakeStream("out")
            sys.stdout = fake_out
            try:
                result = attempt("call", decorated, context, 1, 2)
            finally:
                sys.stdout = REAL_STDOUT
            out("level_kw=%r raising=%s: %s calls=%s printed=%r" % (
                level_kw, raising, result, calls, "".join(fake_out.data)))
            out("  " + logging_state({"pre": pre}))
    out("MemoryHandler is LoggingCapture: %s" % (MemoryHandler is LoggingCapture))
    out("log_capture module: %s" % sorted(
        name for name in dir(log_capture_module) if not name.startswith("_")))
    out("LoggingCapture own names: %s" % sorted(
        name for name in vars(LoggingCapture) if not name.startswith("_")))
    reset_logging()


# ---------------------------------------------------------------------------
# PART 4: Captured
# ---------------------------------------------------------------------------
def part4_captured():
    section("PART 4: Captured")
    samples = [None, u"", u"text", u"line1\nline2\n", u"  padded  \n\n", u"\n",
               u"caf\xe9 ☃"]
    for stdout, stderr, log_output in itertools.product(samples, repeat=3):
        captured = Captured(stdout, stderr, log_output)
        out("%r %r %r -> bool=%s output=%r report=%r" % (
            stdout, stderr, log_output, bool(captured), captured.output,
            captured.make_report()))
    out("-- bytes input")
    captured = Captured(b"bytes-out \n", b"bytes-err", b"bytes-log\n")
    out("report=%r" % captured.make_report())
    out("-- add / + / +=")
    pairs = [(u"a", u"b"), (u"a\n", u"b"), (u"", u"b"), (u"a", u""), (None, None),
             (u"a\n\n", u"\nb")]
    for (one, two) in pairs:
        first = Captured(one, one, one)
        second = Captured(two, None, two)
        third = first + second
        out("%r + %r -> %s | first unchanged: %s" % (
            one, two, show_captured(third), show_captured(first)))
        alias = first
        first += second
        out("  += -> %s same object: %s" % (show_captured(first), first is alias))
        out("  add returns self: %s" % (first.add(Captured()) is first))
        first.reset()
        out("  reset -> %s" % show_captured(first))
    out(attempt("add(non-captured)", Captured().add, "text"))
    out("-- add_text_to")
    for value, more, sep in itertools.product(
            (u"", u"a", u"a\n", u"a--"), (u"", u"b", None), (u"\n", u"--", u"", None)):
        out("%r %r %r -> %r" % (value, more, sep, add_text_to(value, more, sep)))


# ---------------------------------------------------------------------------
# PART 5: Step.run with a recording fake runner
# ---------------------------------------------------------------------------
class FakeMatch(object):
    def __init__(self, log, behaviour, step):
        self.log = log
        self.behaviour = behaviour
        self.step = step

    def run(self, context):
        self.log.append("match.run text=%r table=%r" % (context.text, context.table))
        sys.stdout.write("STEP-OUT\n")
        behaviour = self.behaviour
        if behaviour == "pass":
            return
        if behaviour == "assert":
            assert False, "boom"
        if behaviour == "assert-bare":
            raise AssertionError()
        if behaviour == "error":
            raise RuntimeError("kaputt")
        if behaviour == "interrupt":
            raise KeyboardInterrupt()
        if behaviour == "pending":
            raise StepNotImplementedError("not yet")
        if behaviour == "pending-bare":
            raise StepNotImplementedError()
        if behaviour == "skip":
            self.step.status = Status.skipped
            return
        if behaviour == "systemexit":
            raise SystemExit(3)
        if behaviour == "stopiteration":
            raise StopIteration("done")
        if behaviour == "generatorexit":
            raise GeneratorExit()
        raise ValueError(behaviour)


class FakeFormatter(object):
    def __init__(self, log, name):
        self.log = log
        self.name = name

    def match(self, match):
        self.log.append("%s.match(%s)" % (self.name, type(match).__name__))

    def result(self, step):
        self.log.append("%s.result(status=%s, error_message=%r)" % (
            self.name, step.status.name, normalize(step.error_message or u"")
            if step.error_message is not None else None))


class FakeRegistry(object):
    def __init__(self, match):
        self.match = match

    def find_match(self, step):
        return self.match


class FakeRunner(object):
    def __init__(self, log, behaviour, step, hooks=None, dry_run=False,
                 wip_scenario=False, start_raises=None, stop_raises=None,
                 report=None, defined=True):
        self.log = log
        self.config = Namespace(dry_run=dry_run)
        self.context = Namespace(text="OLD", table="OLD")
        if wip_scenario:
            self.context.scenario = Namespace(effective_tags=["wip"])
        self.step_registry = FakeRegistry(
            FakeMatch(log, behaviour, step) if defined else None)
        self.formatters = [FakeFormatter(log, "f1"), FakeFormatter(log, "f2")]
        self.undefined_steps = []
        self.hooks = hooks or {}
        self.start_raises = start_raises
        self.stop_raises = stop_raises
        self.aborted = False
        self.capturing = 0
        stdout, stderr, log_output = report or (None, None, None)
        self.capture_controller = Namespace(
            captured=Captured(stdout, stderr, log_output))

    def start_capture(self):
        self.log.append("start_capture")
        if self.start_raises:
            raise self.start_raises
        self.capturing += 1

    def stop_capture(self):
        self.log.append("stop_capture (exc_info=%s)" % (
            getattr(sys.exc_info()[0], "__name__", None),))
        if self.stop_raises:
            raise self.stop_raises
        self.capturing -= 1

    def run_hook(self, name, context, *args):
        self.log.append("run_hook %s capturing=%s status=%s" % (
            name, self.capturing, args[0].status.name))
        action = self.hooks.get(name)
        if action is None:
            return
        if action == "hook_failed":
            args[0].hook_failed = True
            args[0].error_message = u"HOOK-ERROR in %s" % name
        elif isinstance(action, BaseException):
            raise action

    def abort(self, reason=""):
        self.log.append("abort(%s)" % reason)
        self.aborted = True


def run_step_case(label, capture=True, quiet=False, **kwargs):
    log = []
    step = Step("some.feature", 7, u"Given", "given", u"a step", text=u"TEXT",
                table=None)
    behaviour = kwargs.pop("behaviour", "pass")
    runner = FakeRunner(log, behaviour, step, **kwargs)
    fake_out = FakeStream("out")
    sys.stdout = fake_out
    try:
        try:
            result = "returned %r" % step.run(runner, quiet=quiet, capture=capture)
        except BaseException as e:  # pylint: disable=broad-except
            context = getattr(e, "__context__", None)
            result = "raised %s(%s) context=%s(%s)" % (
                type(e).__name__, e, type(context).__name__, context)
    finally:
        sys.stdout = REAL_STDOUT
    out("CASE %s capture=%s quiet=%s" % (label, capture, quiet))
    out("  " + result)
    out("  status=%s hook_failed=%s capturing_balance=%s aborted=%s undefined=%d"
        % (step.status.name, step.hook_failed, runner.capturing, runner.aborted,
           len(runner.undefined_steps)))
    out("  duration_type=%s nonnegative=%s" % (
        type(step.duration).__name__, step.duration >= 0))
    error_message = step.error_message
    out("  error_message=%r" % (normalize(error_message)
                                if error_message is not None else None))
    out("  exception=%s has_traceback=%s" % (
        type(step.exception).__name__, step.exc_traceback is not None))
    out("  step.captured=%s same_as_controller=%s" % (
        show_captured(step.captured),
        step.captured is runner.capture_controller.captured))
    out("  context.text=%r context.table=%r" % (
        runner.context.text, runner.context.table))
    for entry in log:
        out("    | " + entry)


def part5_step_run():
    section("PART 5: Step.run exit paths")
    behaviours = ["pass", "assert", "assert-bare", "error", "interrupt", "pending",
                  "pending-bare", "skip", "systemexit", "stopiteration",
                  "generatorexit"]
    reports = [None, (u"OUT\n", None, None), (u"OUT", u"ERR\n", u"LOG")]
    for behaviour in behaviours:
        for capture, quiet in itertools.product((True, False), repeat=2):
            for report in reports:
                run_step_case("behaviour=%s report=%r" % (behaviour, report),
                              capture=capture, quiet=quiet, behaviour=behaviour,
                              report=report)
    for capture in (True, False):
        run_step_case("undefined", capture=capture, defined=False)
        run_step_case("undefined quiet", capture=capture, quiet=True, defined=False)
        run_step_case("undefined dry-run", capture=capture, defined=False,
                      dry_run=True)
        run_step_case("pending dry-run", capture=capture, behaviour="pending",
                      dry_run=True)
        run_step_case("pending wip", capture=capture, behaviour="pending",
                      wip_scenario=True)
        run_step_case("pass wip", capture=capture, behaviour="pass",
                      wip_scenario=True)
        hook_actions = [
            "hook_failed", RuntimeError("hook oops"), KeyboardInterrupt(),
            SystemExit(2), StopIteration("hook stop"), GeneratorExit(),
            AssertionError("hook assert"),
        ]
        for hook_name in ("before_step", "after_step"):
            for action in hook_actions:
                for behaviour in ("pass", "assert", "interrupt"):
                    run_step_case(
                        "hook %s=%r behaviour=%s" % (hook_name, action, behaviour),
                        capture=capture, behaviour=behaviour,
                        hooks={hook_name: action}, report=(u"OUT", None, u"LOG"))
        run_step_case("both hooks fail", capture=capture,
                      hooks={"before_step": "hook_failed",
                             "after_step": "hook_failed"})
        # -- start_capture / stop_capture RAISE:
        for exc in (AssertionError(), RuntimeError("start failed"),
                    KeyboardInterrupt()):
            run_step_case("start_capture raises %r" % exc, capture=capture,
                          start_raises=exc)
        for exc in (AssertionError(), RuntimeError("stop failed"),
                    StopIteration("stop stop")):
            for behaviour in ("pass", "assert", "interrupt"):
                run_step_case("stop_capture raises %r behaviour=%s" % (
                    exc, behaviour), capture=capture, behaviour=behaviour,
                    stop_raises=exc)
            run_step_case("stop_capture raises %r, hook interrupts" % exc,
                          capture=capture, stop_raises=exc,
                          hooks={"after_step": KeyboardInterrupt()})
            run_step_case("stop_capture raises %r, hook StopIteration" % exc,
                          capture=capture, stop_raises=exc,
                          hooks={"before_step": StopIteration("hook stop")})
    # -- RE-RUN SAME STEP (reset between runs):
    log = []
    step = Step("some.feature", 7, u"Given", "given", u"a step")
    for behaviour in ("assert", "pass", "error", "pass"):
        runner = FakeRunner(log, behaviour, step, report=(u"OUT", None, None))
        fake_out = FakeStream("out")
        sys.stdout = fake_out
        try:
            result = step.run(runner)
        finally:
            sys.stdout = REAL_STDOUT
        out("rerun %s -> %r status=%s error_message=%r captured=%s" % (
            behaviour, result, step.status.name,
            normalize(step.error_message) if step.error_message else
            step.error_message, show_captured(step.captured)))


def main():
    part2_capture_controller()
    part3_logging_capture()
    part4_captured()
    part5_step_run()
    part1_child_processes()
    assert sys.stdout is REAL_STDOUT and sys.stderr is REAL_STDERR


if __name__ == "__main__":
    main()
