# -*- coding: utf-8 -*-
# Shared harness core (copied verbatim into every equiv.py so each is self-contained).
from __future__ import print_function, unicode_literals
import sys
sys.path.insert(0, "/tmp/wtU/C09")
import io
import logging
import contextlib

import behave
assert behave.__file__.startswith("/tmp/wtU/C09/"), behave.__file__
from behave.configuration import Configuration
from behave.runner import ModelRunner
from behave.parser import parse_feature
from behave.step_registry import StepRegistry
from behave.model_core import Status
from behave.tag_expression import TagExpressionProtocol
from behave import model as M

OUT = []


def emit(text=""):
    OUT.append(text)


# -- STEP REGISTRY with logging step functions -------------------------------
CALLS = []
REGISTRY = StepRegistry()
_step = REGISTRY.make_decorator("step")


@_step(u'a step passes')
def step_passes(ctx):
    CALLS.append("STEP passes")


@_step(u'another step passes')
def step_passes2(ctx):
    CALLS.append("STEP another-passes")


@_step(u'a step fails')
def step_fails(ctx):
    CALLS.append("STEP fails")
    assert False, "XFAIL"


@_step(u'a background step passes')
def step_bg(ctx):
    CALLS.append("STEP background")


@_step(u'I use "{value}"')
def step_use(ctx, value):
    CALLS.append("STEP use %s" % value)


@_step(u'the scenario skips itself')
def step_skip_self(ctx):
    CALLS.append("STEP skip-self")
    ctx.scenario.skip("SELF")


class LogFormatter(object):
    """Records every formatter callback."""
    name = "log"

    def uri(self, uri):
        CALLS.append("FMT uri %s" % uri)

    def feature(self, feature):
        CALLS.append("FMT feature %s" % feature.name)

    def rule(self, rule):
        CALLS.append("FMT rule %s" % rule.name)

    def rule_finished(self):
        CALLS.append("FMT rule_finished")

    def background(self, background):
        CALLS.append("FMT background %s" % background.name)

    def scenario(self, scenario):
        CALLS.append("FMT scenario %s" % scenario.name)

    def step(self, step):
        CALLS.append("FMT step %s" % step.name)

    def match(self, match):
        CALLS.append("FMT match %s" % type(match).__name__)

    def result(self, step):
        CALLS.append("FMT result %s %s" % (step.name, step.status.name))

    def eof(self):
        CALLS.append("FMT eof")

    def close(self):
        CALLS.append("FMT close")


class LogReporter(object):
    def feature(self, feature):
        CALLS.append("REP feature %s %s" % (feature.name, feature.status.name))

    def end(self):
        CALLS.append("REP end")


def make_hooks(mode=None):
    """Hooks that log every call; 'mode' adds special behaviour."""
    def tagstr(ctx):
        return ",".join(sorted(ctx.tags))

    def before_all(ctx):
        CALLS.append("HOOK before_all")

    def after_all(ctx):
        CALLS.append("HOOK after_all")

    def before_feature(ctx, feature):
        CALLS.append("HOOK before_feature %s [%s]" % (feature.name, tagstr(ctx)))
        if mode == "skip_feature_in_hook" and "hookskip" in feature.tags:
            feature.skip("HOOK-SKIP")
        if mode == "mark_feature_in_hook" and "hookskip" in feature.tags:
            feature.mark_skipped()
        if mode == "fail_feature_hook" and "hookskip" in feature.tags:
            raise RuntimeError("FEATURE-HOOK-OOPS")

    def after_feature(ctx, feature):
        CALLS.append("HOOK after_feature %s %s" % (feature.name, feature.status.name))

    def before_rule(ctx, rule):
        CALLS.append("HOOK before_rule %s [%s]" % (rule.name, tagstr(ctx)))
        if mode == "skip_rule_in_hook" and "rskip" in rule.tags:
            rule.skip("RULE-HOOK-SKIP")

    def after_rule(ctx, rule):
        CALLS.append("HOOK after_rule %s %s" % (rule.name, rule.status.name))

    def before_scenario(ctx, scenario):
        CALLS.append("HOOK before_scenario %s [%s]" % (scenario.name, tagstr(ctx)))
        if mode == "skip_scenario_in_hook" and "sskip" in scenario.effective_tags:
            scenario.skip("SCENARIO-HOOK-SKIP")
        if mode == "mark_scenario_in_hook" and "sskip" in scenario.effective_tags:
            scenario.mark_skipped()
        if mode == "fail_scenario_hook" and "sskip" in scenario.effective_tags:
            raise RuntimeError("SCENARIO-HOOK-OOPS")

    def after_scenario(ctx, scenario):
        CALLS.append("HOOK after_scenario %s %s" % (scenario.name, scenario.status.name))
        if mode == "fail_after_scenario" and "sskip" in scenario.effective_tags:
            raise RuntimeError("AFTER-SCENARIO-OOPS")

    def before_step(ctx, step):
        CALLS.append("HOOK before_step %s" % step.name)

    def after_step(ctx, step):
        CALLS.append("HOOK after_step %s %s" % (step.name, step.status.name))

    def before_tag(ctx, tag):
        CALLS.append("HOOK before_tag %s" % tag)

    def after_tag(ctx, tag):
        CALLS.append("HOOK after_tag %s" % tag)

    return dict((k, v) for k, v in locals().items()
                if k.startswith("before_") or k.startswith("after_"))


# -- FEATURE TEXTS --------------------------------------------------------------
FEATURES = {}
FEATURES["plain"] = u'''
@f1 @common
Feature: Plain
  Background: BG
    Given a background step passes

  @s1 @sskip
  Scenario: P1
    Given a step passes
    When another step passes

  @s2
  Scenario: P2
    Given a step fails
    Then a step passes

  Scenario: P3 untagged
    Given a step passes

  @s4 @wip.one
  Scenario: P4 without steps
'''
FEATURES["rules"] = u'''
@f2 @hookskip
Feature: WithRules

  @s0
  Scenario: R0 before rules
    Given a step passes

  @r1 @rskip
  Rule: Rule One
    Background: RBG
      Given a background step passes

    @s1
    Scenario: R1.1
      Given a step passes

    Scenario: R1.2 untagged
      Given another step passes

  @r2
  Rule: Rule Two
    @s1 @sskip
    Scenario: R2.1
      Given a step passes
      And an undefined step is here

    @o1 @param_<name>
    Scenario Outline: R2.O <name>
      Given I use "<name>"

      @e1
      Examples: First
        | name  |
        | alice |
        | bob   |

      @e2 @s1
      Examples: Second
        | name  |
        | carol |

  @r3
  Rule: Rule Three empty
'''
FEATURES["outline"] = u'''
@f3
Feature: Outlines

  @o1 @tag_<kind> @unknown_<nothing> @fixed
  Scenario Outline: O1 <kind>-<n>
    Given I use "<kind>"
    When a step passes

    @e1 @sskip
    Examples: Alpha <kind>
      | kind | n |
      | x    | 1 |
      | y    | 2 |

    Examples: Untagged
      | kind | n |
      | z    | 3 |

  @o2
  Scenario Outline: O2 no examples
    Given a step passes

  @o3
  Scenario Template: O3 <v>
    Given the scenario skips itself
    Then a step passes

    @e3
    Examples: E3
      | v |
      | 1 |
      | 2 |
'''
FEATURES["empty"] = u'''
@f4 @empty
Feature: Empty feature
'''
FEATURES["single"] = u'''
Feature: Untagged feature
  Scenario: U1
    Given a step passes
  @only
  Scenario: U2
    Given a step passes
    And a step fails
    And another step passes
'''

TAG_ARGS = [
    [],
    ["--tags=@s1"],
    ["--tags=-@s1"],
    ["--tags=~@s1"],
    ["--tags=not @s1"],
    ["--tags=@f1"],
    ["--tags=not @f1"],
    ["--tags=@f2 and not @r1"],
    ["--tags=@r1"],
    ["--tags=@r2 and @s1"],
    ["--tags=@r3"],
    ["--tags=not @r2"],
    ["--tags=@e1"],
    ["--tags=not @e1"],
    ["--tags=@e2 and @s1"],
    ["--tags=@o1"],
    ["--tags=not @o1"],
    ["--tags=@param_alice"],
    ["--tags=not @param_alice"],
    ["--tags=@param_*"],
    ["--tags=not @param_*"],
    ["--tags=@tag_x or @tag_z"],
    ["--tags=@tag_x,@tag_z"],
    ["--tags=@unknown_*"],
    ["--tags=@param_<name>"],
    ["--tags=@fixed and not @tag_y"],
    ["--tags=@o2"],
    ["--tags=@o3"],
    ["--tags=@wip*"],
    ["--tags=@*.one"],
    ["--tags=@only"],
    ["--tags=not @only"],
    ["--tags=@empty"],
    ["--tags=not @empty"],
    ["--tags=@nosuch"],
    ["--tags=not @nosuch"],
    ["--tags=@s1", "--tags=-@sskip"],
    ["--tags=@s1,@s2", "--tags=@common"],
    ["--tags=(@s1 or @s2) and not (@sskip or @r1)"],
    ["--tags=@common and not @s*"],
]


def describe_model(features):
    for feature in features:
        emit("  MODEL feature %r status=%s skip=%s/%r etags=%s" % (
            feature.name, feature.status.name, feature.should_skip,
            feature.skip_reason, sorted(feature.effective_tags)))
        for item in feature.walk_scenarios(with_outlines=True, with_rules=True):
            kind = type(item).__name__
            emit("    %s %r status=%s skip=%s/%r tags=%s etags=%s" % (
                kind, item.name, item.status.name, item.should_skip,
                item.skip_reason, list(item.tags), sorted(item.effective_tags)))
            if kind == "Scenario":
                emit("      steps: " + "; ".join(
                    "%s=%s" % (s.name, s.status.name) for s in item.all_steps))
                emit("      parent=%s was_dry_run=%s" % (
                    type(item.parent).__name__, item.was_dry_run))


@contextlib.contextmanager
def captured_logging():
    stream = io.StringIO()
    handler = logging.StreamHandler(stream)
    logger = logging.getLogger("behave")
    old_handlers = logger.handlers[:]
    old_propagate = logger.propagate
    logger.handlers = [handler]
    logger.propagate = False
    try:
        yield stream
    finally:
        logger.handlers = old_handlers
        logger.propagate = old_propagate


def run_case(feature_names, args, hook_mode=None, title=None, protocol=None):
    del CALLS[:]
    command_args = list(args) + ["--no-capture", "--no-capture-stderr",
                                 "--no-logcapture", "-f", "null"]
    kwargs = {}
    if protocol:
        kwargs["tag_expression_protocol"] = TagExpressionProtocol.from_name(protocol)
    try:
        config = Configuration(command_args=command_args, load_config=False,
                               **kwargs)
    except Exception as e:  # pylint: disable=broad-except
        emit("=" * 78)
        emit("CASE %s args=%s protocol=%s" % (title or "", args, protocol))
        emit("  CONFIG-EXCEPTION %s: %s" % (type(e).__name__, e))
        return None, None
    finally:
        TagExpressionProtocol.use(TagExpressionProtocol.DEFAULT)
    config.reporters = [LogReporter()]
    features = [parse_feature(FEATURES[n].lstrip(), filename=u"%s.feature" % n)
                for n in feature_names]
    runner = ModelRunner(config, features=features, step_registry=REGISTRY)
    runner.hooks = make_hooks(hook_mode)
    runner.formatters = [LogFormatter()]
    emit("=" * 78)
    emit("CASE %s features=%s args=%s hook_mode=%s protocol=%s" % (
        title or "", ",".join(feature_names), args, hook_mode, protocol))
    stdout = io.StringIO()
    old_stdout = sys.stdout
    sys.stdout = stdout
    try:
        with captured_logging() as logstream:
            try:
                failed = runner.run()
                emit("  RESULT failed=%s hook_failures=%s undefined=%s" % (
                    failed, runner.hook_failures,
                    [s.name for s in runner.undefined_steps]))
            except Exception as e:  # pylint: disable=broad-except
                emit("  EXCEPTION %s: %s" % (type(e).__name__, e))
    finally:
        sys.stdout = old_stdout
    for line in CALLS:
        emit("  CALL " + line)
    for line in stdout.getvalue().splitlines():
        emit("  STDOUT " + line)
    for line in logstream.getvalue().splitlines():
        emit("  LOG " + line)
    describe_model(features)
    return features, runner


def run_matrix():
    all_names = ["plain", "rules", "outline", "empty", "single"]
    for tag_args in TAG_ARGS:
        for extra in ([], ["--no-skipped"], ["--dry-run"],
                      ["--dry-run", "--no-skipped"]):
            run_case(all_names, tag_args + extra)
    # -- HOOK MODES: hooks that exclude or fail elements
    for mode in ("skip_feature_in_hook", "mark_feature_in_hook",
                 "fail_feature_hook", "skip_rule_in_hook",
                 "skip_scenario_in_hook", "mark_scenario_in_hook",
                 "fail_scenario_hook", "fail_after_scenario"):
        for tag_args in ([], ["--tags=@s1"], ["--tags=not @s1"], ["--tags=@e1"]):
            for extra in ([], ["--no-skipped"]):
                run_case(["plain", "rules", "outline"], tag_args + extra,
                         hook_mode=mode)
    # -- NAME SELECT and STOP
    for extra in (["--name=R1"], ["--name=alice", "--tags=@e1"],
                  ["--name=O1 x", "--no-skipped"], ["--stop"],
                  ["--stop", "--tags=not @s1"], ["--name=nomatch"],
                  ["--name=^P", "--tags=@s1 or @s2", "--dry-run"]):
        run_case(all_names, extra)
    # -- EXPLICIT TAG-EXPRESSION PROTOCOLS
    for proto in ("auto_detect", "strict", "v1", "v2"):
        for tags in ("@s1", "not @s1", "-@s1", "@s1,@s2"):
            run_case(["plain", "rules"], ["--tags=" + tags],
                     title="protocol", protocol=proto)


def finish():
    text = u"\n".join(OUT) + u"\n"
    if sys.version_info[0] < 3:
        text = text.encode("utf-8")
    sys.stdout.write(text)


# -- TARGETED CHECKS (C09-t8): row scenarios built from outline + examples -----
BUILD_TEXT = u'''
@f
Feature: Build
  Background: B <who>
    Given I use "<who>"
    And a background step passes

  @o @who_<who> @n=<n> @both:<who>-<n> @gone_<missing> @esc\\_<who> @plain @<who>
  Scenario Outline: Build <who> <n> <missing>
    Given I use "<who>" with:
      | col <who> | other |
      | <n>       | <who> |
    When I use "<n>"
      """
      Text <who> and <n> and <missing>
      """
    Then a step passes

    @e1 @e_<who>
    Examples: First <who> <row.id> <examples.index>
      | who       | n   |
      | alice     | 1   |
      | bob smith | 2.5 |
      | <n>       | x>y |
      | a<b       | <who> |

    Examples:
      | who | n |
      | zed | 0 |

    @e3 @e1
    Examples: Empty table
      | who | n |

  Scenario Outline: NoTags <v>
    Given a step passes

    @only_examples
    Examples: E
      | v |
      | 1 |

  @just_outline
  Scenario Outline: NoExampleTags <v>
    Given I use "<v>"

    Examples: E
      | v |
      | 1 |
      | 2 |
'''
BUILD_TEXT_NOBG_PARAMS = BUILD_TEXT.replace(u'Background: B <who>\n    Given I use "<who>"\n',
                                            u'Background: B\n    Given a step passes\n')


def describe_step(step):
    parts = ["%s %s" % (step.keyword, step.name), "status=%s" % step.status.name,
             "loc=%s" % step.location]
    if step.text:
        parts.append("text=%r" % (u"%s" % step.text))
    if step.table is not None:
        parts.append("table=%s|%s" % (list(step.table.headings),
                                      [list(r.cells) for r in step.table]))
    return " ".join(parts)


def targeted_build():
    emit("=" * 78)
    emit("TARGETED ScenarioOutlineBuilder.make_scenario_for / make_row_tags")
    for label, text in (("bg-params", BUILD_TEXT), ("bg-plain", BUILD_TEXT_NOBG_PARAMS)):
        feature = parse_feature(text.lstrip(), filename=u"build.feature")
        emit("  FEATURE %s" % label)
        for outline in feature.scenarios:
            emit("  OUTLINE %r tags=%s etags=%s" % (
                outline.name, list(outline.tags), sorted(outline.effective_tags)))
            scenarios = outline.scenarios
            emit("    built=%d again_same=%s" % (
                len(scenarios), scenarios is outline.scenarios))
            for scenario in scenarios:
                emit("    ROW %r line=%s keyword=%s" % (
                    scenario.name, scenario.line, scenario.keyword))
                emit("      tags=%s types=%s" % (
                    list(scenario.tags),
                    sorted(set(type(t).__name__ for t in scenario.tags))))
                emit("      etags=%s" % sorted(scenario.effective_tags))
                emit("      parent_is_outline=%s feature_is_feature=%s row=%s" % (
                    scenario.parent is outline, scenario.feature is feature,
                    scenario._row and list(scenario._row.cells)))
                emit("      tags_list_fresh=%s bg_private=%s" % (
                    all(scenario.tags is not e.tags for e in outline.examples)
                    and scenario.tags is not outline.tags
                    and all(scenario.tags is not s.tags for s in scenarios
                            if s is not scenario),
                    scenario._background_steps is not None))
                for step in scenario.all_steps:
                    emit("      STEP " + describe_step(step))
                for step, ostep in zip(scenario.steps, outline.steps):
                    emit("      step_is_copy=%s" % (step is not ostep))
            # -- OUTLINE TEMPLATE IS UNTOUCHED
            for step in outline.steps:
                emit("    TEMPLATE-STEP " + describe_step(step))
            for example in outline.examples:
                emit("    EXAMPLES %r tags=%s index=%s modified=%s" % (
                    example.name, list(example.tags), example.index,
                    example.table is not None and example.table.modified))

    # -- DIRECT: make_row_tags with boundary inputs
    builder = M.ScenarioOutlineBuilder
    row = M.Row([u"who", u"n"], [u"al ice", u"<n>"], line=7)
    tag_inputs = [None, [], (), [u"a"], (u"a", u"b_<who>"), [u"<who>", u"<n>", u"<zz>"],
                  [u"x<who>y<n>z"], [u"sp ace", u"we!rd$", u"esc\\_x"],
                  [M.Tag(u"t_<who>", 3)], iter([u"it_<who>"]), [b"bytes"], [5]]
    for tags in tag_inputs:
        for params in (None, {}, {u"zz": u"ZZ", u"row.id": u"1.1"}):
            label = repr(tags) if not hasattr(tags, "__next__") and not hasattr(tags, "next") else "iterator"
            if label == "iterator":
                tags = iter([u"it_<who>"])
            try:
                result = builder.make_row_tags(tags, row, params)
                emit("  make_row_tags(%s, params=%r) -> %s %r" % (
                    label, params, type(result).__name__, result))
            except Exception as e:  # pylint: disable=broad-except
                emit("  make_row_tags(%s, params=%r) -> EXCEPTION %s: %s" % (
                    label, params, type(e).__name__, e))
    first = builder.make_row_tags([], row)
    second = builder.make_row_tags([], row)
    emit("  empty result fresh=%s" % (first is not second))

    # -- ORDER OF CALLS: subclass that records the builder protocol.
    log = []

    class RecordingBuilder(M.ScenarioOutlineBuilder):
        @classmethod
        def make_row_tags(cls, outline_tags, row, params=None):
            log.append("make_row_tags %s" % list(outline_tags))
            return super(RecordingBuilder, cls).make_row_tags(outline_tags, row, params)

        @classmethod
        def make_step_for_row(cls, outline_step, row, params=None):
            log.append("make_step_for_row %s row=%s params=%s" % (
                outline_step.name, list(row.cells), sorted((params or {}).items())))
            return super(RecordingBuilder, cls).make_step_for_row(outline_step, row, params)

        @classmethod
        def render_template(cls, text, row=None, params=None):
            log.append("render_template %r" % text)
            return M.ScenarioOutlineBuilder.render_template(text, row, params)

        @classmethod
        def is_parametrized_tag(cls, tag):
            log.append("is_parametrized_tag %r" % tag)
            return M.ScenarioOutlineBuilder.is_parametrized_tag(tag)

    feature = parse_feature(BUILD_TEXT.lstrip(), filename=u"build.feature")
    outline = feature.scenarios[0]
    original_make_name = M.Tag.__dict__["make_name"]

    def logging_make_name(cls, text, unescape=False, allowed_chars=None):
        log.append("Tag.make_name %r unescape=%r" % (text, unescape))
        return original_make_name.__get__(None, cls)(text, unescape, allowed_chars)

    M.Tag.make_name = classmethod(logging_make_name)
    try:
        scenarios = RecordingBuilder(outline.annotation_schema).build_scenarios(outline)
    finally:
        M.Tag.make_name = original_make_name
    emit("  recording built=%d" % len(scenarios))
    for line in log:
        emit("    " + line)

    # -- EXAMPLES WITH tags=None / tuple tags
    feature = parse_feature(BUILD_TEXT.lstrip(), filename=u"build.feature")
    outline = feature.scenarios[2]
    for bad_tags in (None, (u"tup",), u"str", 5):
        outline.examples[0].tags = bad_tags
        outline.examples[0].table.modified = True
        try:
            emit("  examples.tags=%r -> %s" % (
                bad_tags, [list(s.tags) for s in outline.scenarios]))
        except Exception as e:  # pylint: disable=broad-except
            emit("  examples.tags=%r -> EXCEPTION %s: %s" % (
                bad_tags, type(e).__name__, e))


FEATURES["build"] = BUILD_TEXT


@_step(u'I use "{value}" with')
def step_use_with(ctx, value):
    CALLS.append("STEP use-with %s table=%s" % (
        value, [list(r.cells) for r in ctx.table]))


run_matrix()
for _args in ([], ["--tags=@who_alice"], ["--tags=not @who_alice"], ["--tags=@e1"],
              ["--tags=@who_bob_smith or @n=0"], ["--tags=@only_examples"],
              ["--tags=not @only_examples and not @o"], ["--tags=@gone_*"],
              ["--tags=@just_outline"], ["--tags=@e3"], ["--tags=@esc_alice"]):
    for _extra in ([], ["--no-skipped"], ["--dry-run"]):
        run_case(["build"], _args + _extra, title="build")
targeted_build()
finish()
