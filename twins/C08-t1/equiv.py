# -*- coding: utf-8 -*-
"""
Equivalence transcript for twin C08-t1 (TagExpression.normalize_tag, v1.py).

Exercises tag normalisation directly and through the public paths that
depend on it (TagExpression(...), make_tag_expression(...) in V1 and
AUTO_DETECT mode) and prints a canonical transcript.
"""
from __future__ import print_function
import sys
sys.path.insert(0, "/tmp/wtT/C08")

from behave.tag_expression.v1 import TagExpression
from behave.tag_expression.builder import (
    TagExpressionProtocol, make_tag_expression
)


def observe(func, *args):
    try:
        return "OK %r" % (func(*args),)
    except Exception as e:  # pylint: disable=broad-except
        return "EXC %s: %s" % (e.__class__.__name__, e)


# -- SECTION 1: normalize_tag on representative and boundary inputs
RAW_TAGS = [
    "foo", "@foo", "-foo", "~foo", "-@foo", "~@foo", "@-foo", "@~foo",
    "  @foo  ", " -@foo ", "\t~@foo\n", " ~foo", "", " ", "@", "-", "~",
    "-@", "~@", "@@foo", "--foo", "~~foo", "-~foo", "~-foo", "~-@foo",
    "-@@foo", "~@@foo", "@-@foo", "foo@bar", "foo-bar", "foo~bar",
    "@foo:3", "-@foo:3", "~@foo:3", "~foo:3", "- @foo", "~ foo",
    u"@\xe4\xf6\xfc", u"~@\xe4\xf6\xfc", "not", "-not", "@a,@b",
]
print("== normalize_tag")
for raw in RAW_TAGS:
    print("%r -> %s" % (raw, observe(TagExpression.normalize_tag, raw)))
for bad in [None, 3, ["@foo"], b"@foo", b"~@foo", b"~foo"]:
    print("%r -> %s" % (bad, observe(TagExpression.normalize_tag, bad)))

# -- SECTION 2: normalized_tags_from_or
print("== normalized_tags_from_or")
OR_EXPRS = [
    "@foo,@bar", "foo,-bar", "~@foo,-@bar,~baz", " @foo , ~bar ",
    "@foo", "", ",", "@foo,", ",@foo", "-@foo:2,~@bar:3", "~@a,@~b,-@c,@-d",
]
for expr in OR_EXPRS:
    print("%r -> %s" % (
        expr, observe(lambda e: list(TagExpression.normalized_tags_from_or(e)), expr)))

# -- SECTION 3: v1 TagExpression state and check()
print("== TagExpression")
ELEMENT_TAGS = [
    [], ["foo"], ["bar"], ["foo", "bar"], ["baz"], ["foo", "baz"],
    ["@foo"], ["-foo"], ["~foo"], ["foo", "bar", "baz"],
]
PARTS_LIST = [
    [], ["@foo"], ["foo"], ["-foo"], ["~foo"], ["-@foo"], ["~@foo"],
    ["@-foo"], ["@~foo"], ["--foo"], ["~~foo"],
    ["@foo,@bar"], ["@foo", "@bar"], ["~@foo,@bar"], ["~@foo", "-@bar"],
    ["@foo,~@bar", "-baz"], ["@foo:2", "~@bar:3"], [" ~@foo , -bar "],
    ["@foo:1,~@foo:2"], ["~@foo:x"], [""], [","],
]
for parts in PARTS_LIST:
    print("-- parts=%r" % (parts,))
    try:
        expr = TagExpression(parts)
    except Exception as e:  # pylint: disable=broad-except
        print("   ctor EXC %s: %s" % (e.__class__.__name__, e))
        continue
    print("   ands=%r limits=%r len=%d str=%r repr=%r" % (
        expr.ands, sorted(expr.limits.items()), len(expr), str(expr), repr(expr)))
    print("   check=%s" % "".join(
        "1" if expr.check(tags) else "0" for tags in ELEMENT_TAGS))

# -- SECTION 4: via make_tag_expression (V1, AUTO_DETECT)
print("== make_tag_expression")
TEXTS = [
    "@foo", "~@foo", "-@foo", "~foo", "-foo", "@foo @bar", "@foo,@bar",
    "~@foo,@bar", "~@foo -@bar", "@foo,~@bar -baz", "~@foo and @bar",
    "not @foo", "-@foo or bar", "(~@foo)", ["~@foo", "@bar,-baz"],
    ["@foo", "not @bar"], ["-@foo", "not @bar"],
]
for protocol in (TagExpressionProtocol.V1, TagExpressionProtocol.AUTO_DETECT):
    for text in TEXTS:
        try:
            expr = make_tag_expression(text, protocol)
            outcome = "%s %r check=%s" % (
                expr.__class__.__module__, str(expr),
                "".join("1" if expr.check(tags) else "0" for tags in ELEMENT_TAGS))
        except Exception as e:  # pylint: disable=broad-except
            outcome = "EXC %s: %s" % (e.__class__.__name__, e)
        print("%s %r -> %s" % (protocol.name, text, outcome))
