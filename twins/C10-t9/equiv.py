# -*- coding: UTF-8 -*-
"""
Equivalence transcript for property C10 (file-location and name selection).

Exercises FileLocationParser, FeatureListParser, FeatureLineDatabase,
FeatureScenarioLocationCollector(1,2), parse_features,
collect_feature_locations, Configuration.build_name_re,
Scenario/ScenarioOutline.should_run_with_name_select and complete
"python -m behave" runs, and prints a canonical transcript.
"""
from __future__ import absolute_import, print_function
import sys
sys.path.insert(0, "/tmp/wtV/C10")

import itertools
import os
import re
import shutil
import subprocess
import tempfile

from behave.configuration import Configuration
from behave.model_core import FileLocation
from behave.model import Feature, Rule, Scenario, ScenarioOutline
from behave import parser as gherkin
from behave import runner_util
from behave.runner_util import (
    FileLocationParser, FeatureListParser, FeatureLineDatabase,
    FeatureScenarioLocationCollector, FeatureScenarioLocationCollector1,
    FeatureScenarioLocationCollector2, parse_features,
    collect_feature_locations)

PYTHON = "/venv/bin/python"
WORKDIR = os.path.realpath(tempfile.mkdtemp(prefix="c10equiv"))
OUT = []


def emit(text=""):
    text = text.replace(WORKDIR, "<WORK>")
    OUT.append(text)


def describe_exception(e):
    return "%s: %s" % (e.__class__.__name__, e)


def attempt(label, func, *args, **kwargs):
    try:
        result = func(*args, **kwargs)
    except BaseException as e:      # pylint: disable=broad-except
        emit("%s -> RAISES %s" % (label, describe_exception(e)))
        return None
    return result


def show_location(location):
    return "%s(%r, %r)" % (location.__class__.__name__,
                           location.filename, location.line)


# ---------------------------------------------------------------------------
# FEATURE DOCUMENTS
# ---------------------------------------------------------------------------
DOC_ALPHA = u"""@f1
Feature: Alpha
  Description line of alpha

  Background:
    Given a step passes

  @setup
  Scenario: A0 Setup
    Given a step passes

  Scenario: A1 first
    Given a step passes
    When a step passes

  # a comment line
  @wip
  Scenario Outline: A2 outline <name>
    Given a step passes with "<name>"

    @ex1
    Examples: E1
      | name |
      | x    |
      | y    |

    Examples: E2
      | name |
      | z    |

  Scenario: A3 last
    Given a step passes

  @teardown
  Scenario: A9 Teardown
    Given a step passes
"""

DOC_BETA = u"""Feature: Beta with rules

  Scenario: B0 before rules
    Given a step passes

  Rule: R1
    Background:
      Given a step passes

    Scenario: B1 in R1
      Given a step passes

    Scenario Outline: B2 <n> in R1
      Given a step passes with "<n>"
      Examples:
        | n |
        | 1 |
        | 2 |

  @rtag
  Rule: R2
    Example: B3 in R2
      Given a step passes
    @setup
    Scenario: B4 setup in R2
      Given a step passes
    Scenario: B1 in R2 again
      Given a step passes
"""

DOC_GAMMA = u"""Feature: Gamma
  Scenario: G1 only
    Given a step passes
"""

DOC_DELTA = u"""# language: en
# leading comment


@d1 @d2
Feature: Delta

  Scenario: D1 one
    Given a step passes


  Scenario: D2 two (a.b)
    Given a step passes
  Scenario: D3 three
    Given a step passes
"""

DOC_EMPTY = u"""# nothing in here
"""

DOC_NOSCENARIOS = u"""Feature: Epsilon without scenarios
  Only a description.
"""

DOCS = [
    ("features/alpha.feature", DOC_ALPHA),
    ("features/beta.feature", DOC_BETA),
    ("features/gamma.feature", DOC_GAMMA),
    ("features/sub/delta.feature", DOC_DELTA),
    ("features/sub/empty.feature", DOC_EMPTY),
    ("features/sub/epsilon.feature", DOC_NOSCENARIOS),
]

STEPS = u'''
from behave import given, when, then

@given(u'a step passes')
@when(u'a step passes')
def step_passes(context):
    pass

@given(u'a step passes with "{name}"')
def step_passes_with(context, name):
    pass
'''

ENVIRONMENT = u'''
from __future__ import print_function
import sys

def before_feature(context, feature):
    sys.__stdout__.write("HOOK before_feature %s\\n" % feature.name)

def before_rule(context, rule):
    sys.__stdout__.write("HOOK before_rule %s\\n" % rule.name)

def before_scenario(context, scenario):
    sys.__stdout__.write("HOOK before_scenario %s\\n" % scenario.name)

def after_scenario(context, scenario):
    sys.__stdout__.write("HOOK after_scenario %s: %s\\n" %
                         (scenario.name, scenario.status.name))
'''

LISTFILE_1 = u"""# -- a comment line
features/alpha.feature:13

   features/alpha.feature:43
  # indented comment
features/beta.feature
features/sub/delta.feature:8
features/sub/delta.feature:0
"""

LISTFILE_2 = u"""sub/*.feature
gamma.feature:2
../features/beta.feature:24
"""


def write_file(relname, contents):
    path = os.path.join(WORKDIR, relname)
    dirname = os.path.dirname(path)
    if not os.path.isdir(dirname):
        os.makedirs(dirname)
    with open(path, "wb") as f:
        f.write(contents.encode("utf-8"))


def setup_workdir():
    for relname, contents in DOCS:
        write_file(relname, contents)
    write_file("features/steps/steps.py", STEPS)
    write_file("features/environment.py", ENVIRONMENT)
    write_file("list1.txt", LISTFILE_1)
    write_file("features/list2.txt", LISTFILE_2)
    write_file("features/notes.txt", u"no feature\n")
    os.chdir(WORKDIR)


# ---------------------------------------------------------------------------
# DESCRIBE MODEL STATE
# ---------------------------------------------------------------------------
def describe_entity(entity):
    if entity is None:
        return "None"
    return "%s<%s @%s>" % (entity.__class__.__name__, entity.name,
                           entity.location.line)


def describe_scenarios(feature):
    parts = []
    for scenario in feature.walk_scenarios(with_outlines=True, with_rules=True):
        if isinstance(scenario, Rule):
            parts.append("R@%d:%s/%s" % (scenario.location.line,
                                         int(bool(scenario.should_skip)),
                                         scenario.status.name))
            continue
        kind = "S"
        if isinstance(scenario, ScenarioOutline):
            kind = "O"
        parts.append("%s@%d:%s/%s" % (kind, scenario.location.line,
                                      int(bool(scenario.should_skip)),
                                      scenario.status.name))
    return " ".join(parts)


def describe_feature(feature):
    if feature is None:
        return "None"
    return "%s[%s/%s] %s" % (os.path.basename(feature.filename),
                             int(bool(feature.should_skip)),
                             feature.status.name,
                             describe_scenarios(feature))


def describe_features(features):
    if features is None:
        return
    emit("    #features=%d" % len(features))
    for feature in features:
        emit("    " + describe_feature(feature))


def count_lines(text):
    return len(text.splitlines())


# ---------------------------------------------------------------------------
# SECTIONS
# ---------------------------------------------------------------------------
def section_file_location_parser():
    emit("== FileLocationParser.parse")
    texts = [
        "alice.feature", "alice.feature:10", "alice.feature:0",
        "alice.feature:007", "  alice.feature:3  ", " alice.feature ",
        "features/a b.feature:12", "features/a b.feature : 12",
        "a.feature:1:2", "a.feature:", "a.feature:x", ":5", "::5", "", "   ",
        "C:\\x\\a.feature:4", "a.feature:12 \n", "a.feature:-1",
        "a.feature:1 2", u"\u00e4.feature:9", "a.feature:\t8", "\tb.feature:8\t",
        "a.feature:1\n", "x\ny.feature:3", "a.feature:99999999999999999999",
    ]
    for text in texts:
        location = attempt("parse(%r)" % text, FileLocationParser.parse, text)
        if location is not None:
            emit("parse(%r) -> %s" % (text, show_location(location)))
    for bad in [None, 12, ["a.feature:1"]]:
        location = attempt("parse(%r)" % (bad,), FileLocationParser.parse, bad)
        if location is not None:
            emit("parse(%r) -> %s" % (bad, show_location(location)))


def section_feature_list_parser():
    emit("== FeatureListParser.parse")
    texts = [
        ("list1", LISTFILE_1), ("list2", LISTFILE_2),
        ("empty", u""), ("only-comments", u"# a\n  # b\n\n"),
        ("abs", u"%s/features/alpha.feature:3\n/abs/other.feature\n" % WORKDIR),
        ("dots", u"./features/../features/alpha.feature:5\nfeatures//beta.feature\n"),
        ("magic", u"features/*.feature\nfeatures/sub/[de]*.feature\nfeatures/none*.feature\n"),
        ("magic-line", u"features/gam?a.feature:2\n"),
        ("crlf", u"features/alpha.feature:3\r\n\r\n#c\r\nfeatures/beta.feature\r\n"),
        ("hash-inside", u"features/al#pha.feature:3\n"),
        ("colon-space", u"features/alpha.feature: 7\n  features/alpha.feature :7 \n"),
    ]
    for here in (None, "", ".", "features", os.path.join(WORKDIR, "features")):
        for label, text in texts:
            locations = attempt("parse[%s, here=%r]" % (label, here),
                                FeatureListParser.parse, text, here)
            if locations is None:
                continue
            shown = [show_location(x) for x in locations]
            if label.startswith("magic"):
                # -- GLOB ORDER: keep order, but also show count.
                emit("parse[%s, here=%r] #%d" % (label, here, len(shown)))
            emit("parse[%s, here=%r] -> %s" % (label, here, "; ".join(shown)))
    attempt("parse(None)", FeatureListParser.parse, None)

    emit("== FeatureListParser.parse_file")
    for name in ["list1.txt", "@list1.txt", "features/list2.txt",
                 "@features/list2.txt", "@@list1.txt", "missing.txt",
                 "@missing.txt", "features", "@", "",
                 os.path.join(WORKDIR, "features/list2.txt")]:
        locations = attempt("parse_file(%r)" % name,
                            FeatureListParser.parse_file, name)
        if locations is not None:
            emit("parse_file(%r) -> %s" %
                 (name, "; ".join(show_location(x) for x in locations)))


def section_collect_feature_locations():
    emit("== collect_feature_locations")
    cases = [
        ["features"], ["features/sub"], ["features/alpha.feature"],
        ["features/alpha.feature:13", "features/alpha.feature:20"],
        ["@list1.txt"], ["@features/list2.txt", "features/gamma.feature:1"],
        ["features/notes.txt"], ["features/notes.txt:3"],
        ["features/missing.feature"], ["features/missing.feature:3"],
        ["features/alpha.feature:3", "features", "@list1.txt"],
        ["@missing.txt"], [" features/alpha.feature:3 "], [],
    ]
    for strict in (True, False):
        for paths in cases:
            label = "collect(%r, strict=%s)" % (paths, strict)
            locations = attempt(label, collect_feature_locations, paths, strict)
            if locations is not None:
                emit("%s -> %s" %
                     (label, "; ".join(show_location(x) for x in locations)))


def section_line_database():
    emit("== FeatureLineDatabase")
    for relname, text in DOCS:
        feature = gherkin.parse_file(os.path.join(WORKDIR, relname))
        if not feature:
            emit("%s: no feature" % relname)
            continue
        emit("-- %s" % relname)
        database = FeatureLineDatabase.make(feature)
        emit("data: %s" % ["%s=%s" % (k, describe_entity(v))
                           for k, v in database.data.items()])
        database2 = FeatureLineDatabase(feature)
        emit("same-data: %s" % (list(database.data.items()) ==
                                list(database2.data.items())))
        for line in list(range(-2, count_lines(text) + 4)) + [10 ** 6]:
            run_item = database.select_run_item_by_line(line)
            scenarios = database.select_scenarios_by_line(line)
            emit("  line %d: %s -> %s" % (
                line, describe_entity(run_item),
                [describe_entity(x) for x in scenarios]))
        # -- PARTS: Rule, ScenarioOutline and Scenario as database entity.
        for entity in feature.walk_scenarios(with_outlines=True, with_rules=True):
            line_data = FeatureLineDatabase.make_line_data_for(entity)
            emit("  line_data(%s): %s" % (
                describe_entity(entity),
                ["%s=%s" % (k, describe_entity(v)) for k, v in line_data]))
            part_db = FeatureLineDatabase.make(entity)
            for line in (0, entity.location.line - 1, entity.location.line,
                         entity.location.line + 2, 999):
                emit("    part line %d: %s -> %s" % (
                    line, describe_entity(part_db.select_run_item_by_line(line)),
                    [describe_entity(x)
                     for x in part_db.select_scenarios_by_line(line)]))
    # -- EMPTY / EXPLICIT DATA
    empty_db = FeatureLineDatabase()
    emit("empty.data: %r" % list(empty_db.data.items()))
    attempt("empty.select_run_item_by_line(3)",
            empty_db.select_run_item_by_line, 3)
    attempt("empty.select_scenarios_by_line(3)",
            empty_db.select_scenarios_by_line, 3)
    other_db = FeatureLineDatabase(None, [(0, "zero"), (5, "five"), (9, "nine")])
    for line in range(-1, 12):
        emit("other line %d: %r -> %r" % (
            line, other_db.select_run_item_by_line(line),
            other_db.select_scenarios_by_line(line)))


def section_parse_features_every_line():
    emit("== parse_features: every line")
    for relname, text in DOCS:
        emit("-- %s" % relname)
        lines = list(range(0, count_lines(text) + 4)) + [10 ** 6]
        for line in lines:
            emit("  %s:%d" % (relname, line))
            features = attempt("  parse_features", parse_features,
                               [FileLocation(relname, line)])
            describe_features(features)
        emit("  %s (bare FileLocation)" % relname)
        describe_features(attempt("  parse_features", parse_features,
                                  [FileLocation(relname)]))
        emit("  %s (bare string)" % relname)
        describe_features(attempt("  parse_features", parse_features,
                                  [relname]))


def section_parse_features_multisets():
    emit("== parse_features: multisets of locations")
    name, text = DOCS[0]
    lines = list(range(0, count_lines(text) + 2))
    for pair in itertools.combinations_with_replacement(lines[::2], 2):
        emit("  %s:%s" % (name, list(pair)))
        describe_features(attempt("  parse_features", parse_features,
                                  [FileLocation(name, x) for x in pair]))
    triples = list(itertools.combinations_with_replacement(lines[1::3], 3))
    for triple in triples[::2]:
        for ordered in (triple, tuple(reversed(triple))):
            emit("  %s:%s" % (name, list(ordered)))
            describe_features(attempt("  parse_features", parse_features,
                                      [FileLocation(name, x) for x in ordered]))
    name, text = DOCS[1]
    lines = list(range(0, count_lines(text) + 2))
    for pair in itertools.combinations_with_replacement(lines[::3], 2):
        emit("  %s:%s" % (name, list(pair)))
        describe_features(attempt("  parse_features", parse_features,
                                  [FileLocation(name, x) for x in pair]))
    for line in lines:
        emit("  %s:[%d, None]" % (name, line))
        describe_features(attempt(
            "  parse_features", parse_features,
            [FileLocation(name, line), FileLocation(name)]))


def section_parse_features_many_files():
    emit("== parse_features: several files")
    alpha, beta, gamma = DOCS[0][0], DOCS[1][0], DOCS[2][0]
    delta, empty, epsilon = DOCS[3][0], DOCS[4][0], DOCS[5][0]
    L = FileLocation
    cases = [
        [],
        [L(alpha, 13), L(alpha, 43), L(beta, 10), L(gamma, 2)],
        [L(alpha, 13), L(beta, 10), L(alpha, 43)],
        [L(alpha, 13), L(beta), L(beta, 10), L(gamma)],
        [alpha, beta, gamma],
        [alpha, L(alpha, 13)],
        [L(alpha, 13), alpha],
        ["./" + alpha, L(alpha, 13)],
        ["features//alpha.feature", L(alpha, 13), "features/./alpha.feature"],
        [L(empty), L(empty, 3), L(alpha, 13)],
        [L(alpha, 13), L(empty), L(alpha, 33), L(empty, 3)],
        [L(empty, 1), L(empty, 1)],
        [L(epsilon, 1), L(epsilon, 2), L(gamma, 2), L(gamma, 3)],
        [L(delta, 8), L(delta, 0), L(delta, 13)],
        [L(delta, 8), L(os.path.join(WORKDIR, delta), 13)],
        [L(os.path.join(WORKDIR, delta), 13), L(os.path.join(WORKDIR, delta), 8)],
        [alpha + ":13"],
        [L("features/missing.feature", 3)],
        [L(alpha, 13), L("features/missing.feature", 3)],
        [L(alpha, 13), 42],
        [None],
        [L(alpha, 13), L(alpha, 13), L(alpha, 13)],
        (x for x in [L(beta, 6), L(beta, 24), L(gamma, 1)]),
    ]
    for case in cases:
        label = case
        if not isinstance(case, list):
            case = list(case)
            label = case
            case = iter(case)
        emit("  %s" % [show_location(x) if isinstance(x, FileLocation) else x
                       for x in label])
        describe_features(attempt("  parse_features", parse_features, case))
    # -- LISTFILES
    for listfile in ("@list1.txt", "@features/list2.txt"):
        locations = collect_feature_locations([listfile])
        emit("  %s" % listfile)
        describe_features(attempt("  parse_features", parse_features, locations))
    # -- LANGUAGE
    emit("  language=de")
    describe_features(attempt("  parse_features", parse_features,
                              [L(gamma, 2)], language="de"))
    describe_features(attempt("  parse_features", parse_features,
                              [L(delta, 8)], "de"))


def section_collectors():
    emit("== FeatureScenarioLocationCollector classes")
    collector_classes = [FeatureScenarioLocationCollector,
                         FeatureScenarioLocationCollector1,
                         FeatureScenarioLocationCollector2]
    for collector_class in collector_classes:
        emit("-- %s" % collector_class.__name__)
        for args in [(9, []), (9, [3]), (0, [3, 8]), (2, [3, 8]), (3, [3, 8]),
                     (7, [3, 8]), (8, [3, 8]), (100, [3, 8])]:
            emit("  select_scenario_line_for%r -> %r" % (
                args, collector_class.select_scenario_line_for(*args)))
        for relname, text in DOCS[:4]:
            filename = relname
            for lines in [(), (0,), (1,), (2,), (9,), (13,), (14,), (19,),
                          (24,), (25,), (13, 33), (9, 24, 43), (999,),
                          (8, 12), (6, 10, 24)]:
                for strict in (False, True):
                    feature = gherkin.parse_file(os.path.join(WORKDIR, relname))
                    collector = collector_class(feature, filename=filename)
                    for line in lines:
                        collector.add_location(FileLocation(filename, line))
                    label = "  %s %r strict=%s" % (relname, lines, strict)
                    selected = attempt(label + " discover",
                                       collector.discover_selected_scenarios,
                                       strict)
                    if selected is not None:
                        emit("%s discover -> %s" % (label, sorted(
                            describe_entity(x) for x in selected)))
                    emit("%s state: lines=%s all=%s" % (
                        label, sorted(collector.scenario_lines),
                        collector.use_all_scenarios))
                    if strict:
                        continue
                    feature = gherkin.parse_file(os.path.join(WORKDIR, relname))
                    collector = collector_class(feature, filename=filename)
                    for line in lines:
                        collector.add_location(FileLocation(filename, line))
                    built = attempt(label + " build", collector.build_feature)
                    if built is not None:
                        emit("%s build same=%s -> %s" % (
                            label, built is feature, describe_feature(built)))
                        emit("%s selected=%s all=%s" % (
                            label,
                            sorted(describe_entity(x)
                                   for x in collector.selected_scenarios),
                            [describe_entity(x)
                             for x in collector.all_scenarios]))
        # -- CONSTRUCTOR / add_location / clear
        collector = collector_class(location=FileLocation("x.feature", 4))
        emit("  ctor: %r %r %r %r" % (collector.filename, collector.feature,
                                      sorted(collector.scenario_lines),
                                      collector.use_all_scenarios))
        collector.add_location(FileLocation("x.feature"))
        collector.add_location(FileLocation("x.feature", 0))
        collector.add_location(FileLocation("x.feature", 7))
        emit("  added: %r %r %r" % (collector.filename,
                                    sorted(collector.scenario_lines),
                                    collector.use_all_scenarios))
        attempt("  add other file", collector.add_location,
                FileLocation("y.feature", 1))
        emit("  build without feature: %r" % collector.build_feature())
        attempt("  discover without feature",
                collector.discover_selected_scenarios)
        collector.clear()
        emit("  cleared: %r %r %r %r %r %r" % (
            collector.filename, collector.feature, collector.scenario_lines,
            collector.use_all_scenarios, collector.all_scenarios,
            collector.selected_scenarios))
        collector.add_location(FileLocation("z.feature"))
        emit("  after clear+add: %r %r %r" % (
            collector.filename, sorted(collector.scenario_lines),
            collector.use_all_scenarios))
        collector = collector_class(filename="given.feature",
                                    location=FileLocation("given.feature", 2))
        emit("  ctor2: %r %r" % (collector.filename,
                                 sorted(collector.scenario_lines)))
        attempt("  ctor3", collector_class, None,
                FileLocation("a.feature", 2), "b.feature")


def section_name_select():
    emit("== name selection")
    pattern_lists = [
        [], ["A1"], ["A1 first"], ["first", "last"], ["outline"],
        ["outline x"], ["-- @1.1"], ["@1\\.2 E1"], ["E2"], ["^A"], ["last$"],
        ["A[13]"], ["a1"], ["(?i)a1"], ["Setup|Teardown"], ["B1"],
        ["B1 in R2", "B3"], ["R1"], ["in R[12]$"], ["<n>"], ["B2 2"],
        ["G1"], ["D2 two (a.b)"], ["a.b"], [r"\(a\.b\)"], ["nomatch"],
        ["x", "nomatch"], [""], ["", "A1"], [u"\u00e4"], ["D. t"], [" "],
    ]
    features = []
    for relname, _ in DOCS:
        feature = gherkin.parse_file(os.path.join(WORKDIR, relname))
        if feature:
            features.append(feature)
    for patterns in pattern_lists:
        args = ["--name=%s" % x for x in patterns]
        config = attempt("Configuration(%r)" % args, Configuration, args,
                         load_config=False)
        if config is None:
            continue
        name_re = config.name_re
        emit("patterns %r: name=%r name_re=%r flags=%s" % (
            patterns, config.name, getattr(name_re, "pattern", None),
            getattr(name_re, "flags", None)))
        for feature in features:
            parts = []
            for item in feature.walk_scenarios(with_outlines=True):
                answer = item.should_run_with_name_select(config)
                shown = repr(answer)
                if answer not in (True, False, None):
                    shown = "%s%r" % (answer.__class__.__name__, answer.span())
                should_run = item.should_run(config)
                parts.append("%s@%d=%s/%s" % (
                    item.__class__.__name__[0], item.location.line, shown,
                    should_run.__class__.__name__
                    if should_run not in (True, False, None) else should_run))
            emit("  %s: %s" % (os.path.basename(feature.filename),
                               " ".join(parts)))
    emit("-- build_name_re")
    for names in [["a"], ["a", "b"], [u"\u00e4", "b"], [b"bytes", "c"], [],
                  ["("], [None], "abc", ["a|b", "c"], [1, 2]]:
        name_re = attempt("build_name_re(%r)" % (names,),
                          Configuration.build_name_re, names)
        if name_re is not None:
            emit("build_name_re(%r) -> %r flags=%s" % (
                names, name_re.pattern, name_re.flags))
    attempt("Configuration(--name=()", Configuration, ["--name=("],
            load_config=False)


def section_runs():
    emit("== python -m behave runs")
    runs = [
        ["features/alpha.feature:13"],
        ["features/alpha.feature:14", "features/alpha.feature:26"],
        ["features/alpha.feature:27", "features/alpha.feature:20"],
        ["features/alpha.feature:0"],
        ["features/alpha.feature:2"],
        ["features/alpha.feature:999"],
        ["features/beta.feature:6"],
        ["features/beta.feature:24", "features/beta.feature:3"],
        ["features/beta.feature:13", "features/gamma.feature:2",
         "features/beta.feature:29"],
        ["@list1.txt"],
        ["@features/list2.txt"],
        ["--name", "A1", "features"],
        ["--name", "first", "--name", "B1", "features"],
        ["--name", "outline x", "features/alpha.feature"],
        ["--name", "B2", "features/beta.feature"],
        ["--name", "nomatch", "features/gamma.feature"],
        ["--name", "in R2", "features/beta.feature:6"],
        ["--name", "A3", "features/alpha.feature:13"],
        ["--name", "B1", "--no-skipped", "features/beta.feature"],
        ["--dry-run", "features/alpha.feature:20"],
        ["--tags=@wip", "features/alpha.feature:25"],
        ["features/missing.feature:3"],
        ["features/notes.txt"],
        ["features/sub/empty.feature:3", "features/sub/epsilon.feature:1"],
    ]
    env = dict(os.environ)
    env["PYTHONPATH"] = "/tmp/wtV/C10"
    env["PYTHONDONTWRITEBYTECODE"] = "1"
    env.pop("BEHAVE_ARGS", None)
    for format_name in ("plain", "json"):
        for args in runs:
            if format_name == "json" and args[0].startswith("--"):
                continue
            command = [PYTHON, "-m", "behave", "-f", format_name,
                       "--no-timings", "--no-color"] + args
            process = subprocess.Popen(command, cwd=WORKDIR, env=env,
                                       stdout=subprocess.PIPE,
                                       stderr=subprocess.STDOUT)
            output = process.communicate()[0].decode("utf-8", "replace")
            emit("$ behave -f %s %s  [exit=%s]" % (format_name, " ".join(args),
                                                  process.returncode))
            for line in output.splitlines():
                if line.startswith("Took "):
                    continue
                line = re.sub(r'"duration": [-+.0-9e]+', '"duration": T', line)
                emit("    | " + line.rstrip())


def main():
    setup_workdir()
    try:
        section_file_location_parser()
        section_feature_list_parser()
        section_collect_feature_locations()
        section_line_database()
        section_parse_features_every_line()
        section_parse_features_multisets()
        section_parse_features_many_files()
        section_collectors()
        section_name_select()
        section_runs()
    finally:
        os.chdir("/")
        shutil.rmtree(WORKDIR, ignore_errors=True)
    text = u"\n".join(OUT) + u"\n"
    if sys.version_info[0] < 3:
        text = text.encode("utf-8")
        sys.stdout.write(text)
    else:
        sys.stdout.buffer.write(text.encode("utf-8"))


if __name__ == "__main__":
    main()
