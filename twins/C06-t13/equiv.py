# -*- coding: utf-8 -*-
"""Canonical transcript of Scenario Outline expansion (property C06)."""
from __future__ import print_function, unicode_literals
import sys
sys.path.insert(0, "/tmp/wtW/C06")
import io
import contextlib

from behave import model
from behave.model import (ScenarioOutline, ScenarioOutlineBuilder, Examples,
                          Table, Row, Step, Tag, Text)
from behave.parser import parse_feature

OUT = []


def emit(*args):
    OUT.append(" ".join("%s" % (a,) for a in args))


def dump_table(table, indent="        "):
    if table is None:
        emit(indent + "table: None")
        return
    emit(indent + "table.headings: %r line=%r" % (list(table.headings), table.line))
    for row in table.rows:
        emit(indent + "  row: %r headings=%r line=%r" %
             (list(row.cells), list(row.headings), row.line))


def dump_step(step, indent="      "):
    emit(indent + "step: %s|%s|%r line=%r file=%r" %
         (step.step_type, step.keyword, step.name, step.line, step.filename))
    emit(indent + "  text: %r" % (step.text,))
    dump_table(step.table, indent + "  ")


def dump_scenario(scenario, indent="    "):
    emit(indent + "scenario: name=%r" % scenario.name)
    emit(indent + "  type=%s keyword=%r line=%r filename=%r" %
         (type(scenario).__name__, scenario.keyword, scenario.line,
          scenario.filename))
    emit(indent + "  tags=%r" % ([(("%s" % t), type(t).__name__,
                                   getattr(t, "line", None))
                                  for t in scenario.tags],))
    emit(indent + "  effective_tags=%r" % (sorted(scenario.effective_tags),))
    emit(indent + "  description=%r" % (scenario.description,))
    row = getattr(scenario, "_row", None)
    if row is not None:
        emit(indent + "  _row: cells=%r id=%r index=%r line=%r" %
             (list(row.cells), getattr(row, "id", None),
              getattr(row, "index", None), row.line))
    emit(indent + "  parent_is_outline=%r feature_is_same=%r background=%r" %
         (isinstance(scenario.parent, ScenarioOutline),
          scenario.feature is scenario.parent.feature if scenario.parent else None,
          scenario.background is not None))
    for step in scenario.steps:
        dump_step(step, indent + "  ")
    bsteps = scenario.background_steps
    emit(indent + "  background_steps: %d" % len(bsteps))
    for step in bsteps:
        dump_step(step, indent + "    ")
    emit(indent + "  all_steps=%r" % ([s.name for s in scenario.all_steps],))


def dump_outline(outline, label=""):
    emit("  OUTLINE %s name=%r line=%r tags=%r" %
         (label, outline.name, outline.line, ["%s" % t for t in outline.tags]))
    buf = io.StringIO()
    with contextlib.redirect_stdout(buf):
        scenarios = outline.scenarios
    emit("    printed=%r" % buf.getvalue())
    emit("    count=%d same_cache=%r" %
         (len(scenarios), outline.scenarios is scenarios))
    for example in outline.examples:
        emit("    examples: name=%r index=%r line=%r tags=%r modified=%r" %
             (example.name, example.index, example.line,
              ["%s" % t for t in example.tags],
              None if example.table is None else example.table.modified))
    for scenario in scenarios:
        dump_scenario(scenario)
    # -- template immutability
    emit("    template.name=%r" % outline.name)
    for step in outline.steps:
        dump_step(step, "    T-")
    for example in outline.examples:
        dump_table(example.table, "    E-")
    return scenarios


def outlines_of(feature):
    for item in feature.run_items if hasattr(feature, "run_items") else feature.scenarios:
        if isinstance(item, ScenarioOutline):
            yield item
        elif hasattr(item, "scenarios") and not isinstance(item, model.Scenario):
            for sub in item.scenarios:
                if isinstance(sub, ScenarioOutline):
                    yield sub


FEATURES = {}

FEATURES["basic"] = u'''
Feature: Basic
  Scenario Outline: Use <name> and <size>
    Given a <name> thing
    When size is <size>
    Then <name> has <size> and <unknown>

    Examples: Alpha
      | name  | size |
      | Alice | 1    |
      | Bob   | 22   |

    Examples: Beta
      | size | name    |
      | 333  | Charly  |
'''

FEATURES["rich"] = u'''
@feature_tag
Feature: Rich
  Background:
    Given a background step
    And another plain step

  @outline_tag @param.<kind> @both.<kind>.<amount> @unknown.<nope> @x=<amount>
  Scenario Outline: Buy <amount> of <kind> -- <kind>
    Outline description line 1
    with <kind> placeholder text

    Given a <kind> with text:
      """
      Dear <kind>,
      you owe <amount> <amount>. <nope> <>
      """
    When I use the table:
      | <kind> | col_<amount> | fixed |
      | <kind> | <amount>     | none  |
      | a<kind>b<amount>c | <kind><kind> | <kin d> |
    Then no placeholders here
    But "<amount>" is quoted and <amount>< kind> stays

    @ex1 @ex.<kind>
    Examples: First <kind> block
      | kind   | amount |
      | apple  | 3      |
      | äpfel  |        |
      | <amount> | <kind> |
      | kind   | amount |

    Examples:
      | amount | kind | extra |
      | 7      | pear | e1    |

    @ex3
    Examples: Empty one
      | kind | amount |

    @ex4a @ex4b
    Examples: Last
      | extra | amount | kind        |
      | <x>   | 10 000 | water melon |
      | é     | <<>>   | a>b<c       |
'''

FEATURES["bg_param"] = u'''
Feature: Background with placeholders
  Background:
    Given a user <user>
    And a fixed step
    And a table for <user>:
      | who    |
      | <user> |

  Scenario Outline: Login <user>
    When <user> logs in with <pw>
    Then ok

    Examples:
      | user | pw |
      | ann  | s3 |
      | ben  | <user> |
'''

FEATURES["no_examples"] = u'''
Feature: No examples
  Scenario Outline: Nothing <here>
    Given a <here> step
'''

FEATURES["no_table"] = u'''
Feature: No table
  Scenario Outline: Something <here>
    Given a <here> step

    Examples: Without table

    Examples: With table
      | here |
      | v1   |
'''

FEATURES["rule"] = u'''
Feature: With rule
  Rule: R1
    Background:
      Given rule background <p>

    @r.<p>
    Scenario Outline: In rule <p>
      Given step <p>

      Examples: E
        | p |
        | 1 |
        | 2 |
'''

FEATURES["templated_examples_name"] = u'''
Feature: Names
  Scenario Outline: SO <a> <row.id> <examples.name> <examples.index> <row.index>
    Given step <a> <row.id> <examples.index>

    Examples: EX <a> <row.id> <examples.index> <row.index>
      | a |
      | p |
      | q |
    Examples: Second <examples.name>
      | a | row.id |
      | r | OVERRIDE |
'''

FEATURES["special"] = u'''
Feature: Special
  @t<a> @<a> @<b>.<a> @with\\_<a>
  Scenario Outline: <a><b><a>
    Given <a> then <b>
    When <b> then <a>

    Examples:
      | a   | b   |
      | <b> | x   |
      | y   | <a> |
      |     |     |
      | a b | c d |
      | ☃   | ✓ ü |
'''

SCHEMAS = [
    None,
    u"{name} -- @{row.id} {examples.name}",
    u"{name} -*- {examples.name}@{row.id}",
    u"{name} ({examples.index}/{row.index}) {examples.id} {row.name}",
    u"{name}",
    u"fixed",
    u"{name} {unknown}",
    u"{name} {row.nope}",
]


def run_parsed():
    for key in sorted(FEATURES):
        for schema in SCHEMAS:
            emit("=" * 20, "FEATURE", key, "schema=%r" % (schema,))
            try:
                feature = parse_feature(FEATURES[key].lstrip("\n"),
                                        filename="%s.feature" % key)
            except Exception as e:  # noqa
                emit("  PARSE-ERROR %s: %s" % (type(e).__name__, e))
                continue
            for outline in outlines_of(feature):
                if schema is not None:
                    outline.annotation_schema = schema
                try:
                    dump_outline(outline)
                    # second access: cached
                    again = outline.scenarios
                    emit("    again_same=%r" % (again is outline.scenarios,))
                    emit("    iter=%r" % ([s.name for s in outline],))
                    emit("    status=%s duration=%r" %
                         (outline.status, outline.duration))
                except Exception as e:  # noqa
                    emit("  ERROR %s: %s" % (type(e).__name__, e))
            if key not in ("rich", "basic") and schema is None:
                pass
            if key not in ("rich", "basic", "special") :
                break


def run_table_api():
    emit("=" * 20, "TABLE API")
    feature = parse_feature(FEATURES["basic"].lstrip("\n"), filename="b.feature")
    outline = list(outlines_of(feature))[0]
    first = dump_outline(outline, "initial")
    t0 = outline.examples[0].table
    t1 = outline.examples[1].table
    emit("  modified flags:", t0.modified, t1.modified)

    t0.add_row([u"Dora", u"4"])
    emit("  after add_row flags:", t0.modified, t1.modified)
    second = dump_outline(outline, "after add_row")
    emit("  rebuilt=%r old_len=%d" % (second is not first, len(first)))

    t1.add_row([u"5", u"Emil"], line=99)
    third = dump_outline(outline, "after add_row line=99")
    emit("  rebuilt=%r" % (third is not second,))

    idx = t0.add_column(u"unknown", values=[u"u1", u"u2"], default_value=u"dflt")
    emit("  add_column ->", idx, t0.modified)
    dump_outline(outline, "after add_column")

    idx = t1.add_column(u"unknown")
    emit("  add_column ->", idx)
    dump_outline(outline, "after add_column t1")

    idx = t1.add_column(u"more", values=iter([u"m1", u"m2", u"m3"]))
    emit("  add_column iter ->", idx, [list(r.cells) for r in t1.rows])
    vals = [u"z"]
    idx = t0.add_column(u"zz", values=vals, default_value=u"-")
    emit("  add_column short list ->", idx, vals, [list(r.cells) for r in t0.rows])
    try:
        t0.add_column(u"zz")
    except AssertionError as e:
        emit("  add_column dup: AssertionError %r" % ("%s" % e,))

    t0.remove_column(u"size")
    emit("  remove_column flags:", t0.modified)
    dump_outline(outline, "after remove_column")

    try:
        t0.remove_column(u"nope")
    except Exception as e:  # noqa
        emit("  remove_column unknown: %s %s" % (type(e).__name__, e))

    t1.remove_columns([u"unknown", u"more"])
    dump_outline(outline, "after remove_columns")

    emit("  ensure:", t1.ensure_column_exists(u"size"),
         t1.ensure_column_exists(u"brand_new"), t1.modified)
    dump_outline(outline, "after ensure_column_exists")
    try:
        emit("  require:", t1.require_column(u"size"))
        t1.require_columns([u"size", u"gone"])
    except AssertionError as e:
        emit("  require: AssertionError %s" % e)

    t0.clear()
    emit("  clear:", t0.headings, t0.rows, t0.modified)
    dump_outline(outline, "after clear")
    t0.add_row([u"N", u"U", u"Z"])
    dump_outline(outline, "after clear+add_row")
    t0.clear(headings=[u"name"])
    t0.add_row(Row([u"name"], [u"RowObj"], line=7))
    dump_outline(outline, "after clear(headings)+add Row object")
    t0.clear(keep_headings=False)
    emit("  clear2:", t0.headings, t0.rows, t0.modified)
    dump_outline(outline, "after clear(keep_headings=False)")

    # -- direct flag handling
    t1.modified = False
    before = outline.scenarios
    t1.rows.append(Row(t1.headings, [u"9", u"Zed", u"", u""], line=55))
    emit("  silent append keeps cache=%r" % (outline.scenarios is before))
    t1.modified = True
    after = dump_outline(outline, "after modified=True")
    emit("  rebuilt=%r" % (after is not before))

    # -- replace table by None / new examples
    outline.examples[1].table = None
    dump_outline(outline, "table None, nothing modified")
    t0.modified = True
    dump_outline(outline, "table None + rebuild")
    outline.examples.append(Examples(u"b.feature", 40, u"Examples", u"Added",
                                     tags=[Tag(u"added", 39)],
                                     table=Table([u"name", u"size"],
                                                 rows=[[u"Q", u"0"]], line=41)))
    dump_outline(outline, "examples appended")
    emit("  expected_count=%r any_modified=%r" %
         (outline._expected_scenarios_count(),
          outline._is_any_example_table_modified()))
    outline.examples = []
    emit("  no examples: %r %r %r" % (outline.scenarios is not None,
                                      len(outline.scenarios),
                                      outline._is_any_example_table_modified()))


def run_builder_direct():
    emit("=" * 20, "BUILDER DIRECT")
    B = ScenarioOutlineBuilder
    row = Row([u"a", u"b", u"c"], [u"1", u"<c>", u"<a>"], line=3)
    empty_row = Row([], [], line=1)
    texts = [u"", u"plain", u"<a>", u"<a", u"a>", u"> <", u"<a><b><c>", u"<b>",
             u"<c><b>", u"<A>", u"< a >", u"<a> <a> <a>", u"<x> <a> <y>",
             u"<<a>>", u"☃<b>☃"]
    for text in texts:
        for r in (row, empty_row, None):
            for params in (None, {}, {u"x": u"X", u"a": u"PA"},
                           {u"y": u"<a>", u"x": u"<y>"}):
                try:
                    emit("  render(%r, row=%s, params=%r) -> %r" %
                         (text, None if r is None else list(r.cells),
                          sorted(params.items()) if params else params,
                          B.render_template(text, r, params)))
                except Exception as e:  # noqa
                    emit("  render(%r) ERROR %s: %s" % (text, type(e).__name__, e))
    for bad in (None, 5):
        try:
            emit("  render(%r) -> %r" % (bad, B.render_template(bad, row)))
        except Exception as e:  # noqa
            emit("  render(%r) ERROR %s: %s" % (bad, type(e).__name__, e))
    for bad_params in ({u"a": 1}, {u"zz": 1}, {u"a": None}):
        for text in (u"<a> <zz>", u"plain"):
            try:
                emit("  render(%r, params=%r) -> %r" %
                     (text, bad_params,
                      B.render_template(text, None, bad_params)))
            except Exception as e:  # noqa
                emit("  render(%r, %r) ERROR %s: %s" %
                     (text, bad_params, type(e).__name__, e))
    # dict as row
    from collections import OrderedDict
    od = OrderedDict([(u"a", u"<b>"), (u"b", u"B")])
    emit("  render dict-row -> %r" % B.render_template(u"<a>|<b>", od))
    od = OrderedDict([(u"b", u"B"), (u"a", u"<b>")])
    emit("  render dict-row2 -> %r" % B.render_template(u"<a>|<b>", od))

    # -- make_row_tags
    for tags in (None, [], [u"a", u"<a>", u"x.<a>.<b>", u"<c>", u"<nope>",
                            u"<b>", u"v=<a> b", u"<a", u"a>"]):
        for params in (None, {u"nope": u"YES"}):
            try:
                result = B.make_row_tags(tags, row, params)
                emit("  make_row_tags(%r, params=%r) -> %r %r" %
                     (tags, params, result, [type(t).__name__ for t in result]))
            except Exception as e:  # noqa
                emit("  make_row_tags ERROR %s: %s" % (type(e).__name__, e))

    # -- make_step_for_row
    table = Table([u"<a>", u"h<b>", u"plain"],
                  rows=[[u"<a>", u"<b>", u"<c>"], [u"x<a>y", u"", u"<d>"]],
                  line=10)
    step = Step(u"f.feature", 9, u"Given", u"given", u"step <a> <b> <p>",
                text=Text(u"text <a>\n<c> <p>", u"text/plain", 11),
                table=table)
    for r in (row, empty_row, Row([u"a"], [u""], line=2),
              Row([u"b", u"a"], [u"<a>", u"<b>"], line=2),
              Row([u"a", u"a"], [u"first", u"second"], line=2)):
        for params in (None, {u"p": u"P", u"a": u"PARAM-A"}):
            new_step = B.make_step_for_row(step, r, params)
            emit("  make_step_for_row row=%r params=%r" % (list(r.cells), params))
            dump_step(new_step, "    ")
            emit("    text type=%s content_type=%r line=%r" %
                 (type(new_step.text).__name__,
                  getattr(new_step.text, "content_type", None),
                  getattr(new_step.text, "line", None)))
            emit("    is_copy=%r table_copy=%r heading_shared=%r" %
                 (new_step is not step, new_step.table is not table,
                  all(rr.headings is new_step.table.headings
                      for rr in new_step.table.rows)))
    dump_step(step, "  ORIG ")
    step2 = Step(u"f.feature", 9, u"Given", u"given", u"no table <a>")
    dump_step(B.make_step_for_row(step2, row), "  NT ")
    step3 = Step(u"f.feature", 9, u"Given", u"given", u"empty table <a>",
                 table=Table([], line=4))
    dump_step(B.make_step_for_row(step3, row), "  ET ")
    step4 = Step(u"f.feature", 9, u"Given", u"given", u"headings only",
                 table=Table([u"<a>", u"<b>"], line=4))
    dump_step(B.make_step_for_row(step4, row), "  HO ")

    # -- aliasing: rows sharing one cells list, cells list is the headings list
    shared = [u"<a>", u"<b>", u"<a><b>"]
    hdr = [u"<a>", u"<b>"]
    alias_table = Table(hdr, rows=[shared[:2]] , line=1)
    alias_table.rows.append(Row(hdr, shared, line=3))
    alias_table.rows.append(Row(hdr, shared, line=4))
    alias_table.rows.append(Row(hdr, hdr, line=5))
    step5 = Step(u"f.feature", 9, u"Given", u"given", u"aliasing <a>",
                 table=alias_table)
    for r in (Row([u"a", u"b"], [u"<b>", u"Z<a>"], line=2),
              Row([u"b", u"a"], [u"Z<a>", u"<b>"], line=2),
              Row([u"a", u"b"], [u"x<a>", u"<a><b>"], line=2)):
        ns = B.make_step_for_row(step5, r)
        emit("  ALIAS row=%r" % (list(r.cells),))
        dump_step(ns, "    ")
        emit("    shared kept: %r %r" % (
            ns.table.rows[1].cells is ns.table.rows[2].cells,
            ns.table.rows[3].cells is ns.table.headings))
    dump_step(step5, "  ALIAS-ORIG ")

    # -- is_parametrized_step / has_parametrized_steps
    emit("  is_parametrized_step:", B.is_parametrized_step(step),
         B.is_parametrized_step(Step(u"f", 1, u"Given", u"given", u"x")))
    try:
        B.is_parametrized_step("nostep")
    except TypeError as e:
        emit("  is_parametrized_step TypeError: %s" % e)
    emit("  has_parametrized_steps:", B.has_parametrized_steps([]),
         B.has_parametrized_steps([step2]), B.has_parametrized_steps(
             [Step(u"f", 1, u"Given", u"given", u"x")]))

    # -- make_scenario_name
    builder = B()
    ex = Examples(u"f.feature", 20, u"Examples", u"EX <a>", table=None)
    ex.index = 2
    row.index = 5
    row.id = u"2.5"
    full = {u"examples.index": u"2", u"row.index": u"5"}
    for params in (None, {}, dict(full), dict(full, **{u"row.id": u"custom"}),
                   dict(full, **{u"examples.name": u"zzz", u"row.id": u"2.5"})):
        before = None if params is None else sorted(params.items())
        try:
            result = builder.make_scenario_name(
                u"N <a> <row.id> <examples.name> <examples.index>", ex, row,
                params)
        except Exception as e:  # noqa
            result = "ERROR %s: %s" % (type(e).__name__, e)
        emit("  make_scenario_name params=%r -> %r ; params after=%r" %
             (before, result,
              None if params is None else sorted(params.items())))
    ex2 = Examples(u"f.feature", 20, u"Examples", u"", table=None)
    ex2.index = 1
    emit("  make_scenario_name empty ex.name -> %r" %
         builder.make_scenario_name(u"N <a>", ex2, row, dict(full)))
    ex3 = Examples(u"f.feature", 20, u"Examples", u"tmp", table=None)
    ex3.name = None
    ex3.index = 1
    try:
        emit("  make_scenario_name None ex.name -> %r" %
             builder.make_scenario_name(u"N <a>", ex3, row, dict(full)))
    except Exception as e:  # noqa
        emit("  make_scenario_name None ex.name ERROR %s: %s" %
             (type(e).__name__, e))

    # -- build_scenarios directly, with hand-made outline
    steps = [step, step2]
    exs = [
        Examples(u"f.feature", 30, u"Examples", u"One", tags=[Tag(u"e1", 29)],
                 table=Table([u"a", u"b"], rows=[[u"1", u"2"], [u"3", u"4"]],
                             line=31)),
        Examples(u"f.feature", 40, u"Examples", u"NoTable"),
        Examples(u"f.feature", 50, u"Examples", u"Two",
                 table=Table([u"c", u"a"], rows=[[u"C", u"A"]], line=51)),
        Examples(u"f.feature", 60, u"Examples", u"Zero rows",
                 table=Table([u"c", u"a"], line=61)),
    ]
    outline = ScenarioOutline(u"f.feature", 5, u"Scenario Outline",
                              u"Hand <a>-<b>-<c>", tags=[Tag(u"t.<a>", 4)],
                              steps=steps, examples=exs,
                              description=[u"d <a>"])
    for schema in (None, u"{name}#{row.id}#{examples.name}#{examples.index}"):
        b = B(schema)
        emit("  builder schema=%r effective=%r" % (schema, b.annotation_schema))
        buf = io.StringIO()
        with contextlib.redirect_stdout(buf):
            scenarios = b.build_scenarios(outline)
        emit("  printed=%r" % buf.getvalue())
        for s in scenarios:
            dump_scenario(s, "    ")
        emit("  indexes: %r" % ([(e.index, None if e.table is None else
                                  [(r.index, r.id) for r in e.table.rows],
                                  None if e.table is None else e.table.modified)
                                 for e in exs],))
    dump_outline(outline, "hand-made via property")
    emit("  outline effective_tags=%r" % (sorted(outline.effective_tags),))
    emit("  expected=%r modified=%r" % (outline._expected_scenarios_count(),
                                        outline._is_any_example_table_modified()))
    outline.reset()
    emit("  after reset status=%s" % outline.status)

    # -- non-text cell values are rejected by Row
    try:
        Row([u"a"], [1])
    except AssertionError as e:
        emit("  Row non-text: AssertionError %s" % e)


def run_cli():
    import os, subprocess, tempfile, shutil, re
    emit("=" * 20, "CLI")
    tmp = tempfile.mkdtemp(prefix="c06twin")
    try:
        os.makedirs(os.path.join(tmp, "features", "steps"))
        for key in ("rich", "bg_param", "basic", "no_table", "rule"):
            with io.open(os.path.join(tmp, "features", key + ".feature"), "w",
                         encoding="utf-8") as f:
                f.write(FEATURES[key].lstrip("\n"))
        with io.open(os.path.join(tmp, "features", "steps", "s.py"), "w",
                     encoding="utf-8") as f:
            f.write(u"""# -*- coding: utf-8 -*-
from behave import step
@step(u'{anything}')
def step_any(ctx, anything):
    row = ctx.active_outline
    print(u"STEP %s | row=%s | text=%r | table=%s" % (
        anything, None if row is None else list(row.cells), ctx.text,
        None if ctx.table is None else
        [list(ctx.table.headings)] + [list(r.cells) for r in ctx.table.rows]))
    assert u"Bob" not in anything
""")
        with io.open(os.path.join(tmp, "features", "environment.py"), "w",
                     encoding="utf-8") as f:
            f.write(u"""# -*- coding: utf-8 -*-
def before_scenario(ctx, scenario):
    print(u"HOOK before_scenario %s @%s tags=%s" % (
        scenario.name, scenario.line, [u"%s" % t for t in scenario.tags]))
def after_scenario(ctx, scenario):
    print(u"HOOK after_scenario %s %s" % (scenario.name, scenario.status.name))
def before_tag(ctx, tag):
    print(u"HOOK before_tag %s" % tag)
""")
        env = dict(os.environ, PYTHONPATH="/tmp/wtW/C06", PYTHONIOENCODING="utf-8",
                   LC_ALL="C.UTF-8")
        for args in (["-f", "plain", "--no-capture"],
                     ["-f", "pretty", "--no-color", "--dry-run"],
                     ["-f", "plain", "--tags=ex.apple", "--no-skipped"],
                     ["-f", "plain", "--tags=param.pear or r.2", "--no-skipped"],
                     ["-f", "plain", "--name", "Bob", "--no-skipped"],
                     ["-f", "json.pretty", "--dry-run"],
                     ["-f", "plain", "--stop"],
                     ["-f", "steps.usage", "--dry-run"],
                     ["-f", "plain", "features/basic.feature:9"]):
            proc = subprocess.Popen(
                [sys.executable, "-m", "behave", "--no-timings"] + args,
                cwd=tmp, env=env, stdout=subprocess.PIPE,
                stderr=subprocess.STDOUT)
            out = proc.communicate()[0].decode("utf-8", "replace")
            out = out.replace(tmp, "<TMP>")
            out = re.sub(r"Took \d+m[\d.]+s", "Took XmYs", out)
            out = re.sub(r'"duration": [\d.e-]+', '"duration": D', out)
            out = re.sub(r'(File "/tmp/wtW/C06/behave/[^"]+", line )\d+',
                         r"\1N", out)
            emit("-" * 10, "behave", " ".join(args), "rc=%s" % proc.returncode)
            emit(out)
    finally:
        shutil.rmtree(tmp, ignore_errors=True)


def main():
    run_cli()
    run_parsed()
    run_table_api()
    run_builder_direct()
    text = "\n".join(OUT) + "\n"
    if sys.version_info[0] >= 3:
        sys.stdout.buffer.write(text.encode("utf-8"))
    else:
        sys.stdout.write(text.encode("utf-8"))


if __name__ == "__main__":
    main()
