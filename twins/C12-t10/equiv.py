# -*- coding: UTF-8 -*-
"""
Equivalence transcript for property C12 (hooks: nesting, pairing, containment).

Builds several feature trees in memory, runs them with a ModelRunner whose
hooks are generated functions that log (name, element, tag), and injects a
fault (Exception or AssertionError) into EVERY hook call of the fault-free
run in turn, plus pairs of injection points, with tag selection, name
selection, --stop, --dry-run, --show-skipped and verbose variations.
Prints a canonical transcript (hook log, formatter/reporter protocol,
statuses, error messages, verdict, captured stdout).
"""
from __future__ import absolute_import, print_function
import sys
sys.path.insert(0, "/tmp/wtV/C12")

import io
import re
import itertools
import contextlib
from behave.configuration import Configuration
from behave.parser import parse_feature
from behave.runner import ModelRunner
from behave.step_registry import StepRegistry
from behave.formatter.base import Formatter, StreamOpener
from behave.api.pending_step import StepNotImplementedError

FOCUS = "@FOCUS@"

# ---------------------------------------------------------------------------
# FEATURE TREES
# ---------------------------------------------------------------------------
FEATURE_A = u"""
@fa @fb
Feature: Alpha
  Background: B
    Given a passing step

  @s1 @s1b
  Scenario: A1
    When a passing step
    Then a passing step

  @s2
  Scenario: A2
    When a failing step
    Then a passing step

  Scenario: A3
    When a passing step
"""

FEATURE_B = u"""
@fr
Feature: Beta
  Scenario: B0
    Given a passing step

  @r1 @r1b
  Rule: R1
    @rs1
    Scenario: B1
      Given a passing step
      When an erroring step

    Scenario: B2
      Given a passing step

  Rule: R2
    @wip
    Scenario: B3
      Given a pending step

    @o1
    Scenario Outline: BO <n>
      Given a passing step
      When a <kind> step

      @e1
      Examples: E
        | n | kind    |
        | 1 | passing |
        | 2 | failing |
"""

FEATURE_C = u"""
Feature: Gamma
  @g1
  Scenario: C1
    Given a passing step
    When an undefined step
    Then a passing step

  @g2
  Scenario: C2
    Given a step that skips the scenario
    Then a passing step

  Scenario: C3
    Given a step that prints
    Then a passing step
"""

FEATURE_EMPTY = u"""
@empty
Feature: Empty
"""

FEATURE_D = u"""
@fd
Feature: Delta
  @d1
  Scenario: D1
    Given a passing step
  @d2
  Scenario: D2
    Given a passing step
"""

FEATURE_K = u"""
Feature: Kappa
  Scenario: K1
    Given a passing step
  Scenario: K2
    Given a step that interrupts
    Then a passing step
  Scenario: K3
    Given a passing step
"""

TREES = {
    "KD": [("k.feature", FEATURE_K), ("d.feature", FEATURE_D)],
    "DKD": [("d.feature", FEATURE_D), ("k.feature", FEATURE_K),
            ("d2.feature", FEATURE_D)],
    "A": [("a.feature", FEATURE_A)],
    "B": [("b.feature", FEATURE_B)],
    "C": [("c.feature", FEATURE_C)],
    "ABD": [("a.feature", FEATURE_A), ("b.feature", FEATURE_B),
            ("d.feature", FEATURE_D)],
    "ED": [("e.feature", FEATURE_EMPTY), ("d.feature", FEATURE_D)],
    "CD": [("c.feature", FEATURE_C), ("d.feature", FEATURE_D)],
}


# ---------------------------------------------------------------------------
# STEPS
# ---------------------------------------------------------------------------
def make_step_registry():
    registry = StepRegistry()

    def step_passing(context):
        pass

    def step_failing(context):
        assert False, "XFAIL-STEP"

    def step_erroring(context):
        raise RuntimeError("XERROR-STEP")

    def step_pending(context):
        raise StepNotImplementedError("XPENDING")

    def step_skips(context):
        context.scenario.skip("skipped by step")

    def step_prints(context):
        print("HELLO from step")

    def step_interrupts(context):
        raise KeyboardInterrupt()

    registry.add_step_definition("step", u"a passing step", step_passing)
    registry.add_step_definition("step", u"a failing step", step_failing)
    registry.add_step_definition("step", u"an erroring step", step_erroring)
    registry.add_step_definition("step", u"a pending step", step_pending)
    registry.add_step_definition("step", u"a step that skips the scenario", step_skips)
    registry.add_step_definition("step", u"a step that prints", step_prints)
    registry.add_step_definition("step", u"a step that interrupts", step_interrupts)
    return registry


# ---------------------------------------------------------------------------
# RECORDERS
# ---------------------------------------------------------------------------
class RecordingFormatter(Formatter):
    name = "recording"

    def __init__(self, log, config):
        super(RecordingFormatter, self).__init__(
            StreamOpener(stream=io.StringIO()), config)
        self.log = log

    def uri(self, uri):
        self.log.append("F.uri %s" % uri)

    def feature(self, feature):
        self.log.append("F.feature %s" % feature.name)

    def rule(self, rule):
        self.log.append("F.rule %s" % rule.name)

    def rule_finished(self):
        self.log.append("F.rule_finished")

    def background(self, background):
        self.log.append("F.background %s" % background.name)

    def scenario(self, scenario):
        self.log.append("F.scenario %s" % scenario.name)

    def step(self, step):
        self.log.append("F.step %s" % step.name)

    def match(self, match):
        self.log.append("F.match %s" % match.__class__.__name__)

    def result(self, step):
        self.log.append("F.result %s %s" % (step.name, step.status.name))

    def eof(self):
        self.log.append("F.eof")

    def close(self):
        self.log.append("F.close")


class RecordingReporter(object):
    def __init__(self, log):
        self.log = log

    def feature(self, feature):
        self.log.append("R.feature %s %s" % (feature.name, feature.status.name))

    def end(self):
        self.log.append("R.end")


class Injector(object):
    """Generates logging hook functions; the k-th call raises."""
    HOOK_NAMES = ["before_all", "after_all", "before_feature", "after_feature",
                  "before_rule", "after_rule", "before_scenario",
                  "after_scenario", "before_step", "after_step",
                  "before_tag", "after_tag"]

    def __init__(self, log, faults=None, skip_marks=None, hook_names=None,
                 cleanups=None):
        self.log = log
        self.cleanups = cleanups or ()
        self.faults = faults or {}      # call-index -> exception class
        self.skip_marks = skip_marks or ()
        self.count = 0
        self.hook_names = hook_names or self.HOOK_NAMES

    def make_hooks(self):
        return dict((name, self.make_hook(name)) for name in self.hook_names)

    def make_hook(self, name):
        def hook(context, *args):
            index = self.count
            self.count += 1
            if not args:
                what = "-"
            elif "tag" in name:
                what = "tag=%s" % args[0]
            else:
                what = "%s:%s" % (args[0].__class__.__name__, args[0].name)
            active = sorted(getattr(context, "tags", None) or [])
            self.log.append("H[%d] %s %s tags=%s" %
                            (index, name, what, ",".join(active)))
            if (name, what) in self.skip_marks:
                args[0].mark_skipped()
                self.log.append("H[%d] mark_skipped" % index)
            if (name, what) in self.cleanups:
                def bad_cleanup():
                    self.log.append("CLEANUP for H[%d] %s" % (index, name))
                    raise RuntimeError("BAD-CLEANUP-%d" % index)
                context.add_cleanup(bad_cleanup)
            if name.startswith("before_") and "tag" not in name and args:
                print("PRINT from %s %s" % (name, what))
            exc_class = self.faults.get(index)
            if exc_class is not None:
                raise exc_class("BOOM-%d in %s" % (index, name))
        hook.__name__ = str(name)
        return hook


# ---------------------------------------------------------------------------
# RUN ONE PROGRAM
# ---------------------------------------------------------------------------
_LINE_NO = re.compile(r"line \d+")
_ADDR = re.compile(r"0x[0-9a-fA-F]+")
_DURATION = re.compile(r"\d+\.\d+s")


def normalize(text):
    text = _LINE_NO.sub("line N", text)
    text = _ADDR.sub("0xX", text)
    text = _DURATION.sub("T.TTTs", text)
    return text


@contextlib.contextmanager
def captured_stdout():
    saved = sys.stdout
    sys.stdout = io.StringIO()
    try:
        yield sys.stdout
    finally:
        sys.stdout = saved


def describe_element(element, indent, out):
    kind = element.__class__.__name__
    line = "%s%s %s: status=%s hook_failed=%s" % (
        "  " * indent, kind, element.name, element.status.name,
        getattr(element, "hook_failed", None))
    skip = getattr(element, "should_skip", None)
    if skip:
        line += " should_skip"
    out.append(line)
    message = getattr(element, "error_message", None)
    if message:
        for part in message.splitlines():
            out.append("%s  | %s" % ("  " * indent, part))
    exception = getattr(element, "exception", None)
    if exception is not None:
        out.append("%s  exception=%s(%s)" % ("  " * indent,
                   exception.__class__.__name__, exception))
    captured = getattr(element, "captured", None)
    if captured is not None and kind in ("Scenario", "Step"):
        report = captured.make_report()
        if report:
            for part in report.splitlines():
                out.append("%s  C| %s" % ("  " * indent, part))
    if kind in ("Feature", "Rule"):
        for item in element.run_items:
            describe_element(item, indent + 1, out)
    elif kind == "ScenarioOutline":
        for item in element.scenarios:
            describe_element(item, indent + 1, out)
    elif kind == "Scenario":
        for step in element.all_steps:
            describe_element(step, indent + 1, out)


def run_program(tree, args=(), faults=None, skip_marks=None, hook_names=None,
                show_log=True, cleanups=None, features_as=list, uri_fault=None):
    """Returns (transcript-lines, number-of-hook-calls)."""
    out = []
    log = []
    config = Configuration(command_args=list(args), load_config=False)
    config.reporters = [RecordingReporter(log)]
    features = [parse_feature(text, filename=filename)
                for filename, text in TREES[tree]]
    runner = ModelRunner(config, features=features,
                         step_registry=make_step_registry())
    runner.formatters = [RecordingFormatter(log, config)]
    injector = Injector(log, faults, skip_marks, hook_names, cleanups)
    if uri_fault is not None:
        formatter = runner.formatters[0]
        normal_uri = formatter.uri
        def faulty_uri(uri):
            normal_uri(uri)
            if uri == uri_fault:
                raise KeyboardInterrupt()
        formatter.uri = faulty_uri
    runner.hooks = injector.make_hooks()
    verdict = None
    with captured_stdout() as stdout:
        try:
            if features_as is list:
                verdict = runner.run()
            else:
                from behave.runner import Context
                runner.context = Context(runner)
                verdict = runner.run_model(features_as(features))
            outcome = "returned %r" % (verdict,)
        except BaseException as e:  # pylint: disable=broad-except
            outcome = "RAISED %s: %s" % (e.__class__.__name__, e)
        printed = stdout.getvalue()
    out.append("outcome: %s" % outcome)
    out.append("hook_failures=%s aborted=%s undefined=%d hook_calls=%d" % (
        runner.hook_failures, runner.aborted, len(runner.undefined_steps),
        injector.count))
    if show_log:
        out.append("-- log:")
        out.extend("  " + line for line in log)
    else:
        out.append("-- hooks:")
        out.extend("  " + line for line in log if line.startswith("H["))
    out.append("-- model:")
    for feature in features:
        describe_element(feature, 1, out)
    out.append("-- stdout:")
    out.extend("  " + line for line in normalize(printed).splitlines())
    return [normalize(line) for line in out], injector.count


def section(title):
    print("=" * 70)
    print(title)
    print("=" * 70)


def show(title, lines):
    print("--- %s" % title)
    for line in lines:
        print(line)


def main():
    variations = [
        ("A", ()),
        ("B", ()),
        ("C", ()),
        ("ABD", ()),
        ("ED", ()),
        ("CD", ()),
        ("ABD", ("--stop",)),
        ("ABD", ("--dry-run",)),
        ("ABD", ("--tags=@s1 or @rs1 or @d2",)),
        ("ABD", ("--tags=not @fa", "--show-skipped")),
        ("ABD", ("--name=A2", "--name=B1", "--name=BO")),
        ("B", ("--verbose",)),
        ("CD", ("--junit", "--junit-directory=/tmp/wtV/C12/_twins/_junit_unused")),
    ]
    # -- PART 1: fault-free runs, then EVERY hook call as injection point.
    for tree, args in variations:
        if "--junit" in args:
            # -- junit reporter would be created by Configuration; replaced
            # by the RecordingReporter in run_program (no files written).
            pass
        title = "tree=%s args=%s" % (tree, " ".join(args) or "-")
        section(title)
        lines, count = run_program(tree, args)
        show("fault-free", lines)
        for exc_class in (Exception, AssertionError):
            for k in range(count):
                # -- LIMIT: full log for single trees; hooks only for ABD.
                lines, _ = run_program(tree, args, faults={k: exc_class},
                                       show_log=(len(TREES[tree]) == 1))
                show("%s :: fault %s at call %d" %
                     (title, exc_class.__name__, k), lines)

    # -- PART 2: pairs of injection points.
    for tree, args in [("A", ()), ("B", ()), ("ED", ()), ("ED", ("--stop",))]:
        title = "PAIRS tree=%s args=%s" % (tree, " ".join(args) or "-")
        section(title)
        _, count = run_program(tree, args)
        pairs = list(itertools.combinations(range(count), 2))
        step = 1 if len(pairs) < 400 else 7
        for i, j in pairs[::step]:
            lines, _ = run_program(
                tree, args, faults={i: Exception, j: AssertionError},
                show_log=False)
            show("%s :: faults at %d,%d" % (title, i, j), lines)

    # -- PART 3: hooks that mark elements as skipped (should_run re-evaluated).
    section("SKIP-MARKS")
    marks = [
        ("A", [("before_feature", "Feature:Alpha")]),
        ("A", [("before_scenario", "Scenario:A2")]),
        ("A", [("before_tag", "tag=s1")]),
        ("B", [("before_rule", "Rule:R1")]),
        ("B", [("before_scenario", "Scenario:B1")]),
    ]
    for tree, skip_marks in marks:
        for args in ((), ("--show-skipped",)):
            lines, count = run_program(tree, args, skip_marks=skip_marks)
            show("tree=%s args=%s marks=%s" % (tree, args, skip_marks), lines)
            for k in range(0, count, 3):
                lines, _ = run_program(tree, args, faults={k: Exception},
                                       skip_marks=skip_marks, show_log=False)
                show("tree=%s args=%s marks=%s fault at %d" %
                     (tree, args, skip_marks, k), lines)

    # -- PART 4: partial hook sets (only some hooks defined).
    section("PARTIAL-HOOK-SETS")
    hook_sets = [
        ["before_all", "after_all"],
        ["before_tag", "after_tag"],
        ["before_step", "after_step"],
        ["before_scenario", "after_feature", "after_rule"],
        ["after_scenario", "before_feature", "before_rule"],
    ]
    for hook_names in hook_sets:
        for tree in ("B", "ED"):
            for args in ((), ("--verbose",), ("--stop",)):
                lines, count = run_program(tree, args, hook_names=hook_names)
                show("tree=%s args=%s hooks=%s" % (tree, args, hook_names),
                     lines)
                for k in range(count):
                    lines, _ = run_program(
                        tree, args, faults={k: AssertionError},
                        hook_names=hook_names, show_log=False)
                    show("tree=%s args=%s hooks=%s fault at %d" %
                         (tree, args, hook_names, k), lines)

    # -- PART 5: KeyboardInterrupt from steps, hooks and formatter.uri()
    section("KEYBOARD-INTERRUPT")
    for tree in ("KD", "DKD"):
        for args in ((), ("--stop",), ("--dry-run",)):
            lines, count = run_program(tree, args)
            show("tree=%s args=%s interrupting step" % (tree, args), lines)
            for k in range(count):
                lines, _ = run_program(tree, args, faults={k: KeyboardInterrupt},
                                       show_log=False)
                show("tree=%s args=%s KeyboardInterrupt at %d" %
                     (tree, args, k), lines)
    for tree, args in [("ED", ()), ("ABD", ()), ("CD", ("--stop",))]:
        lines, count = run_program(tree, args)
        for k in range(count):
            lines, _ = run_program(tree, args, faults={k: KeyboardInterrupt},
                                   show_log=False)
            show("tree=%s args=%s KeyboardInterrupt at %d" % (tree, args, k),
                 lines)
    for uri in ("d.feature", "k.feature", "d2.feature", "e.feature"):
        for tree in ("DKD", "ED"):
            lines, _ = run_program(tree, (), uri_fault=uri)
            show("tree=%s KeyboardInterrupt in formatter.uri(%s)" % (tree, uri),
                 lines)

    # -- PART 6: failing cleanups on each context layer.
    section("CLEANUP-ERRORS")
    cleanup_sets = [
        [("before_all", "-")],
        [("before_feature", "Feature:Delta")],
        [("before_feature", "Feature:Beta"), ("before_rule", "Rule:R1")],
        [("before_scenario", "Scenario:D1")],
        [("before_scenario", "Scenario:B2"), ("before_step", "Step:a passing step")],
        [("after_all", "-")],
    ]
    for cleanups in cleanup_sets:
        for tree in ("ED", "B"):
            for args in ((), ("--stop",)):
                lines, count = run_program(tree, args, cleanups=cleanups)
                show("tree=%s args=%s cleanups=%s" % (tree, args, cleanups),
                     lines)
                for k in range(0, count, 2):
                    lines, _ = run_program(tree, args, faults={k: Exception},
                                           cleanups=cleanups, show_log=False)
                    show("tree=%s args=%s cleanups=%s fault at %d" %
                         (tree, args, cleanups, k), lines)

    # -- PART 7: run_model(features) with other iterables / no features.
    section("RUN-MODEL-ITERABLES")
    for features_as in (tuple, iter, lambda fs: (f for f in fs),
                        lambda fs: []):
        for tree, args in [("ABD", ()), ("ABD", ("--stop",)), ("DKD", ())]:
            lines, count = run_program(tree, args, features_as=features_as)
            show("tree=%s args=%s iterable" % (tree, args), lines)
            for k in (0, 1, 3, count - 1):
                if k < 0:
                    continue
                lines, _ = run_program(tree, args, faults={k: Exception},
                                       features_as=features_as, show_log=False)
                show("tree=%s args=%s iterable fault at %d" % (tree, args, k),
                     lines)


if __name__ == "__main__":
    main()
