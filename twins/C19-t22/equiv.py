# -*- coding: UTF-8 -*-
"""
Equivalence transcript for property C19 (active tags exclude by the documented
per-category logic).  Prints a canonical transcript of everything observed
through the public API of behave.tag_matcher / behave.active_tag.*:
results, call logs (value provider, compare functions, lazy values,
predicates), cache state, log records, exception types and messages.
"""
from __future__ import print_function
import sys
sys.path.insert(0, "/tmp/wtX/C19")

import itertools
import logging
import operator
import re

import behave
assert behave.__file__.startswith("/tmp/wtX/C19/"), behave.__file__
from behave import tag_matcher as tm
from behave.tag_matcher import (
    ActiveTagMatcher, CompositeTagMatcher, PredicateTagMatcher, TagMatcher,
    ValueObject, NumberValueObject, BoolValueObject,
    ActiveTagValueProvider, CompositeActiveTagValueProvider,
    setup_active_tag_values, print_active_tags, bool_to_string,
)
from behave._types import Unknown

LOG = []


_ADDRESS = re.compile(r" at 0x[0-9a-fA-F]+")


def out(*parts):
    print(_ADDRESS.sub(" at 0x?", " ".join(str(p) for p in parts)))


def flush_log(label="calls"):
    if LOG:
        out("   ", label + ":", " ; ".join(LOG))
    del LOG[:]


def show(value):
    if value is Unknown:
        return "<Unknown>"
    if isinstance(value, ValueObject):
        return "<%s>" % value.__class__.__name__
    if callable(value):
        return "<callable:%s>" % type(value).__name__
    return repr(value)


class LogHandler(logging.Handler):
    def emit(self, record):
        LOG.append("LOG[%s:%s] %s" % (record.name, record.levelname,
                                      record.getMessage()))


_logger = logging.getLogger("behave.active_tags")
_logger.addHandler(LogHandler())
_logger.propagate = False
_logger.setLevel(logging.DEBUG)


def guarded(label, func, *args, **kwargs):
    try:
        result = func(*args, **kwargs)
        out(label, "->", show(result) if not isinstance(result, (bool, list, tuple, dict))
            else repr(result))
        return result
    except BaseException as e:     # noqa
        out(label, "-> RAISED", type(e).__name__ + ":", str(e))
    finally:
        flush_log()


# ---------------------------------------------------------------------------
# HELPERS: logging value providers, compare functions, lazy values
# ---------------------------------------------------------------------------
class LoggingProvider(object):
    """Mapping-like value provider that records each get() call."""
    def __init__(self, name, data):
        self.name = name
        self.data = data

    def get(self, category, default=None):
        LOG.append("%s.get(%s,%s)" % (self.name, category, show(default)))
        return self.data.get(category, default)

    def keys(self):
        return self.data.keys()


class NoKeysProvider(object):
    def __init__(self, data):
        self._data = data

    def get(self, category, default=None):
        LOG.append("nokeys.get(%s,%s)" % (category, show(default)))
        return self._data.get(category, default)


class RaisingProvider(object):
    def get(self, category, default=None):
        LOG.append("raising.get(%s)" % category)
        raise KeyError("provider-broken:%s" % category)


def logging_compare(name, func):
    def compare(current, tag_value):
        LOG.append("%s(%r,%r)" % (name, current, tag_value))
        return func(current, tag_value)
    return compare


def lazy(name, value):
    def current_value():
        LOG.append("lazy:%s" % name)
        return value
    return current_value


class Truthy(object):
    """Non-bool comparison result with an observable truth-value test."""
    def __init__(self, name, flag):
        self.name = name
        self.flag = flag

    def __bool__(self):
        LOG.append("bool(%s)" % self.name)
        return self.flag
    __nonzero__ = __bool__


def describe_groups(matcher, tags):
    groups = []
    for category, pairs in matcher.group_active_tags_by_category(tags):
        groups.append((category, [(tag, m.group("prefix"), m.group("category"),
                                   m.group("value")) for tag, m in pairs]))
    return groups


def verdict(matcher, tags):
    matcher.exclude_reason = None
    try:
        excluded = matcher.should_exclude_with(tags)
        run = matcher.should_run_with(tags)
        text = "exclude=%r run=%r reason=%r" % (excluded, run,
                                                 matcher.exclude_reason)
    except BaseException as e:  # noqa
        text = "RAISED %s: %s" % (type(e).__name__, e)
    return text


# ---------------------------------------------------------------------------
# SECTION 1: exhaustive truth table over small universes
# ---------------------------------------------------------------------------
def section_truth_table():
    out("== SECTION 1: exhaustive truth table")
    tag_pool = [
        "use.with_a=1", "use.with_a=2", "not.with_a=1", "not.with_a=3",
        "use.with_b=x", "not.with_b=x", "not.with_b=y",
        "active.with_a=2", "not_active.with_b=y", "only.with_b=y",
        "use.with_zz=1", "not.with_zz=1",
        "wip", "use.with_a", "not.with_=1", "use.with_a.b=1",
    ]
    providers = [
        ("a1bx", {"a": "1", "b": "x"}),
        ("a2by", {"a": "2", "b": "y"}),
        ("a3", {"a": "3"}),
        ("empty", {}),
        ("a.b", {"a.b": "1", "a": "9", "b": "y"}),
    ]
    for pname, pdata in providers:
        for strict in (None, False):
            for reason in (False, True):
                matcher = ActiveTagMatcher(pdata, ignore_unknown_categories=strict)
                matcher.use_exclude_reason = reason
                out("-- provider=%s ignore_unknown=%r use_reason=%r" %
                    (pname, matcher.ignore_unknown_categories, reason))
                for size in (0, 1, 2, 3):
                    for tags in itertools.combinations(tag_pool, size):
                        if size == 3 and reason:
                            continue    # keep the transcript moderate
                        out("  ", ",".join(tags) or "-", "|", verdict(matcher, list(tags)))
    # -- DUPLICATES and ORDER (multisets, permutations)
    matcher = ActiveTagMatcher({"a": "1", "b": "x"})
    matcher.use_exclude_reason = True
    base = ["use.with_a=2", "not.with_b=x", "use.with_a=1", "use.with_a=1", "foo"]
    for tags in itertools.permutations(base, 4):
        out("   perm", ",".join(tags), "|", verdict(matcher, list(tags)),
            "| groups:", describe_groups(matcher, tags))


# ---------------------------------------------------------------------------
# SECTION 2: grouping / tag pattern / prefixes / separators
# ---------------------------------------------------------------------------
def section_grouping():
    out("== SECTION 2: grouping, tag schema, prefixes, separators")
    tags = ["use.with_os=linux", "foo", "not.with_os=win32", "use.with_browser=chrome",
            "@use.with_os=x", "use.with_os=", "use.with_os=a=b", "only.with_os=linux",
            "not_active.with_browser=safari", "active.with_python.version=3.12",
            "use.with_browser=chrome", "use.with_ os=1", "USE.with_os=linux",
            "use.with_os=linux\n", "not.with_a.b.c=1", "use.with_a..b=1", u"use.with_\xe4=1"]
    configs = [
        dict(),
        dict(tag_prefixes=["use", "not"]),
        dict(tag_prefixes=["run", "not_run"], value_separator=":"),
        dict(tag_prefixes=["use"], value_separator="=="),
        dict(tag_prefixes=[], value_separator=None),
        dict(tag_prefixes=("only", "never"), value_separator="_"),
    ]
    extra = ["run.with_os:linux", "not_run.with_os:linux", "use.with_os==linux",
             "only.with_os_linux", "never.with_os_linux", ".with_os=linux"]
    for config in configs:
        matcher = ActiveTagMatcher({"os": "linux", "browser": "firefox"}, **config)
        out("-- config", sorted(config.items()), "pattern:", matcher.tag_pattern.pattern,
            "prefixes:", matcher.tag_prefixes)
        gen = matcher.group_active_tags_by_category(tags + extra)
        out("   generator:", type(gen).__name__, hasattr(gen, "__next__") or hasattr(gen, "next"))
        out("   groups:", describe_groups(matcher, tags + extra))
        out("   selected:", [(t, m.group(0)) for t, m in matcher.select_active_tags(tags + extra)])
        for tag in tags + extra:
            out("   tag %r |" % tag, verdict(matcher, [tag]))
        out("   all |", verdict(matcher, tags + extra))
    # -- generator laziness: nothing happens before first next()
    class LoggingTags(list):
        def __iter__(self):
            LOG.append("iter(tags)")
            return list.__iter__(self)
    matcher = ActiveTagMatcher({"os": "linux"})
    gen = matcher.group_active_tags_by_category(LoggingTags(["use.with_os=linux", "not.with_x=1"]))
    flush_log("before-next")
    first = next(gen)
    flush_log("after-next")
    out("   first:", first[0], [t for t, _ in first[1]])
    out("   rest:", [(c, [t for t, _ in p]) for c, p in gen])
    # -- returned pairs list is the same object as held for the group? (mutability)
    groups = list(matcher.group_active_tags_by_category(["use.with_os=a", "use.with_os=b"]))
    out("   group types:", [(type(g).__name__, len(g), type(g[1]).__name__) for g in groups])
    # -- class-level helpers
    out("   make_category_tag:", ActiveTagMatcher.make_category_tag("os", "linux"),
        ActiveTagMatcher.make_category_tag("os"),
        ActiveTagMatcher.make_category_tag("os", "x", "not", ":"),
        ActiveTagMatcher.make_category_tag("os", 0))
    out("   make_tag_pattern:", ActiveTagMatcher.make_tag_pattern(["a", "b"]).pattern,
        ActiveTagMatcher.make_tag_pattern(["a"], "~").pattern)
    guarded("   make_tag_pattern(None)", ActiveTagMatcher.make_tag_pattern, None)
    guarded("   make_tag_pattern([1])", ActiveTagMatcher.make_tag_pattern, [1])
    guarded("   make_tag_pattern(['('])", ActiveTagMatcher.make_tag_pattern, ["("])
    # -- bad inputs
    guarded("   tags=None", matcher.should_exclude_with, None)
    guarded("   tags=[1]", matcher.should_exclude_with, [1])
    guarded("   tags=[None]", matcher.should_run_with, [None])
    guarded("   tags='use.with_os=x' (a string)", matcher.should_exclude_with, "use.with_os=x")
    guarded("   tags=generator", matcher.should_exclude_with,
            (t for t in ["use.with_os=win", "x"]))
    guarded("   tags=set", matcher.should_exclude_with, set(["use.with_os=linux"]))
    guarded("   tags=()", matcher.should_exclude_with, ())
    guarded("   value_provider=None", ActiveTagMatcher(None).should_exclude_with,
            ["use.with_os=linux"])
    strict = ActiveTagMatcher(None, ignore_unknown_categories=False)
    guarded("   value_provider=None strict", strict.should_exclude_with, ["use.with_os=linux"])
    guarded("   value_provider=None strict not", strict.should_exclude_with, ["not.with_os=linux"])
    guarded("   strict, value 'Unknown' text", strict.should_exclude_with,
            ["use.with_os=%s" % Unknown])


# ---------------------------------------------------------------------------
# SECTION 3: is_tag_group_enabled directly (call order, corner cases)
# ---------------------------------------------------------------------------
def section_group_enabled():
    out("== SECTION 3: is_tag_group_enabled")
    values = [
        ("plain", "2"),
        ("eq", ValueObject("2", logging_compare("eq", operator.eq))),
        ("lazy-eq", ValueObject(lazy("v2", "2"), logging_compare("eq", operator.eq))),
        ("num-ge", NumberValueObject(2, logging_compare("ge", operator.ge))),
        ("num-le", NumberValueObject(lazy("n2", 2), logging_compare("le", operator.le))),
        ("contains", ValueObject("123", logging_compare("contains", operator.contains))),
        ("truthy", ValueObject("2", lambda c, t: Truthy("%s==%s" % (c, t), c == t))),
        ("bool", BoolValueObject(True, logging_compare("beq", operator.eq))),
        ("none", None),
        ("int", 2),
    ]
    tag_values = ["1", "2", "3", "x", "", "yes", "off"]
    prefixes = ["use", "not", "only", "not_active"]
    for vname, value in values:
        for strict in (True, False):
            provider = LoggingProvider("vp", {"c": value})
            matcher = ActiveTagMatcher(provider, ignore_unknown_categories=strict)
            out("-- value=%s ignore_unknown=%r" % (vname, strict))
            guarded("   empty", matcher.is_tag_group_enabled, "c", [])
            guarded("   empty-unknown", matcher.is_tag_group_enabled, "zz", ())
            for n in (1, 2, 3):
                combos = list(itertools.product(prefixes, tag_values[:4]))
                for chosen in itertools.islice(itertools.combinations(combos, n), 0, 400, 7 if n == 3 else 1):
                    tags = ["%s.with_c=%s" % pv for pv in chosen]
                    pairs = list(matcher.select_active_tags(tags))
                    guarded("   " + ",".join(tags), matcher.is_tag_group_enabled, "c", pairs)
            for tval in tag_values[4:]:
                tags = ["use.with_c=" + tval, "not.with_c=" + tval]
                pairs = list(matcher.select_active_tags(tags))
                guarded("   " + ",".join(tags), matcher.is_tag_group_enabled, "c", pairs)
            # -- unknown category / category mismatch
            pairs = list(matcher.select_active_tags(["use.with_zz=1", "not.with_zz=1"]))
            guarded("   unknown zz", matcher.is_tag_group_enabled, "zz", pairs)
            pairs = list(matcher.select_active_tags(["use.with_c=2", "use.with_d=2"]))
            guarded("   mismatch", matcher.is_tag_group_enabled, "c", pairs)
            guarded("   mismatch-first", matcher.is_tag_group_enabled, "d", pairs)
    # -- is_tag_negated override is honoured and called once per tag, before matches()
    class MyMatcher(ActiveTagMatcher):
        def is_tag_negated(self, tag):
            LOG.append("negated?(%s)" % tag)
            return tag in ("never", "not")
    matcher = MyMatcher({"c": ValueObject("2", logging_compare("eq", operator.eq))},
                        tag_prefixes=["use", "never", "not", "not_active"])
    for tags in (["never.with_c=2"], ["not_active.with_c=2"], ["use.with_c=1", "never.with_c=3"],
                 ["use.with_c=2", "not.with_c=1", "never.with_c=2", "not_active.with_c=1"]):
        guarded("   override " + ",".join(tags), matcher.should_exclude_with, tags)
    # -- exceptions from compare / lazy values
    def bad_compare(current, tag_value):
        LOG.append("bad_compare(%r)" % (tag_value,))
        if tag_value in ("boom", 13):
            raise ValueError("compare-boom:%s" % tag_value)
        if tag_value == "type":
            raise TypeError("compare-type")
        return current == tag_value

    def bad_lazy():
        LOG.append("bad_lazy")
        raise RuntimeError("lazy-broken")
    matcher = ActiveTagMatcher({"c": ValueObject("2", bad_compare),
                                "n": NumberValueObject(13, bad_compare),
                                "b": BoolValueObject(True, bad_compare),
                                "l": ValueObject(bad_lazy),
                                "nl": NumberValueObject(bad_lazy)})
    for tags in (["use.with_c=boom"], ["use.with_c=2", "not.with_c=type"],
                 ["use.with_n=13"], ["not.with_n=13", "use.with_n=12"], ["use.with_n=1.5"],
                 ["not.with_n=abc"], ["use.with_n=abc"], ["use.with_n= 13 "], ["use.with_n=-0"],
                 ["use.with_b=maybe"], ["not.with_b=maybe"], ["use.with_b=YES"], ["use.with_b=Off"],
                 ["not.with_b=on", "use.with_b=true"],
                 ["use.with_l=1"], ["use.with_nl=1"], ["use.with_nl=x"]):
        guarded("   exc " + ",".join(tags), matcher.should_exclude_with, tags)
    guarded("   provider raises", ActiveTagMatcher(RaisingProvider()).should_exclude_with,
            ["foo", "use.with_q=1"])
    guarded("   provider raises (no active tag)", ActiveTagMatcher(RaisingProvider()).should_exclude_with,
            ["foo"])
    reason_matcher = ActiveTagMatcher(LoggingProvider("vp", {"c": ValueObject("2"), "d": lazy("d", "1")}))
    reason_matcher.use_exclude_reason = True
    for tags in (["use.with_c=1"], ["use.with_d=2"], ["use.with_d=1", "not.with_c=2", "use.with_e=1"],
                 ["use.with_c=2"]):
        out("   reason", ",".join(tags), "|", verdict(reason_matcher, tags))
        flush_log()
    # -- exclude_reason is sticky between calls (never reset by the matcher itself)
    reason_matcher.exclude_reason = None
    out("   sticky:", reason_matcher.should_exclude_with(["use.with_c=1"]), reason_matcher.exclude_reason,
        reason_matcher.should_exclude_with(["use.with_c=2"]), reason_matcher.exclude_reason)
    flush_log()


# ---------------------------------------------------------------------------
# SECTION 4: value objects
# ---------------------------------------------------------------------------
def section_value_objects():
    out("== SECTION 4: value objects")
    for compare_name in ("eq", "ne", "ge", "le", "gt", "lt"):
        compare = getattr(operator, compare_name)
        for current in (0, 1, 10, -3, lazy("n", 5)):
            vo = NumberValueObject(current, compare)
            for tag_value in ("0", "1", "10", "-3", "5", "+5", " 7", "1e3", "0x10", "", "abc", "5.0", u"٥"):
                guarded("   Number(%s,%s).matches(%r)" % (show(current), compare_name, tag_value),
                        vo.matches, tag_value)
            guarded("   int()", int, vo)
            guarded("   str()", str, vo)
    for current in (True, False, lazy("b", True), 0, "x"):
        for compare_name in ("eq", "ne"):
            vo = BoolValueObject(current, getattr(operator, compare_name))
            for tag_value in ("true", "True", "YES", "on", "false", "No", "OFF", "", "1", "0", "maybe", 1, 0, None):
                guarded("   Bool(%s,%s).matches(%r)" % (show(current), compare_name, tag_value),
                        vo.matches, tag_value)
            guarded("   bool()", bool, vo)
    for value in ("true", "FALSE", "on", "x", "", 1, 0, None, [], [0]):
        guarded("   to_bool(%r)" % (value,), BoolValueObject.to_bool, value)
    class GermanBool(BoolValueObject):
        TRUE_STRINGS = set(["ja"])
        FALSE_STRINGS = set(["nein"])
    for value in ("ja", "NEIN", "yes", "no"):
        guarded("   GermanBool.to_bool(%r)" % value, GermanBool.to_bool, value)
        guarded("   GermanBool(True).matches(%r)" % value, GermanBool(True).matches, value)
    vo = ValueObject("abc")
    out("   repr:", repr(vo).replace(repr(operator.eq), "<eq>"), str(vo), vo.value)
    guarded("   ValueObject(compare=None)", ValueObject, 1, None)
    guarded("   on_type_conversion_error", ValueObject.on_type_conversion_error, "xx", ValueError("E"))
    for value in (True, False, 0, "x", "", None):
        out("   bool_to_string(%r):" % (value,), bool_to_string(value))
    from behave.active_tag import python as atp, python_feature as atpf
    keys = sorted(atp.ACTIVE_TAG_VALUE_PROVIDER) + sorted(atpf.ACTIVE_TAG_VALUE_PROVIDER)
    out("   builtin categories:", keys)
    matcher = ActiveTagMatcher(CompositeActiveTagValueProvider(
        [atp.ACTIVE_TAG_VALUE_PROVIDER, atpf.ACTIVE_TAG_VALUE_PROVIDER]))
    for tags in (["use.with_python3=true"], ["not.with_python3=yes"], ["use.with_python2=true"],
                 ["use.with_python.min_version=3.0"], ["use.with_python.min_version=99.0"],
                 ["use.with_python.max_version=2.7"], ["not.with_python.max_version=99.1"],
                 ["use.with_python.min_version=abc"], ["not.with_python.min_version=abc"],
                 ["use.with_pypy=maybe"], ["use.with_pypy=no", "not.with_python2=no"],
                 ["use.with_python.feature.coroutine=yes"], ["not.with_python_has_async_function=yes"],
                 ["use.with_python.version=%d.%d" % sys.version_info[:2]],
                 ["use.with_python.implementation=cpython", "use.with_python.implementation=pypy"]):
        guarded("   builtin " + ",".join(tags), matcher.should_exclude_with, tags)
    out("   cached:", sorted(matcher.value_provider.data.keys()))


# ---------------------------------------------------------------------------
# SECTION 5: value providers (lazy values, composite provider + cache)
# ---------------------------------------------------------------------------
def describe_cache(provider):
    return sorted((k, type(v).__name__, callable(v)) for k, v in provider.data.items())


def section_providers():
    out("== SECTION 5: value providers")
    p = ActiveTagValueProvider({"a": "1", "l": lazy("l", "7"), "n": None, "u": Unknown,
                                "vo": NumberValueObject(3, operator.ge)})
    for category in ("a", "l", "n", "u", "vo", "zz"):
        guarded("   ATVP.get(%s)" % category, p.get, category)
        guarded("   ATVP.get(%s, 'dflt')" % category, p.get, category, "dflt")
        guarded("   ATVP.get(%s, Unknown)" % category, p.get, category, Unknown)
        guarded("   ATVP[%s]" % category, p.__getitem__, category)
    guarded("   ATVP.items", lambda: [(k, show(v)) for k, v in p.items()])
    guarded("   ATVP.categories", lambda: sorted(p.categories()))
    guarded("   ATVP()", lambda: ActiveTagValueProvider().data)

    def make():
        p1 = LoggingProvider("p1", {"a": "1", "l": lazy("p1.l", "7"), "none": None})
        p2 = ActiveTagValueProvider({"a": "2", "b": lazy("p2.b", "x"),
                                     "n": NumberValueObject(lazy("p2.n", 3), operator.ge)})
        p3 = NoKeysProvider({"c": "3", "a": "9"})
        inner = CompositeActiveTagValueProvider([{"deep": lazy("deep", "d")}, {"a": "inner"}])
        return CompositeActiveTagValueProvider([p1, p2, p3, inner, {"f": False, "z": 0, "e": ""}])
    cp = make()
    out("   cache0:", describe_cache(cp))
    for round_no in (1, 2):
        for category in ("a", "l", "none", "b", "n", "c", "deep", "f", "z", "e", "zz"):
            guarded("   r%d CP.get(%s)" % (round_no, category), cp.get, category)
            guarded("   r%d CP.get(%s,'D')" % (round_no, category), cp.get, category, "D")
            guarded("   r%d CP.get(%s,Unknown)" % (round_no, category), cp.get, category, Unknown)
            out("   cache:", describe_cache(cp))
    # -- cached entry asks the SAME provider again; later changes are seen
    cp = make()
    cp.get("a")
    flush_log()
    cp.value_providers[0].data["a"] = "1-changed"
    cp.value_providers[1].data["b"] = "b-early"
    guarded("   CP.get(a) after change", cp.get, "a")
    guarded("   CP.get(b) after change", cp.get, "b")
    del cp.value_providers[0].data["a"]
    guarded("   CP.get(a) after removal", cp.get, "a")
    guarded("   CP.get(a,'D') after removal", cp.get, "a", "D")
    out("   cache:", describe_cache(cp))
    cached = cp.data["b"]
    guarded("   cached entry call", cached)
    out("   cached entry:", type(cached).__name__, getattr(cached, "__name__", None),
        len(getattr(cached, "__defaults__", None) or ()))
    # -- provider order / inserted later / pre-seeded cache
    cp = CompositeActiveTagValueProvider()
    guarded("   empty CP.get(a)", cp.get, "a")
    guarded("   empty CP.get(a,1)", cp.get, "a", 1)
    cp.value_providers.append({"a": "late"})
    guarded("   CP.get(a) late provider", cp.get, "a")
    cp.value_providers.insert(0, {"a": "earlier"})
    guarded("   CP.get(a) stays cached", cp.get, "a")
    cp.data["seed"] = "seeded"
    cp.data["lz"] = lazy("seeded-lazy", 5)
    guarded("   CP.get(seed)", cp.get, "seed")
    guarded("   CP.get(lz)", cp.get, "lz")
    cp["item"] = "via-setitem"
    guarded("   CP.get(item)", cp.get, "item")
    guarded("   CP[a]", cp.__getitem__, "a")
    guarded("   CP[zz]", cp.__getitem__, "zz")
    guarded("   CP(raising).get", CompositeActiveTagValueProvider([{"x": 1}, RaisingProvider()]).get, "y")
    guarded("   CP(raising).get found-before", CompositeActiveTagValueProvider([{"x": 1}, RaisingProvider()]).get, "x")
    guarded("   CP(None-provider).get", CompositeActiveTagValueProvider([None]).get, "y")
    guarded("   CP(generator)", lambda: CompositeActiveTagValueProvider(iter([{"g": 1}])).get("g"))
    cp = make()
    guarded("   CP.keys", lambda: list(cp.keys()))
    guarded("   CP.items", lambda: [(k, show(v)) for k, v in cp.items()])
    guarded("   CP.values", lambda: [show(v) for v in cp.values()])
    out("   cache:", describe_cache(cp))
    guarded("   print_active_tags", print_active_tags, cp, ["a", "b", "zz"])
    values = {"a": None, "q": None}
    setup_active_tag_values(values, {"a": "1", "b": "2"})
    out("   setup_active_tag_values:", sorted(values.items(), key=str))

    # -- matcher on top of a composite provider: calls + cache growth
    cp = make()
    for strict in (True, False):
        matcher = ActiveTagMatcher(cp, ignore_unknown_categories=strict)
        matcher.use_exclude_reason = True
        pool = ["use.with_a=1", "not.with_a=2", "use.with_b=x", "not.with_b=x", "use.with_n=2",
                "use.with_n=4", "not.with_n=zz", "use.with_c=3", "use.with_deep=d", "not.with_zz=1",
                "use.with_f=False", "use.with_none=None", "use.with_e=", "slow"]
        for size in (1, 2):
            for tags in itertools.combinations(pool, size):
                out("   CPM ignore_unknown=%r" % strict, ",".join(tags), "|", verdict(matcher, list(tags)))
                flush_log()
        out("   cache:", describe_cache(cp))


# ---------------------------------------------------------------------------
# SECTION 6: composite / predicate matchers
# ---------------------------------------------------------------------------
def section_composite_matchers():
    out("== SECTION 6: composite and predicate matchers")
    def predicate(name, result):
        def exclude(tags):
            LOG.append("pred:%s(%s)" % (name, ",".join(tags)))
            return result
        return exclude
    m_a = ActiveTagMatcher(LoggingProvider("A", {"a": "1"}))
    m_b = ActiveTagMatcher(LoggingProvider("B", {"b": "x"}))
    m_b.use_exclude_reason = True
    combos = [
        [],
        [m_a],
        [m_a, m_b],
        [m_b, m_a],
        [PredicateTagMatcher(predicate("no", False)), m_a, PredicateTagMatcher(predicate("yes", True)), m_b],
        [PredicateTagMatcher(predicate("truthy", "yes")), m_a],
        [PredicateTagMatcher(predicate("falsy", 0)), PredicateTagMatcher(predicate("none", None))],
        [CompositeTagMatcher([m_a, CompositeTagMatcher([m_b])]), PredicateTagMatcher(predicate("last", False))],
    ]
    tag_sets = [[], ["foo"], ["use.with_a=1"], ["use.with_a=2"], ["not.with_b=x"],
                ["use.with_a=1", "use.with_b=y"], ["use.with_a=2", "use.with_b=y"],
                ["not.with_a=2", "use.with_b=x", "use.with_c=1"]]
    for index, matchers in enumerate(combos):
        composite = CompositeTagMatcher(matchers)
        for tags in tag_sets:
            m_b.exclude_reason = None
            guarded("   composite#%d %s exclude" % (index, ",".join(tags) or "-"),
                    composite.should_exclude_with, tags)
            guarded("   composite#%d %s run" % (index, ",".join(tags) or "-"),
                    composite.should_run_with, tags)
            out("      m_b.reason:", m_b.exclude_reason)
    out("   default matchers:", CompositeTagMatcher().tag_matchers, CompositeTagMatcher(None).tag_matchers,
        CompositeTagMatcher(()).tag_matchers)
    shared = []
    composite = CompositeTagMatcher(shared)
    out("   shared list kept:", composite.tag_matchers is shared)
    guarded("   TagMatcher().should_exclude_with", TagMatcher().should_exclude_with, [])
    guarded("   TagMatcher().should_run_with", TagMatcher().should_run_with, [])
    guarded("   PredicateTagMatcher(None)", PredicateTagMatcher, None)
    guarded("   composite with bad member", CompositeTagMatcher([object()]).should_exclude_with, [])

    # -- SUBCLASS HOOKS: overriding public methods keeps working
    class Sub(ActiveTagMatcher):
        def is_tag_group_enabled(self, group_category, group_tag_pairs):
            LOG.append("enabled?(%s,%d)" % (group_category, len(group_tag_pairs)))
            return super(Sub, self).is_tag_group_enabled(group_category, group_tag_pairs)

        def group_active_tags_by_category(self, tags):
            LOG.append("group(%s)" % ",".join(tags))
            return super(Sub, self).group_active_tags_by_category(tags)

        def select_active_tags(self, tags):
            LOG.append("select(%s)" % ",".join(tags))
            return super(Sub, self).select_active_tags(tags)
    sub = Sub(LoggingProvider("S", {"a": "1", "b": "x", "c": "3"}))
    sub.use_exclude_reason = True
    for tags in ([], ["foo"], ["use.with_a=1", "use.with_b=x", "use.with_c=3"],
                 ["use.with_a=1", "use.with_b=y", "use.with_c=4"],
                 ["use.with_c=4", "use.with_b=y", "use.with_a=1"],
                 ["not.with_zz=1", "use.with_a=2", "use.with_b=y"]):
        out("   sub", ",".join(tags) or "-", "|", verdict(sub, tags))
        flush_log()


def section_module_surface():
    out("== SECTION 7: module surface")
    names = sorted(n for n in dir(tm) if not n.startswith("__"))
    public = [n for n in names if not n.startswith("_")]
    out("   public names:", public)
    for cls in (TagMatcher, ActiveTagMatcher, CompositeTagMatcher, PredicateTagMatcher, ValueObject,
                NumberValueObject, BoolValueObject, ActiveTagValueProvider, CompositeActiveTagValueProvider):
        members = sorted(n for n in vars(cls) if not n.startswith("_"))
        out("   %s: bases=%s public=%s" % (cls.__name__, [b.__name__ for b in cls.__bases__], members))
    out("   class attrs:", ActiveTagMatcher.value_separator, ActiveTagMatcher.tag_prefixes,
        ActiveTagMatcher.tag_schema, ActiveTagMatcher.ignore_unknown_categories,
        ActiveTagMatcher.use_exclude_reason)


if __name__ == "__main__":
    section_truth_table()
    section_grouping()
    section_group_enabled()
    section_value_objects()
    section_providers()
    section_composite_matchers()
    section_module_surface()
    out("== DONE")
