# -*- coding: UTF-8 -*-
"""
Equivalence transcript for the JUnit reporter (property C16).

PART A: runs ``python -m behave --junit`` as a subprocess (PYTHONPATH points to
        the worktree) on a generated project with hostile names / messages /
        captured output, for several option combinations, and prints every
        TESTS-*.xml (volatile parts masked) plus what an independent XML parser
        (expat via minidom) sees: counters and test case entries.
PART B: calls the reporter's helper functions / methods in-process on
        boundary inputs and prints results and exceptions.
"""
from __future__ import print_function, unicode_literals
import io
import os
import re
import shutil
import subprocess
import sys

WORKTREE = "/tmp/wtX/C16"
sys.path.insert(0, WORKTREE)
HERE = os.path.dirname(os.path.abspath(__file__))
WORK = os.path.join(HERE, "work")
PYTHON = "/venv/bin/python"

HOSTILE = "<&>\"' ]]> \x1b[31mred\x1b[0m \x1b[1A café 中 \U0001F600 ￾ \x85 \x7f"
# -- Control characters that the Gherkin parser keeps inside a line:
CTRL = "\x01\x02\x08\x0b\x0e\x1f"
FCTRL = "\x01\x02\x08\x0e\x1f"     # -- Without line separators (feature files).


def out(*args):
    text = " ".join(("%s" % (a,)) for a in args)
    sys.stdout.write(text.encode("unicode_escape").decode("ascii")
                     .replace("\\n", "\n") + "\n")


def write(path, text):
    dirname = os.path.dirname(path)
    if not os.path.isdir(dirname):
        os.makedirs(dirname)
    with io.open(path, "w", encoding="utf-8", newline="\n") as f:
        f.write(text)


STEPS = u'''# -*- coding: UTF-8 -*-
from __future__ import print_function, unicode_literals
import sys
import logging
from behave import given, when, then, step
from behave.api.pending_step import StepNotImplementedError

HOSTILE = %(hostile)r
CTRL = %(ctrl)r

@step('a step passes')
def step_passes(ctx):
    pass

@step('a step "{name}" passes')
def step_named_passes(ctx, name):
    pass

@step('a step fails')
def step_fails(ctx):
    assert False, "XFAIL " + HOSTILE + CTRL

@step('a step fails with "{msg}"')
def step_fails_with(ctx, msg):
    assert False, msg

@step('a step fails without message')
def step_fails_without(ctx):
    assert False

@step('a step errors')
def step_errors(ctx):
    raise RuntimeError("XERR " + HOSTILE + CTRL)

@step('a step errors with "{msg}"')
def step_errors_with(ctx, msg):
    raise ValueError(msg)

@step('a step is pending')
def step_pending(ctx):
    raise StepNotImplementedError("PENDING " + HOSTILE)

@step('a step prints hostile output')
def step_prints(ctx):
    print("OUT " + HOSTILE + CTRL)
    sys.stderr.write("ERR " + HOSTILE + CTRL + "\\n")
    logging.getLogger("hostile").warning("LOG %%s", HOSTILE)

@step('a step prints "{text}"')
def step_prints_text(ctx, text):
    print(text)

@step('a step with text')
def step_with_text(ctx):
    assert ctx.text is not None

@step('a step with a table')
def step_with_table(ctx):
    assert ctx.table is not None

@step('a number {n:d} is even')
def step_even(ctx, n):
    print("number=%%d" %% n)
    assert n %% 2 == 0, "odd: %%d ]]> <x>" %% n
'''

ENVIRONMENT = u'''# -*- coding: UTF-8 -*-
from __future__ import print_function, unicode_literals

def before_all(ctx):
    ctx.config.setup_logging()

def before_scenario(ctx, scenario):
    if "skip_in_hook" in scenario.tags:
        scenario.skip("SKIPPED-IN-HOOK ]]> <&>")
    if "hook_error.before_scenario" in scenario.tags:
        print("before_scenario output ]]>")
        raise RuntimeError("HOOK-ERROR before_scenario <&> ]]> \\x01")

def after_scenario(ctx, scenario):
    if "hook_error.after_scenario" in scenario.tags:
        raise RuntimeError("HOOK-ERROR after_scenario <&> ]]>")
    if "hook_fail.after_scenario" in scenario.tags:
        assert False, "HOOK-FAIL after_scenario"

def before_tag(ctx, tag):
    if tag == "hook_error.before_tag":
        raise RuntimeError("HOOK-ERROR before_tag")

def after_tag(ctx, tag):
    if tag == "hook_error.after_tag":
        raise RuntimeError("HOOK-ERROR after_tag")

def before_step(ctx, step):
    if "hook_error.before_step" in step.name:
        raise RuntimeError("HOOK-ERROR before_step")

def before_feature(ctx, feature):
    if "hook_error.before_feature" in feature.tags:
        raise RuntimeError("HOOK-ERROR before_feature ]]>")
    if "skip_feature_in_hook" in feature.tags:
        feature.skip("FEATURE SKIPPED-IN-HOOK")
'''

FEATURES = {
    "features/hostile.feature": u'''@f_tag @tag<&>
Feature: Hostile <&>"' ]]> café 中 \U0001F600 %(ctrl)s name

  Background:
    Given a step "background ]]>" passes

  @s1 @weird]]>tag
  Scenario: Passing <&>"' ]]> %(ctrl)s \x1b[31mred\x1b[0m
    Given a step passes
    When a step prints hostile output
    Then a step "<&> ]]> é \U0001F600" passes

  Scenario: Failing ]]>
    Given a step passes
    When a step fails
    Then a step passes

  Scenario: Failing with message
    When a step fails with "boom <b>&amp;</b> ]]> %(ctrl)s \x1b[1A ü"

  Scenario: Failing without message
    When a step prints hostile output
    And a step fails without message

  Scenario: Erroring
    Given a step prints hostile output
    When a step errors
    Then a step passes

  Scenario: Erroring with message
    When a step errors with "   padded <&> ]]>   "

  Scenario: Undefined step
    Given a step passes
    When an undefined <step> ]]> is used
    Then a step passes

  Scenario: Pending step
    Given a step is pending
    Then a step passes

  Scenario: With text and table
    Given a step with text
      """
      Some <text> & ]]> more
        indented é
      """
    And a step with a table
      | name  | value    |
      | a<b   | ]]>      |
      | café  | \U0001F600 |
    When a step fails with "after table"

  Scenario:
    Given a step passes
''',
    "features/outline.feature": u'''Feature: Outline feature

  @outline
  Scenario Outline: Even <n> -- <label>
    Given a number <n> is even
    Then a step "<label>" passes

    Examples: First ]]>
      | n | label   |
      | 2 | two     |
      | 3 | thr<ee> |

    @skip_in_hook
    Examples: Second
      | n | label |
      | 4 | ]]>   |
      | 5 | five& |

  @wip
  Scenario Outline: Undefined <thing>
    Given an unknown <thing>

    Examples:
      | thing |
      | foo   |
      | bar   |
''',
    "features/sub/dir/rules.feature": u'''Feature: With rules

  Background:
    Given a step passes

  Rule: First <rule>
    Scenario: R1 passing
      Given a step passes

    Scenario: R1 failing
      Given a step fails with "rule failure"

    Scenario Outline: R1 outline <x>
      Given a number <x> is even
      Examples:
        | x |
        | 6 |
        | 7 |

  Rule: Second rule
    @skip_in_hook
    Scenario: R2 skipped in hook
      Given a step passes

    @skip
    Scenario: R2 skipped by tag
      Given a step passes

    Scenario: R2 erroring
      Given a step errors
''',
    "features/hooks.feature": u'''Feature: Hook problems

  @hook_error.before_scenario
  Scenario: Hook error before scenario
    Given a step passes

  @hook_error.after_scenario
  Scenario: Hook error after scenario
    Given a step passes

  @hook_fail.after_scenario
  Scenario: Hook assert after scenario
    Given a step passes

  @hook_error.after_scenario
  Scenario: Step fails and hook error after scenario
    Given a step fails

  @hook_error.before_tag
  Scenario: Hook error before tag
    Given a step passes

  @hook_error.after_tag
  Scenario: Hook error after tag
    Given a step prints "tagged output"

  Scenario: Hook error before step
    Given a step passes
    When a step "hook_error.before_step" passes

  Scenario: Plain passing
    Given a step passes
''',
    "features/feature_hook_error.feature": u'''@hook_error.before_feature
Feature: Feature hook error

  Scenario: Never runs one
    Given a step passes

  Scenario: Never runs two
    Given a step fails
''',
    "features/skipped_feature.feature": u'''@skip
Feature: Skipped by tag

  Scenario: S1
    Given a step passes

  Scenario Outline: S2 <a>
    Given a step "<a>" passes
    Examples:
      | a |
      | 1 |
      | 2 |
''',
    "features/skipped_in_hook.feature": u'''@skip_feature_in_hook
Feature: Skipped in hook

  Scenario: S1
    Given a step passes
''',
    "features/noname.feature": u'''Feature:

  Scenario: In a feature without name
    Given a step passes

  Scenario: Failing in a feature without name
    Given a step fails with "x"
''',
    "features/empty.feature": u'''Feature: Empty feature
''',
    "features/all_passing.feature": u'''Feature: All passing
  Scenario: P1
    Given a step passes
  Scenario: P2
    Given a step prints "just stdout"
''',
}

RUNS = [
    ("default", []),
    ("no-skipped", ["--no-skipped"]),
    ("tags-not-skip", ["--tags=not @skip"]),
    ("tags-not-skip-no-skipped", ["--tags=not @skip", "--no-skipped"]),
    ("tags-not-skip-no-skipped-always",
     ["--tags=not @skip", "--no-skipped",
      "-D", "behave.reporter.junit.show_skipped_always=true"]),
    ("tags-wip", ["--tags=@wip or @outline"]),
    ("switches-off", ["--tags=not @skip",
                      "-D", "behave.reporter.junit.show_timings=false",
                      "-D", "behave.reporter.junit.show_timestamp=false",
                      "-D", "behave.reporter.junit.show_hostname=false",
                      "-D", "behave.reporter.junit.show_tags=false",
                      "-D", "behave.reporter.junit.show_multiline=false"]),
    ("no-scenarios", ["-D", "behave.reporter.junit.show_scenarios=false"]),
    ("stop", ["--stop", "features/hostile.feature", "features/outline.feature"]),
    ("single-file", ["features/sub/dir/rules.feature"]),
    ("subdir-path", ["features/sub"]),
    ("dry-run", ["--dry-run"]),
    ("name-select", ["--name", "R1"]),
    ("no-capture", ["--no-capture", "--no-capture-stderr", "--no-logcapture",
                    "features/hostile.feature"]),
]

MASKS = [
    (re.compile(r' time="[0-9.e-]+"'), ' time="T"'),
    (re.compile(r' timestamp="[^"]*"'), ' timestamp="TS"'),
    (re.compile(r' hostname="[^"]*"'), ' hostname="HOST"'),
    (re.compile(r' in \d+\.\d{3}s'), ' in N.NNNs'),
    (re.compile(r'0x[0-9a-fA-F]{6,}'), '0xADDR'),
    (re.compile(r'Took \d+m[0-9.]+s'), 'Took XmY.YYYs'),
]


def mask(text):
    for pattern, replacement in MASKS:
        text = pattern.sub(replacement, text)
    return text


def inspect_xml(data):
    """Independent parser: expat via minidom."""
    from xml.dom import minidom
    try:
        doc = minidom.parseString(data)
    except Exception as e:  # pylint: disable=broad-except
        out("  NOT-WELL-FORMED:", e.__class__.__name__, e)
        return
    suite = doc.documentElement
    out("  well-formed: root=%s" % suite.tagName)
    attrs = sorted((k, v) for k, v in suite.attributes.items()
                   if k not in ("time", "timestamp", "hostname"))
    out("  suite attrs:", attrs, "keys:", [k for k in suite.attributes.keys()])
    cases = [n for n in suite.childNodes if n.nodeType == n.ELEMENT_NODE]
    tally = {"failure": 0, "error": 0, "skipped": 0}
    for case in cases:
        kids = [n for n in case.childNodes if n.nodeType == n.ELEMENT_NODE]
        kinds = [k.tagName for k in kids]
        for kind in kinds:
            if kind in tally:
                tally[kind] += 1
        details = []
        for kid in kids:
            if kid.tagName in ("failure", "error"):
                details.append((kid.tagName, kid.getAttribute("type"),
                                kid.getAttribute("message")))
        out("  case:", case.tagName, case.getAttribute("classname"), "|",
            case.getAttribute("name"), "|", case.getAttribute("status"),
            kinds, details, [k for k in case.attributes.keys()])
    out("  tally: tests=%d" % len(cases), sorted(tally.items()))


def part_a():
    if os.path.isdir(WORK):
        shutil.rmtree(WORK)
    os.makedirs(WORK)
    params = dict(ctrl=FCTRL)
    write(os.path.join(WORK, "features/steps/steps.py"),
          STEPS % dict(hostile=HOSTILE, ctrl=CTRL))
    write(os.path.join(WORK, "features/environment.py"), ENVIRONMENT)
    for name, text in sorted(FEATURES.items()):
        if "%(ctrl)s" in text:
            text = text % params
        write(os.path.join(WORK, name), text)

    env = dict(os.environ)
    env["PYTHONPATH"] = WORKTREE
    env["PYTHONIOENCODING"] = "utf-8"
    env["PYTHONHASHSEED"] = "0"
    env.pop("GHERKIN_COLORS", None)
    for run_name, args in RUNS:
        out("=" * 78)
        out("RUN", run_name, args)
        reports = os.path.join(WORK, "reports." + run_name)
        cmd = [PYTHON, "-m", "behave", "--junit", "--junit-directory", reports,
               "-f", "progress", "--no-color"] + args
        proc = subprocess.Popen(cmd, cwd=WORK, env=env, stdout=subprocess.PIPE,
                                stderr=subprocess.STDOUT)
        output = proc.communicate()[0].decode("utf-8", "replace")
        out("exit:", proc.returncode)
        out("console:")
        out(mask(output).replace(WORK, "WORK"))
        if not os.path.isdir(reports):
            out("NO REPORTS DIRECTORY")
            continue
        for filename in sorted(os.listdir(reports)):
            out("-" * 60)
            out("FILE", filename)
            with open(os.path.join(reports, filename), "rb") as f:
                data = f.read()
            out(mask(data.decode("utf-8", "replace")).replace(WORK, "WORK"))
            inspect_xml(data)
    shutil.rmtree(WORK)


# ---------------------------------------------------------------------------
# PART B: in-process
# ---------------------------------------------------------------------------
def attempt(label, func, *args, **kwargs):
    try:
        result = func(*args, **kwargs)
        out(label, "->", repr(result))
        return result
    except BaseException as e:  # pylint: disable=broad-except
        out(label, "!!", e.__class__.__name__, repr("%s" % (e,)))
        return None


def part_b():
    from xml.etree import ElementTree
    from behave.reporter import junit
    from behave.reporter.junit import JUnitReporter, FeatureReportData
    from behave.formatter import ansi_escapes
    from behave.configuration import Configuration
    from behave.model import Feature, Scenario, Step, Table, Tag
    from behave.model_core import Status, FileLocation

    out("=" * 78)
    out("PART B")
    samples = [
        None, "", "plain", "]]>", "]]>]]>", "]]", "]>", "a]]>b]]>c", "]]&gt;",
        "<&>\"'", HOSTILE, CTRL, "\x00", "\x09\x0a\x0d", "\x0b\x0c", "\x7f\x80\x84\x85\x86\x9f\xa0",
        "﷐﷟﷠", "�￾￿", "\U0001fffe\U0001ffff\U00020000",
        "\U0010fffe\U0010ffff\U0010fffd", "\x1b[0m", "\x1b[31mX\x1b[1A", "\x1b[", "\x1b[1;31m",
        "\x1b[12345m", "\x1b[m", "\x1b[5B", "x" * 3 + "\x01" * 3, "U+0001",
        "\ud800", "\udfff",
    ]
    for sample in samples:
        attempt("escape_CDATA(%r)" % (sample,), junit.escape_CDATA, sample)
        attempt("_escape_invalid_xml_chars(%r)" % (sample,),
                junit._escape_invalid_xml_chars, sample)
        attempt("strip_escapes(%r)" % (sample,), ansi_escapes.strip_escapes, sample)

        def make_cdata(text):
            element = junit.CDATA(text)
            return (element.tag, element.text, len(element), element.attrib)
        attempt("CDATA(%r)" % (sample,), make_cdata, sample)

        def serialize(text):
            parent = ElementTree.Element("system-out")
            parent.set("a", "<&>\"")
            parent.append(junit.CDATA(text))
            parent.text = "before<&>"
            stream = io.BytesIO()
            junit.ElementTreeWithCDATA(parent).write(stream, "UTF-8")
            return stream.getvalue()
        attempt("serialize(%r)" % (sample,), serialize, sample)
    for bad in (5, b"bytes ]]>", ["]]>"], object):
        attempt("escape_CDATA(%r)" % (bad,), junit.escape_CDATA, bad)
        attempt("_escape_invalid_xml_chars(%r)" % (bad,),
                junit._escape_invalid_xml_chars, bad)
        attempt("strip_escapes(%r)" % (bad,), ansi_escapes.strip_escapes, bad)
    attempt("CDATA()", lambda: junit.CDATA())
    out("invalid_re.pattern", repr(junit._invalid_re.pattern), junit._invalid_re.flags)
    all_chars = [c for c in range(0, 0x110000)
                 if junit._invalid_re.match(junit.unichr(c) if hasattr(junit, "unichr") else chr(c))]
    ranges = []
    for c in all_chars:
        if ranges and ranges[-1][1] == c - 1:
            ranges[-1][1] = c
        else:
            ranges.append([c, c])
    out("invalid ranges:", ranges)
    # -- EXHAUSTIVE: replacement text of every single code point (digest + samples).
    import hashlib
    replaced = [junit._escape_invalid_xml_chars(chr(c)) for c in range(0, 0x110000)]
    out("replacement digest:", hashlib.sha256(
        "|".join(replaced).encode("utf-8", "surrogatepass")).hexdigest())
    out("replacements:", [replaced[c] for c in all_chars if c < 0x100 or c >= 0xFDD0])
    cdata_escaped = [junit.escape_CDATA("]]>" + chr(c) + "]]>") for c in all_chars]
    out("escape_CDATA digest:", hashlib.sha256(
        "|".join(cdata_escaped).encode("utf-8", "surrogatepass")).hexdigest())
    out("whole alphabet:", repr(junit._escape_invalid_xml_chars(
        "".join(chr(c) for c in range(0, 0x300)))))
    out("junit module names:", sorted(n for n in dir(junit) if not n.startswith("__")
                                      and not n.startswith("_")))
    out("serializer patched:", ElementTree._serialize_xml.__name__,
        ElementTree._serialize["xml"].__name__)

    # -- REPORTER construction and userdata switches
    def make_reporter(userdata=None, paths=None, base_dir=None, **kwargs):
        config = Configuration(command_args=[], load_config=False)
        config.userdata.update(userdata or {})
        config.paths = paths or ["features"]
        config.base_dir = base_dir or "features"
        for name, value in kwargs.items():
            setattr(config, name, value)
        return JUnitReporter(config)

    names = ["show_hostname", "show_multiline", "show_scenarios", "show_tags",
             "show_timings", "show_timestamp", "show_skipped_always"]
    for userdata in [{}, {"behave.reporter.junit.show_timings": "false"},
                     {"behave.reporter.junit.show_skipped_always": "yes",
                      "behave.reporter.junit.show_tags": "0",
                      "show_hostname": "false"},
                     {"behave.reporter.junit.show_hostname": "maybe"}]:
        def show(userdata=userdata):
            reporter = make_reporter(userdata)
            return [(n, getattr(reporter, n)) for n in names]
        attempt("userdata %r" % sorted(userdata.items()), show)
    for show_skipped in (True, False):
        for always in ("true", "false"):
            reporter = make_reporter(
                {"behave.reporter.junit.show_skipped_always": always},
                show_skipped=show_skipped)
            out("show_skipped", show_skipped, always, "->", reporter.show_skipped)

    # -- make_feature_filename
    cases = [
        (["features"], "features", "features/a.feature"),
        (["features"], "features", "features/sub/dir/a.b.feature"),
        (["features"], "features", "features\\sub\\a.feature"),
        (["features/"], "features", "features/a.feature"),
        (["features/a.feature"], "features", "features/a.feature"),
        (["other", "features/sub", "features"], "features", "features/sub/x.feature"),
        (["other"], "features", "features/sub/x.feature"),
        (["other"], ".", "features/sub/x.feature"),
        ([], "features", "features/noext"),
        (["feat"], "features", "features/a.feature"),
        (["features/a.feature", "features"], ".", "features/a.feature"),
        ([""], ".", "a.feature"),
        (["features"], "features", "features/café <&>.feature"),
    ]
    for paths, base_dir, filename in cases:
        def run(paths=paths, base_dir=base_dir, filename=filename):
            reporter = make_reporter()
            reporter.config.paths = paths
            reporter.config.base_dir = base_dir
            feature = Feature(filename, 1, "Feature", "F")
            return reporter.make_feature_filename(feature)
        attempt("make_feature_filename(%r, %r, %r)" % (paths, base_dir, filename), run)

    # -- describe_tags / describe_step / describe_scenario
    for tags in (None, [], ["one"], ["one", "two"], [Tag("t", 1), "café"], ("a", "b"), "ab"):
        attempt("describe_tags(%r)" % (tags,), JUnitReporter.describe_tags, tags)

    def make_step(name, status, duration=0.0, text=None, table=None, line=3,
                  exception=None, error_message=None):
        step = Step("features/x.feature", line, "Given", "given", name,
                    text=text, table=table)
        step.status = status
        step.duration = duration
        step.exception = exception
        step.error_message = error_message
        return step

    table = Table(["name", "v<al>"], [["a", "]]>"], ["café", "&"]], 1)
    steps = [
        make_step("plain", Status.passed, 0.0004),
        make_step("with text ]]>", Status.failed, 1.23456, text="line1\n  line2 <&>\n",
                  exception=AssertionError("  failed <&> ]]> \x01 "),
                  error_message="Assertion Failed: failed <&> ]]> \x01"),
        make_step("with table", Status.error, 12.0, table=table,
                  exception=RuntimeError("kaputt \x1b[31m"),
                  error_message="Traceback ...\nRuntimeError: kaputt \x1b[31m"),
        make_step("undefined  ", Status.undefined, exception=None),
        make_step("pending", Status.pending,
                  exception=NotImplementedError("todo"), error_message="todo"),
        make_step("skipped", Status.skipped),
        make_step("untested \U0001F600", Status.untested),
        make_step("text and table", Status.passed, text="T", table=table),
        make_step("empty text", Status.passed, text=""),
    ]
    variants = [{}, {"behave.reporter.junit.show_timings": "false"},
                {"behave.reporter.junit.show_multiline": "false"},
                {"behave.reporter.junit.show_tags": "false",
                 "behave.reporter.junit.show_timings": "false"}]
    for userdata in variants:
        reporter = make_reporter(userdata)
        out("-- variant", sorted(userdata.items()))
        for step in steps:
            attempt("describe_step(%s)" % step.name, reporter.describe_step, step)
        for tags in ([], ["t1", "t<2>"]):
            for selected in (steps, steps[:1], []):
                scenario = Scenario("features/x.feature", 2, "Scenario",
                                    "Sc <&> ]]>", tags=tags, steps=list(selected))
                attempt("describe_scenario(tags=%r, n=%d)" % (tags, len(selected)),
                        reporter.describe_scenario, scenario)
        for element_name in ("failure", "error"):
            for step in steps[:5] + [None]:
                for exc in (None, ValueError("scenario <exc> ]]>")):
                    def problem(element_name=element_name, step=step, exc=exc):
                        scenario = Scenario("features/x.feature", 2, "Scenario", "S")
                        scenario.exception = exc
                        scenario.error_message = exc and "  HOOK-ERROR: %s \x02 " % exc
                        try:
                            if exc:
                                raise exc
                        except ValueError:
                            scenario.exc_traceback = sys.exc_info()[2]
                        if element_name == "failure":
                            element = reporter._make_failure_element_for(scenario, step)
                        else:
                            element = reporter._make_error_element_for(scenario, step)
                        same = reporter._make_problem_description_for(
                            element_name, scenario, step)
                        text = ElementTree.tostring(element, "unicode")
                        assert text == ElementTree.tostring(same, "unicode")
                        return (element.tag, list(element.attrib.items()),
                                [(c.tag, c.text) for c in element], mask(text))
                    attempt("problem(%s, %s, %r)" % (
                        element_name, step and step.name, exc), problem)

    # -- select_step_with_status / select_step_with_any_status
    for status in Status:
        attempt("select_step_with_status(%s)" % status.name,
                lambda: getattr(JUnitReporter.select_step_with_status(status, steps), "name", None))
    for statuses in [(), (Status.failed,), [Status.pending, Status.undefined],
                     (Status.error, Status.hook_error, Status.pending, Status.undefined),
                     {Status.untested, Status.skipped}]:
        attempt("select_step_with_any_status(%s)" % sorted(s.name for s in statuses),
                lambda: getattr(JUnitReporter.select_step_with_any_status(statuses, steps), "name", None))
        attempt("select_step_with_any_status(%s, [])" % sorted(s.name for s in statuses),
                JUnitReporter.select_step_with_any_status, statuses, [])
    attempt("select_step_with_status(non-step)",
            JUnitReporter.select_step_with_status, Status.passed, [steps[0], "nostep"])
    attempt("select_step_with_any_status(non-step)",
            JUnitReporter.select_step_with_any_status, (Status.failed,), [steps[0], 42])
    attempt("select_step_with_any_status(iterator)",
            lambda: JUnitReporter.select_step_with_any_status((Status.failed,), iter(steps)).name)

    # -- FeatureReportData
    for args in [(None, "features/a/b"), (None, "a/b", "given"), (None, None),
                 (None, "", None), (None, "x", "")]:
        def frd(args=args):
            data = FeatureReportData(*args)
            before = sorted((k, v) for k, v in vars(data).items())
            data.testcases.append(1)
            data.counts_tests = data.counts_errors = 3
            data.counts_failed = data.counts_skipped = 4
            data.reset()
            return before, sorted((k, v) for k, v in vars(data).items())
        attempt("FeatureReportData%r" % (args,), frd)

    # -- _process_scenario / _process_run_items_for with hand-made models
    def make_scenario(name, status, steps, captured_out="", captured_err="",
                      hook_failed=False, exc=None, tags=None):
        scenario = Scenario("features/x.feature", 2, "Scenario", name,
                            tags=tags or [], steps=steps)
        feature = Feature("features/x.feature", 1, "Feature", "Fx <&>")
        scenario.feature = feature
        scenario.set_status(status)
        scenario.captured.stdout = captured_out
        scenario.captured.stderr = captured_err
        if exc:
            scenario.exception = exc
            scenario.error_message = "HOOK-ERROR in x: %s" % exc
        return scenario

    for userdata in [{"behave.reporter.junit.show_timings": "false"},
                     {"behave.reporter.junit.show_timings": "false",
                      "behave.reporter.junit.show_scenarios": "false"}]:
        for show_skipped in (True, False):
            out("-- process_scenario variant", sorted(userdata.items()), show_skipped)
            reporter = make_reporter(userdata, show_skipped=show_skipped)
            combos = [
                ("passed", Status.passed, [steps[0]]),
                ("failed", Status.failed, [steps[0], steps[1], steps[5]]),
                ("failed-nostep", Status.failed, [steps[0]]),
                ("error", Status.error, [steps[0], steps[2]]),
                ("error-undefined", Status.error, [steps[3], steps[2]]),
                ("error-nostep", Status.error, []),
                ("hook_error", Status.hook_error, [steps[0]]),
                ("skipped", Status.skipped, [steps[5]]),
                ("skipped-undefined", Status.skipped, [steps[5], steps[3]]),
                ("untested", Status.untested, [steps[6]]),
                ("untested-pending", Status.untested, [steps[4], steps[6]]),
                ("undefined", Status.undefined, [steps[3]]),
                ("pending", Status.pending, [steps[4]]),
                ("", Status.passed, []),
            ]
            feature = Feature("features/x.feature", 1, "Feature", "Fx <&> \x01")
            report = FeatureReportData(feature, "x")
            for name, status, selected in combos:
                for cap_out, cap_err in [("", ""), ("OUT ]]> \x1b[0m \x01", "ERR <&> ]]>")]:
                    def process(name=name, status=status, selected=selected,
                                cap_out=cap_out, cap_err=cap_err):
                        exc = None
                        if status in (Status.hook_error,) or name.endswith("nostep"):
                            exc = RuntimeError("hook <&> ]]>")
                        scenario = make_scenario(name, status, list(selected),
                                                 cap_out, cap_err, exc=exc)
                        n_before = len(report.testcases)
                        reporter._process_scenario(scenario, report)
                        added = report.testcases[n_before:]
                        counts = (report.counts_tests, report.counts_errors,
                                  report.counts_failed, report.counts_skipped)
                        return counts, [mask(ElementTree.tostring(c, "unicode")) for c in added]
                    attempt("process_scenario(%s, out=%r)" % (name, bool(cap_out)), process)
            out("report:", report.classname, report.filename, len(report.testcases),
                report.counts_tests, report.counts_errors, report.counts_failed,
                report.counts_skipped)
            attempt("process_scenario(outline)", reporter._process_scenario,
                    junit.ScenarioOutline("f", 1, "Scenario Outline", "so"), report)
            attempt("process_scenario(non-scenario)", reporter._process_scenario,
                    steps[0], report)

            class Parent(object):
                run_items = [steps[0]]
            attempt("process_run_items(non-scenario)", reporter._process_run_items_for,
                    Parent(), report)
            attempt("process_scenario_outline(non-outline)",
                    reporter._process_scenario_outline, [1], report)

    reporter = make_reporter()
    out("feature counts:", reporter.feature_failed_counts, reporter.feature_error_counts)


if __name__ == "__main__":
    part_b()
    part_a()
