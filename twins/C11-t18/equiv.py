# -*- coding: UTF-8 -*-
"""Equivalence transcript for C11-t18 (RegexMatcher.check_match)."""
from __future__ import print_function
import sys
sys.path.insert(0, "/tmp/wtW/C11")

import contextlib
from behave.matchers import (
    RegexMatcher, SimplifiedRegexMatcher, CucumberRegexMatcher,
    MatchWithError, StepParseError, get_step_matcher_factory)
from behave.step_registry import StepRegistry, AmbiguousStep


class FakeContext(object):
    def __init__(self):
        self.log = []

    @contextlib.contextmanager
    def use_with_user_mode(self):
        self.log.append("enter-user-mode")
        try:
            yield
        finally:
            self.log.append("exit-user-mode")


def make_recorder(label):
    def step_func(context, *args, **kwargs):
        context.log.append(("call", label, args, sorted(kwargs.items())))
    step_func.__name__ = "step_%s" % label
    return step_func


def describe_args(arguments):
    return [(a.start, a.end, a.original, repr(a.value), a.name)
            for a in arguments]


def show_match(matcher, text):
    try:
        result = matcher.match(text)
    except Exception as e:  # pylint: disable=broad-except
        print("    match(%r) RAISED %s: %s" % (text, e.__class__.__name__, e))
        return
    if result is None:
        print("    match(%r) -> None; matches=%r" % (text, matcher.matches(text)))
        return
    kind = result.__class__.__name__
    if isinstance(result, MatchWithError):
        err = result.stored_error
        print("    match(%r) -> %s error=%s: %s" % (
            text, kind, err.__class__.__name__, err))
        return
    print("    match(%r) -> %s args=%r" % (
        text, kind, describe_args(result.arguments)))
    assert isinstance(result.arguments, list)
    for arg in result.arguments:
        if arg.original is not None:
            assert text[arg.start:arg.end] == arg.original
        else:
            assert (arg.start, arg.end) == (-1, -1)
    context = FakeContext()
    try:
        result.run(context)
        print("      run log=%r" % context.log)
    except Exception as e:  # pylint: disable=broad-except
        print("      run RAISED %s: %s log=%r" % (e.__class__.__name__, e, context.log))
    print("      matches=%r" % matcher.matches(text))


# -- (pattern, exact instance)
PATTERNS = [
    (r"a plain step", "a plain step"),
    (r"I have (\d+) apples", "I have 12 apples"),
    (r"I have (?P<count>\d+) apples", "I have 12 apples"),
    (r"I have (?P<count>\d+) apples and (\w+) pears", "I have 3 apples and some pears"),
    (r"(\w+) then (?P<second>\w+) then (\w+)", "one then two then three"),
    (r"(?P<a>\w+) (?P<b>\w+) (?P<c>\w+)", "x y z"),
    (r"(?P<c>\w+) (?P<b>\w+) (?P<a>\w+)", "x y z"),
    (r"optional(?: (?P<maybe>\w+))? end", "optional thing end"),
    (r"optional(?: (?P<maybe>\w+))? end", "optional end"),
    (r"optional( \w+)? (\w+)? end", "optional  end"),
    (r"nested ((?P<inner>\d+)-(\d+)) done", "nested 10-20 done"),
    (r"alt (?:(?P<num>\d+)|(?P<word>[a-z]+))", "alt 42"),
    (r"alt (?:(?P<num>\d+)|(?P<word>[a-z]+))", "alt abc"),
    (r"empty (?P<e>.*)", "empty "),
    (u"caf\xe9 (?P<name>\\w+) \xfcber (\\d+)", u"caf\xe9 J\xfcrgen \xfcber 7"),
    (r"quoted \"(?P<text>[^\"]*)\"", "quoted \"some text\""),
    (r"(a)(b)(c)(?P<d>d)(e)(?P<f>f)(g)(h)(i)(j)(?P<k>k)", "abcdefghijk"),
    (r"repeat (?:(\d),?)+", "repeat 1,2,3"),
    (r"(?i)case (?P<x>word)", "CASE WORD"),
]


def derive_texts(exact):
    texts = [exact, exact.upper(), exact.title(), "PREFIX " + exact,
             exact + " SUFFIX", " " + exact, exact + " ",
             exact.replace("a", "o", 1), "", exact + "\n"]
    seen = []
    for text in texts:
        if text not in seen:
            seen.append(text)
    return seen


def exercise(matcher_class, decorate):
    print("== %s" % matcher_class.__name__)
    for index, (pattern, exact) in enumerate(PATTERNS):
        func = make_recorder("%s_%d" % (matcher_class.NAME, index))
        pattern = decorate(pattern)
        try:
            matcher = matcher_class(func, pattern, "when")
            matcher.compile()
        except Exception as e:  # pylint: disable=broad-except
            print("  pattern %r CONSTRUCT RAISED %s: %s" % (
                pattern, e.__class__.__name__, e))
            continue
        print("  pattern %r regex=%r describe=%s" % (
            pattern, matcher.regex_pattern, matcher.describe()))
        for text in derive_texts(exact):
            show_match(matcher, text)


class FakeStep(object):
    def __init__(self, step_type, name):
        self.step_type = step_type
        self.name = name


def exercise_registry():
    print("== registry dispatch with regex matchers")
    factory = get_step_matcher_factory()
    registry = StepRegistry()
    history = [
        ("re", "given", r"I have (?P<count>\d+) apples"),
        ("re", "step", r"I have (.+)"),
        ("re0", "given", r"I have (\d+) (\w+)"),
        ("re0", "when", r"^I have (\d+) (\w+)$"),
        ("re", "when", r"I have (?P<n>\d+) pears"),
        ("re", "given", r"I have (?P<n>\d+) apples"),
        ("re", "then", r"(?P<x>\d+)(?: is (?P<what>\w+))?"),
        ("parse", "then", "{x:d} is {what:w}"),
        ("re", "step", r"(\d+) is (\w+) (\w+)"),
    ]
    for index, (matcher_name, step_type, pattern) in enumerate(history):
        factory.use_step_matcher(matcher_name)
        func = make_recorder("r%d" % index)
        try:
            registry.add_step_definition(step_type, pattern, func)
            print("  add[%d] %s %s %r OK" % (index, matcher_name, step_type, pattern))
        except AmbiguousStep as e:
            print("  add[%d] %s %s %r AmbiguousStep: %s" % (
                index, matcher_name, step_type, pattern,
                str(e).replace("/tmp/wtW/C11/", "")))
    factory.use_default_step_matcher()
    for step_type in ("given", "when", "then", "step"):
        print("  steps[%s]=%r" % (step_type, registry.steps[step_type]))
    for step_type in ("given", "when", "then", "step"):
        for text in ["I have 3 apples", "I have 3 pears", "I have cheese",
                     "I have 3 pears today", "7 is odd", "7", "7 is very odd",
                     "i have 3 apples", "nothing"]:
            result = registry.find_match(FakeStep(step_type, text))
            if result is None:
                print("  find_match(%s, %r) -> None" % (step_type, text))
                continue
            context = FakeContext()
            result.run(context)
            print("  find_match(%s, %r) -> %s args=%r log=%r" % (
                step_type, text, result.func.__name__,
                describe_args(result.arguments), context.log))


class CannedMatch(object):
    """Records the calls made on a regex match object."""
    def __init__(self, groups, positions, log):
        self._groups = groups
        self._positions = positions
        self.log = log

    def groups(self):
        self.log.append("groups()")
        return self._groups

    def start(self, index):
        self.log.append("start(%r)" % (index,))
        return self._positions[index][0]

    def end(self, index):
        self.log.append("end(%r)" % (index,))
        return self._positions[index][1]


class CannedRegex(object):
    def __init__(self, groupindex, matched, log):
        self.groupindex = groupindex
        self.matched = matched
        self.log = log
        self.pattern = "<canned>"

    def match(self, text):
        self.log.append("match(%r)" % (text,))
        return self.matched


def exercise_canned():
    print("== canned regex objects")
    cases = [
        ({"foo": 4, "baz": 5}, ("1", "2", "3", "bar", "-45.3"),
         {1: (13, 14), 2: (16, 17), 3: (22, 23), 4: (32, 35), 5: (39, 44)}),
        ({}, (), {}),
        ({"only": 1}, (None,), {1: (-1, -1)}),
        ({"ghost": 9}, ("a", "b"), {1: (0, 1), 2: (1, 2)}),
        ({"a": 1}, ("a", "b"), {1: (0, 1)}),
    ]
    for groupindex, groups, positions in cases:
        log = []
        matcher = RegexMatcher(make_recorder("canned"), "foo")
        matcher.regex = CannedRegex(groupindex, CannedMatch(groups, positions, log), log)
        result = matcher.match("some numbers 1, 2 and 3 and the bar is -45.3")
        if isinstance(result, MatchWithError):
            print("  MatchWithError %s: %s" % (
                result.stored_error.__class__.__name__, result.stored_error))
        else:
            print("  args=%r" % describe_args(result.arguments))
        print("    calls=%r" % log)
    log = []
    matcher = RegexMatcher(make_recorder("canned"), "foo")
    matcher.regex = CannedRegex({}, None, log)
    print("  no-match -> %r calls=%r" % (matcher.match("text"), log))


def main():
    get_step_matcher_factory().reset()
    exercise(RegexMatcher, lambda p: p)
    exercise(CucumberRegexMatcher, lambda p: u"^%s$" % p)
    exercise(SimplifiedRegexMatcher, lambda p: p)
    for bad in ("^anchored", "anchored$"):
        try:
            SimplifiedRegexMatcher(None, bad)
            print("  %r accepted" % bad)
        except AssertionError as e:
            print("  %r AssertionError: %s" % (bad, e))
    exercise_canned()
    exercise_registry()
    get_step_matcher_factory().reset()


if __name__ == "__main__":
    main()
