# -*- coding: UTF-8 -*-
"""Equivalence transcript for the Gherkin parser (property C04).

Parses many representative and boundary documents through the public parse
functions and prints a canonical dump of the resulting model (or of the
exception raised).
"""
from __future__ import print_function, unicode_literals
import sys
sys.path.insert(0, "/tmp/wtW/C04")

import io
import logging
import os
import random
import tempfile

from behave import i18n, model, parser
from behave.parser import (parse_feature, parse_file, parse_rule,
                           parse_scenario, parse_steps, parse_tags,
                           Parser, ParserError)
from behave.model_describe import ModelDescriptor

OUT = io.open(sys.stdout.fileno(), "w", encoding="utf-8", closefd=False)


def emit(text=""):
    OUT.write(text + "\n")


class LogCapture(logging.Handler):
    def __init__(self):
        logging.Handler.__init__(self)
        self.records = []

    def emit(self, record):
        self.records.append("%s:%s" % (record.levelname, record.getMessage()))


LOG = LogCapture()
_logger = logging.getLogger("behave")
_logger.addHandler(LOG)
_logger.setLevel(logging.DEBUG)
_logger.propagate = False


def dump_tags(tags):
    return "[%s]" % ", ".join("%s@%s(%s)" % (t, t.line, type(t).__name__)
                              for t in tags)


def dump_table(table, indent):
    if table is None:
        return
    emit("%sTABLE line=%s headings=%r" % (indent, table.line, table.headings))
    for row in table.rows:
        emit("%s  ROW line=%s cells=%r headings=%r" %
             (indent, row.line, row.cells, row.headings))
    emit("%s  DESCRIBED:" % indent)
    for text_line in ModelDescriptor.describe_table(table, indent + "    ").splitlines():
        emit(text_line)


def dump_step(step, indent):
    emit("%sSTEP line=%s kw=%r type=%r name=%r file=%r" %
         (indent, step.line, step.keyword, step.step_type, step.name,
          step.filename))
    if step.text is not None:
        emit("%s  TEXT line=%s ctype=%r value=%r cls=%s" %
             (indent, step.text.line, step.text.content_type,
              "%s" % step.text, type(step.text).__name__))
        emit("%s  DOCSTRING: %r" %
             (indent, ModelDescriptor.describe_docstring(step.text, indent)))
    dump_table(step.table, indent + "  ")


def dump_background(background, indent):
    if background is None:
        emit("%sBACKGROUND None" % indent)
        return
    emit("%sBACKGROUND line=%s kw=%r name=%r descr=%r" %
         (indent, background.line, background.keyword, background.name,
          background.description))
    for step in background.steps:
        dump_step(step, indent + "  ")


def dump_scenario(scenario, indent):
    emit("%s%s line=%s kw=%r name=%r tags=%s descr=%r" %
         (indent, type(scenario).__name__, scenario.line, scenario.keyword,
          scenario.name, dump_tags(scenario.tags), scenario.description))
    for step in scenario.steps:
        dump_step(step, indent + "  ")
    for examples in getattr(scenario, "examples", []):
        emit("%s  EXAMPLES line=%s kw=%r name=%r tags=%s" %
             (indent, examples.line, examples.keyword, examples.name,
              dump_tags(examples.tags)))
        dump_table(examples.table, indent + "    ")


def dump_rule(rule, indent):
    emit("%sRULE line=%s kw=%r name=%r tags=%s descr=%r" %
         (indent, rule.line, rule.keyword, rule.name, dump_tags(rule.tags),
          rule.description))
    dump_background(rule.background, indent + "  ")
    for scenario in rule.scenarios:
        dump_scenario(scenario, indent + "  ")


def dump_feature(feature):
    if feature is None:
        emit("  FEATURE None")
        return
    emit("  FEATURE line=%s kw=%r name=%r lang=%r file=%r tags=%s descr=%r" %
         (feature.line, feature.keyword, feature.name, feature.language,
          feature.filename, dump_tags(feature.tags), feature.description))
    dump_background(feature.background, "    ")
    for item in feature.run_items:
        if isinstance(item, model.Rule):
            dump_rule(item, "    ")
        else:
            dump_scenario(item, "    ")
    emit("    scenarios=%d rules=%d" % (len(feature.scenarios),
                                        len(feature.rules)))
    parser_ = getattr(feature, "parser", None)
    if parser_ is not None:
        emit("    PARSER state=%s line=%s last_step_type=%r lang=%r tags=%r "
             "lines=%r table=%r examples=%r" %
             (parser_.state.name, parser_.line, parser_.last_step_type,
              parser_.language, parser_.tags, parser_.lines, parser_.table,
              parser_.examples))


def dump_any(obj):
    if isinstance(obj, model.Feature):
        dump_feature(obj)
    elif isinstance(obj, model.Rule):
        dump_rule(obj, "  ")
    elif isinstance(obj, model.Scenario):
        dump_scenario(obj, "  ")
    elif isinstance(obj, model.Background):
        dump_background(obj, "  ")
    elif isinstance(obj, list):
        emit("  LIST len=%d" % len(obj))
        for item in obj:
            if isinstance(item, model.Step):
                dump_step(item, "    ")
            elif isinstance(item, model.Tag):
                emit("    TAG %s@%s" % (item, item.line))
            else:
                emit("    ITEM %r" % (item,))
    else:
        emit("  OBJECT %r" % (obj,))


def run(label, func, *args, **kwargs):
    emit("=== %s" % label)
    del LOG.records[:]
    try:
        result = func(*args, **kwargs)
    except ParserError as e:
        emit("  ParserError line=%r line_text=%r filename=%r" %
             (e.line, e.line_text, e.filename))
        emit("  args=%r" % (e.args,))
        emit("  str=%s" % ("%s" % e))
    except Exception as e:  # pylint: disable=broad-except
        emit("  EXCEPTION %s: %s" % (type(e).__name__, e))
    else:
        dump_any(result)
    for record in LOG.records:
        emit("  LOG %s" % record)


# -----------------------------------------------------------------------------
# DOCUMENTS
# -----------------------------------------------------------------------------
FULL_EN = '''
# a leading comment
@f1 @f2   # trailing comment
@f3
Feature: Full feature
  Description line 1
    Description line 2
  # comment inside description

  Background: Feature background
    Background description
    Given a background step
    And another background step
      | a | b |
      | 1 | 2 |

  @s1
  @s2 @s3 # more
  Scenario: First
    Scenario description here
    Given a step with text
      """
      Doc line 1
        indented doc line
      | not a table |

      last after blank
      """
    When   a step with table:
      | name  | value     |
      | x\\|y |           |
      |       | a \\| b \\| c |
    Then something
    But not that
    * generic step
    and lower-case and

  Example: Second uses Example alias
    * star first
    When w
      \'\'\'
      single "quoted" text
      """ inside
      \'\'\'
    And again

  @o1
  Scenario Outline: Outline <x>
    Given a <x>
    Then a <y>

    @e1 @e2
    Examples: First table
      | x | y |
      | 1 | 2 |
      | 3 | 4 |

    Scenarios: Alias no tags
      | x | y |

    @e3
    Examples:
      | x | y |
      | 5 | 6 |
  Scenario Template: Template alias
    Given t <a>
    Examples: E
      | a |
      | 1 |

  @r1
  Rule: First rule
    Rule description
    Background:
      Given rule background
    @rs1
    Scenario: In rule
      And inherits from rule background
    Scenario Outline: Outline in rule
      When q <p>
      @re
      Examples: R
        | p |
        | z |
  Rule: Second rule without background
    Example: In rule two
      But inherits from feature background
  Rule: Empty rule
'''

DOCS = [
    ("full_en", FULL_EN),
    ("empty", ""),
    ("only_comment", "# nothing here\n"),
    ("only_tags", "@a @b\n"),
    ("feature_only", "Feature: X"),
    ("feature_no_name", "Feature:"),
    ("feature_alias_ability", "Ability: can do\n  Scenario: s\n    Given x\n"),
    ("feature_alias_business", "Business Need: bn\n  Example: s\n    * x\n"),
    ("crlf", "Feature: crlf\r\n  Scenario: s\r\n    Given a\r\n      \"\"\"\r\n      text  \r\n      \"\"\"\r\n    When b\r\n      | h |\r\n      | 1 |\r\n"),
    ("tabs", "\tFeature: tabs\n\t\tScenario: s\n\t\t\tGiven a\n\t\t\t\"\"\"\n\t\t\ttext\n\t\t\t\"\"\"\n"),
    ("docstring_zero_indent", 'Feature: f\nScenario: s\nGiven a\n"""\nline\n  in\n"""\n'),
    ("docstring_with_language_tag", 'Feature: f\n Scenario: s\n  Given a\n   """json\n   {}\n   """\n'),
    ("docstring_single_then_double", "Feature: f\n Scenario: s\n  Given a\n   '''\n   \"\"\"\n   x\n   '''\n  Then b\n   \"\"\"\n   '''\n   \"\"\"\n"),
    ("docstring_empty", 'Feature: f\n Scenario: s\n  Given a\n   """\n   """\n  Then b\n'),
    ("docstring_blank_lines", 'Feature: f\n Scenario: s\n  Given a\n   """\n\n   x\n\n\n   """\n'),
    ("docstring_bad_indent", 'Feature: f\n Scenario: s\n  Given a\n      """\n   bad\n      """\n'),
    ("docstring_unterminated", 'Feature: f\n Scenario: s\n  Given a\n   """\n   x\n'),
    ("docstring_before_step", 'Feature: f\n Scenario: s\n   """\n   x\n   """\n'),
    ("docstring_before_step_after_descr", 'Feature: f\n Background: b\n  Given g\n Scenario: s\n  descr\n  Given a\n Scenario Outline: so\n  Given b\n  Examples:\n   |a|\n   """\n'),
    ("docstring_quote_in_line", 'Feature: f\n Scenario: s\n  Given a "x"\n  x """ weird\n'),
    ("table_before_step", "Feature: f\n Scenario: s\n  descr\n  | a |\n"),
    ("table_before_step_in_steps", "Feature: f\n Scenario Outline: s\n  Given a\n  Examples:\n   | a |\n  Scenario: t\n  Given x\n"),
    ("table_malformed_row", "Feature: f\n Scenario: s\n  Given a\n   | a | b\n   | 1 | 2 |\n"),
    ("table_wrong_cells", "Feature: f\n Scenario: s\n  Given a\n   | a | b |\n   | 1 |\n"),
    ("table_single_pipe", "Feature: f\n Scenario: s\n  Given a\n   |\n   |\n"),
    ("table_empty_cells", "Feature: f\n Scenario: s\n  Given a\n   | | |\n   |||\n"),
    ("table_escapes", "Feature: f\n Scenario: s\n  Given a\n   | a\\|b | \\\\ | c\\\\|d |\n   | \\| | x | y |\n"),
    ("table_at_eof_examples", "Feature: f\n Scenario Outline: s\n  Given <a>\n  Examples:\n   | a |\n   | 1 |"),
    ("table_then_comment_then_row", "Feature: f\n Scenario: s\n  Given a\n   | a |\n   # comment\n\n   | 1 |\n  Then b\n"),
    ("table_two_steps", "Feature: f\n Scenario: s\n  Given a\n   | a |\n  When b\n   | b |\n   | 2 |\n  Scenario: t\n   Given c\n"),
    ("examples_outside_outline", "Feature: f\n Scenario: s\n  Given a\n  Examples:\n   | a |\n"),
    ("examples_without_table", "Feature: f\n Scenario Outline: s\n  Given a\n  Examples: no table\n  Scenario: t\n"),
    ("examples_tag_then_scenario", "Feature: f\n Scenario Outline: s\n  Given a\n  @t\n  Scenario: t\n   Given b\n"),
    ("tags_dangling", "Feature: f\n Scenario: s\n  Given a\n  @t\n  Given b\n"),
    ("tags_bad", "Feature: f\n @ok bad\n Scenario: s\n"),
    ("tags_bad_initial", "@ok bad\nFeature: f\n"),
    ("tags_comment_only_rest", "@a #@b @c\n@d# @e\nFeature: f\n"),
    ("tags_before_background", "Feature: f\n @t\n Background: b\n"),
    ("tags_on_background_direct", "@t\nFeature: f\n Background: b\n  Given a\n"),
    ("second_background", "Feature: f\n Background: a\n  Given a\n Background: b\n"),
    ("second_background_empty_first", "Feature: f\n Background: a\n Background: b\n  Given g\n Scenario: s\n  And x\n"),
    ("background_after_scenario", "Feature: f\n Scenario: s\n  Given a\n Background: b\n"),
    ("background_descr_only", "Feature: f\n Background: b\n  just text\n Scenario: s\n  Given a\n"),
    ("background_before_feature", "Background: b\n"),
    ("scenario_before_feature", "Scenario: s\n"),
    ("outline_before_feature", "Scenario Outline: s\n"),
    ("rule_before_feature", "Rule: r\n"),
    ("two_features", "Feature: a\n Scenario: s\n  Given x\nFeature: b\n"),
    ("two_features_in_descr", "Feature: a\nFeature: b\n"),
    ("garbage_initial", "garbage line\nFeature: f\n"),
    ("and_without_previous", "Feature: f\n Scenario: s\n  And x\n"),
    ("but_without_previous", "Feature: f\n Scenario: s\n  But x\n"),
    ("star_without_previous", "Feature: f\n Scenario: s\n  * x\n  And y\n  When z\n  * w\n"),
    ("and_after_empty_background", "Feature: f\n Background:\n Scenario: s\n  And x\n"),
    ("and_rule_inherits", "Feature: f\n Background:\n  When fb\n Rule: r\n  Background:\n  Scenario: s\n   And x\n"),
    ("step_type_resets", "Feature: f\n Scenario: a\n  Then t\n  And u\n Scenario: b\n  Given g\n  But h\n  When w\n  * s\n"),
    ("step_keyword_case", "Feature: f\n Scenario: s\n  GIVEN upper\n  when lower\n  tHeN mixed\n  AND x\n  but y\n"),
    ("step_keyword_no_space", "Feature: f\n Scenario: s\n  Givenx\n  Given\n  Given \n  *x\n"),
    ("step_like_description", "Feature: f\n  Given in feature description\n Scenario: s\n  Some description\n  Whenever not a step\n  When a step\n  Thenx not step after steps\n"),
    ("steps_trailing_colon", "Feature: f\n Scenario: s\n  Given a:\n   | a |\n  When b:\n   \"\"\"\n   t\n   \"\"\"\n  Then c:\n"),
    ("language_header_de", "# language: de\nFunktionalität: Test\n  Grundlage:\n    Angenommen x\n  Szenario: s\n    Wenn y\n    Dann z\n    Und u\n    Aber v\n  Szenariogrundriss: o\n    Gegeben sei <a>\n    Beispiele:\n      | a |\n      | 1 |\n"),
    ("language_header_spaces", "  #   language:   fr  \nFonctionnalité: T\n  Scénario: s\n    Soit x\n    Quand y\n    Alors z\n"),
    ("language_header_upper", "# LANGUAGE: de\nFunktionalität: T\n"),
    ("language_header_unknown", "# language: xx-unknown\nFeature: T\n"),
    ("language_header_after_tags", "@t\n# language: de\nFeature: T\n"),
    ("language_header_twice", "# language: de\n# language: fr\nFonctionnalité: T\n"),
    ("language_header_after_feature", "Feature: T\n# language: de\n  Scenario: s\n   Given x\n"),
    ("comment_in_docstring", 'Feature: f\n Scenario: s\n  Given a\n   """\n   # not a comment\n   @not_a_tag\n   Scenario: not one\n   """\n'),
    ("rule_descr_tags", "Feature: f\n @a\n @b\n Rule: r\n  text\n  @c\n  Example: e\n   Given x\n  @d\n  Rule: r2\n"),
    ("rule_after_steps", "Feature: f\n Scenario: s\n  Given a\n   | t |\n Rule: r\n  Scenario Template: t\n   Given b\n   Scenarios:\n    | q |\n Rule: r3\n  Background: b\n   descr\n   Given g\n"),
    ("colon_variants", "Feature : not a feature\n"),
    ("scenario_keyword_in_name", "Feature: Scenario: name\n Scenario: Feature: x\n  Given Scenario: y\n"),
    ("unicode", "Feature: \u00e4\u00f6\u00fc \u2603\n @t\u00e4g\n Scenario: \u65e5\u672c\n  Given \u00e9 | x\n   | \u00fc |\n   | \u2603 |\n"),
]

STEPS_DOCS = [
    ("steps_simple", "Given a\nWhen b\nThen c\nAnd d\nBut e\n* f\n"),
    ("steps_empty", ""),
    ("steps_blank", "\n\n   \n"),
    ("steps_text_table", 'Given a\n  """\n  text\n    more\n  """\nWhen b\n  | x | y |\n  | 1 | 2 |\n'),
    ("steps_table_eof", "Given a\n | x |\n | 1 |"),
    ("steps_and_first", "And a\n"),
    ("steps_star_first", "* a\nAnd b\n"),
    ("steps_scenario_inside", "Given a\nScenario: x\n  When b\n"),
    ("steps_tags_inside", "Given a\n@t\nScenario: x\n  When b\n"),
    ("steps_garbage", "Given a\nnot a step\n"),
    ("steps_docstring_first", '"""\nx\n"""\n'),
    ("steps_table_first", "| a |\n"),
    ("steps_docstring_single", "Given a\n    '''\n    x\n     y\n    '''\n"),
    ("steps_docstring_bad_indent", 'Given a\n    """\n  x\n    """\n'),
    ("steps_comment", "# c\nGiven a\n  # c2\nThen b\n"),
    ("steps_examples", "Given a\nExamples:\n | a |\n"),
    ("steps_feature_kw", "Given a\nFeature: f\n"),
    ("steps_background_kw", "Given a\nBackground: f\n"),
    ("steps_rule_kw", "Given a\nRule: r\nScenario: s\n Given b\n"),
    ("steps_outline_kw", "Given a\nScenario Outline: r\n Given <b>\n Examples:\n  |b|\n  |1|\n"),
]

SCENARIO_DOCS = [
    ("scenario_simple", "Scenario: s\n  descr\n  Given a\n  When b\n"),
    ("scenario_tags", "@a @b\n@c\nScenario: s\n  Given a\n"),
    ("scenario_outline", "@a\nScenario Outline: s\n  Given <a>\n  @e\n  Examples: E\n    | a |\n    | 1 |\n"),
    ("scenario_empty", ""),
    ("scenario_no_header_step", "Given a\n"),
    ("scenario_no_header_descr", "some text\n"),
    ("scenario_two", "Scenario: a\n Given x\nScenario: b\n Given y\n"),
    ("scenario_and_first", "Scenario: a\n And x\n"),
    ("scenario_background", "Background: b\n"),
    ("scenario_rule", "Rule: r\n"),
    ("scenario_examples_first", "Examples: e\n | a |\n"),
    ("scenario_comment_first", "# language: de\nScenario: a\n"),
]

RULE_DOCS = [
    ("rule_simple", "Rule: r\n  descr\n  Background: b\n    Given g\n  Scenario: s\n    And a\n"),
    ("rule_tags", "@a\n@b @c\nRule: r\n  @s\n  Example: e\n    Given x\n"),
    ("rule_empty", ""),
    ("rule_no_header_descr", "some text\n"),
    ("rule_no_header_scenario", "Scenario: s\n Given x\n"),
    ("rule_no_header_background", "Background: b\n Given x\n"),
    ("rule_two", "Rule: a\nRule: b\n"),
    ("rule_outline", "Rule: a\n Scenario Outline: o\n  Given <q>\n  Examples:\n   | q |\n   | 1 |\n   | 2 |\n"),
    ("rule_examples_first", "Examples: e\n | a |\n"),
]

TAGS_DOCS = [
    "", "@a", "@a @b", "  @a\t@b  ", "@a # comment @c", "@a #comment", "@a#b",
    "@a\n@b @c\n", "@a\n# comment\n@b", "@a bad", "bad", "# only comment",
    "@", "@@x", "@a @a", "@a\n\n@b #x\n@c", "@a @b bad @c # x",
    "@a # x\nbad", "@\u00fc @x=1 @y:2,3",
]


def all_aliases_document(language):
    """Render a document that uses every alias of every keyword once."""
    kw = i18n.languages[language]
    lines = ["# language: %s" % language]
    documents = []
    for feature_kw in kw["feature"]:
        lines = ["# language: %s" % language, "@f",
                 "%s: F %s" % (feature_kw, feature_kw)]
        for background_kw in kw["background"]:
            pass
        lines.append("  %s: B" % kw["background"][-1])
        lines.append("    %sbg" % kw["given"][-1])
        for scenario_kw in kw["scenario"]:
            lines.append("  @s")
            lines.append("  %s: S %s" % (scenario_kw, scenario_kw))
            for step_type in ("given", "when", "then", "and", "but"):
                for step_kw in kw[step_type]:
                    lines.append("    %s%s step" % (step_kw, step_type))
        for outline_kw in kw["scenario_outline"]:
            lines.append("  %s: O %s" % (outline_kw, outline_kw))
            lines.append("    %s<a>" % kw["given"][-1])
            for examples_kw in kw["examples"]:
                lines.append("    @e")
                lines.append("    %s: E %s" % (examples_kw, examples_kw))
                lines.append("      | a |")
                lines.append("      | 1 |")
        for rule_kw in kw["rule"]:
            lines.append("  %s: R %s" % (rule_kw, rule_kw))
            for background_kw in kw["background"]:
                pass
            lines.append("    %s: RB" % kw["background"][0])
            lines.append("      %srb" % kw["when"][-1])
            lines.append("    %s: RS" % kw["scenario"][0])
            lines.append("      %sx" % kw["and"][-1])
        documents.append("\n".join(lines) + "\n")
    return documents


class Node(object):
    pass


def random_document(rng):
    """Render a random abstract feature tree with random layout noise."""
    lines = []

    def noise():
        choice = rng.randint(0, 5)
        if choice == 0:
            lines.append("")
        elif choice == 1:
            lines.append("%s# comment %d" % (" " * rng.randint(0, 6),
                                             rng.randint(0, 99)))
        elif choice == 2:
            lines.append("   ")

    def indent():
        return rng.choice(["", " ", "  ", "    ", "\t", "      "])

    def tags(prefix):
        for _ in range(rng.randint(0, 2)):
            words = ["@%s%d" % (prefix, rng.randint(0, 9))
                     for _ in range(rng.randint(1, 3))]
            text = " ".join(words)
            if rng.random() < 0.3:
                text += "  # trailing @notatag"
            lines.append(indent() + text)
            noise()

    def table(rows=None):
        width = rng.randint(1, 3)
        ind = indent()
        for _ in range(rows if rows is not None else rng.randint(1, 3)):
            cells = [rng.choice(["", "x", "a\\|b", " spaced  ", "<p>", "1"])
                     for _ in range(width)]
            lines.append("%s|%s|" % (ind, "|".join(" %s " % c for c in cells)))
            if rng.random() < 0.2:
                lines.append("%s# table comment" % ind)

    def steps(first_allowed_inherit):
        count = rng.randint(0, 4)
        for index in range(count):
            if index == 0 and not first_allowed_inherit:
                kw = rng.choice(["Given ", "When ", "Then "])
            else:
                kw = rng.choice(["Given ", "When ", "Then ", "And ", "But ",
                                 "* "])
            lines.append("%s%sstep %d" % (indent(), kw, rng.randint(0, 99)))
            extra = rng.randint(0, 4)
            if extra == 0:
                quote = rng.choice(['"""', "'''"])
                ind = indent()
                lines.append(ind + quote)
                for _ in range(rng.randint(0, 3)):
                    lines.append(ind + rng.choice(
                        ["text", "  more", "", "# x", "| t |", "@t", "  "]))
                lines.append(ind + quote)
            elif extra == 1:
                table()
            noise()
        return count

    tags("f")
    lines.append("%sFeature: F%d" % (indent(), rng.randint(0, 9)))
    for _ in range(rng.randint(0, 2)):
        lines.append("%sfeature description %d" % (indent(), rng.randint(0, 9)))
    noise()
    have_given = False
    if rng.random() < 0.5:
        lines.append("%sBackground: B" % indent())
        if rng.random() < 0.3:
            lines.append("%sbackground description" % indent())
        have_given = steps(False) > 0

    def scenarios(inherit):
        for _ in range(rng.randint(0, 3)):
            noise()
            if rng.random() < 0.6:
                tags("s")
                lines.append("%s%s: S%d" % (indent(),
                                            rng.choice(["Scenario", "Example"]),
                                            rng.randint(0, 9)))
                if rng.random() < 0.3:
                    lines.append("%sscenario description" % indent())
                steps(inherit)
            else:
                tags("o")
                lines.append("%s%s: O%d" % (
                    indent(),
                    rng.choice(["Scenario Outline", "Scenario Template"]),
                    rng.randint(0, 9)))
                if steps(inherit) == 0:
                    lines.append("%sGiven fallback <p>" % indent())
                for _ in range(rng.randint(0, 3)):
                    tags("e")
                    lines.append("%s%s: E%d" % (
                        indent(), rng.choice(["Examples", "Scenarios"]),
                        rng.randint(0, 9)))
                    table(rows=rng.randint(1, 3))

    scenarios(have_given)
    for _ in range(rng.randint(0, 2)):
        noise()
        tags("r")
        lines.append("%sRule: R%d" % (indent(), rng.randint(0, 9)))
        if rng.random() < 0.3:
            lines.append("%srule description" % indent())
        rule_given = have_given
        if rng.random() < 0.5:
            lines.append("%sBackground: RB" % indent())
            rule_given = steps(False) > 0 or have_given
        scenarios(rule_given)
    return "\n".join(lines) + rng.choice(["", "\n", "\n\n"])


def main(extra=None):
    for label, text in DOCS:
        run("parse_feature:%s" % label, parse_feature, text,
            filename="%s.feature" % label)
    run("parse_feature:language_arg_de", parse_feature,
        "Funktionalität: T\n Szenario: s\n  Angenommen x\n", language="de")
    run("parse_feature:language_arg_overridden", parse_feature,
        "# language: fr\nFonctionnalité: T\n", language="de")
    run("parse_feature:language_arg_unknown", parse_feature,
        "Feature: T\n", language="zz")
    run("parse_feature:no_filename", parse_feature, "Scenario: s\n")

    for label, text in STEPS_DOCS:
        run("parse_steps:%s" % label, parse_steps, text, filename="st.feature")
    run("parse_steps:lang_de", parse_steps,
        "Angenommen a\nUnd b\n* c\nWenn d\n", language="de")
    for label, text in SCENARIO_DOCS:
        run("parse_scenario:%s" % label, parse_scenario, text,
            filename="sc.feature")
    run("parse_scenario:lang_fr", parse_scenario,
        "@x\nScénario: s\n  Soit a\n  Et b\n", language="fr")
    for label, text in RULE_DOCS:
        run("parse_rule:%s" % label, parse_rule, text, filename="ru.feature")
    for text in TAGS_DOCS:
        run("parse_tags:%r" % text, parse_tags, text)

    # -- Optional stripping of trailing colons (class-level switch).
    Parser.STRIP_STEPS_WITH_TRAILING_COLON = True
    try:
        run("parse_feature:strip_colon", parse_feature, dict(DOCS)["steps_trailing_colon"])
        run("parse_steps:strip_colon", parse_steps,
            "Given a:\n | a |\nWhen b:\n '\'\'\'\n t\n '\'\'\'\nThen c:\n")
    finally:
        Parser.STRIP_STEPS_WITH_TRAILING_COLON = False

    # -- Parser object reuse (state is reset between runs).
    emit("=== parser reuse")
    reused = Parser()
    for text in ("Feature: a\n Scenario: s\n  Given x\n   | a |\n   | 1 |",
                 "# language: de\nFunktionalität: b\n @t\n",
                 "Feature: c\n"):
        try:
            dump_feature(reused.parse(text, "reuse.feature"))
        except ParserError as e:
            emit("  ParserError %s" % e)
    try:
        dump_any(reused.parse_steps("Given a\nAnd b\n"))
    except Exception as e:  # pylint: disable=broad-except
        emit("  EXCEPTION %s: %s" % (type(e).__name__, e))

    # -- parse_file with language header.
    tmpdir = tempfile.mkdtemp()
    cwd = os.getcwd()
    os.chdir(tmpdir)
    try:
        with io.open("x.feature", "w", encoding="utf8") as f:
            f.write("# language: de\n@a\nFunktionalit\u00e4t: Datei\n"
                    "  Szenario: s\n    Angenommen x\n      | \u00fc |\n")
        with io.open("bad.feature", "w", encoding="utf8") as f:
            f.write("# language: de\nFeature: english keyword\n")
        run("parse_file:x", parse_file, "x.feature")
        run("parse_file:bad", parse_file, "bad.feature")
        run("parse_file:lang_arg", parse_file, "x.feature", language="fr")
        os.remove("x.feature")
        os.remove("bad.feature")
    finally:
        os.chdir(cwd)
        os.rmdir(tmpdir)

    # -- Every language, every alias.
    for language in sorted(i18n.languages):
        for index, text in enumerate(all_aliases_document(language)):
            run("aliases:%s:%d" % (language, index), parse_feature, text,
                filename="%s.feature" % language)

    # -- Random documents.
    rng = random.Random(20240404)
    for index in range(150):
        text = random_document(rng)
        run("random:%d" % index, parse_feature, text,
            filename="r%d.feature" % index)

    if extra is not None:
        extra()
    OUT.flush()


DOCSTRING_EXTRA = [
    ("tab_space_indent", 'Given a\n \t """\n \t x\n \t   y\n \t """\n'),
    ("nbsp_indent", 'Given a\n\u00a0\u00a0"""\n\u00a0\u00a0x\n\u00a0\u00a0"""\n'),
    ("ideographic_space_indent", 'Given a\n\u3000"""\n\u3000x\n\u3000"""\nThen b\n'),
    ("short_blank_line", 'Given a\n      """\n  \n      x\n\n      """\n'),
    ("short_nonblank_line", 'Given a\n      """\n      ok\n    x  \n      """\n'),
    ("short_nonblank_tab", 'Given a\n\t\t"""\n\tx\n\t\t"""\n'),
    ("percent_in_line", 'Given a\n    """\n  100%s %d %\n    """\n'),
    ("quote_chars_before", 'Given a\n  \'\'\'\n  it\'s "quoted"\n  \'\'\'\n'),
    ("double_in_single", "Given a\n  '''\n  \"\"\"\n  '''\n"),
    ("single_in_double", 'Given a\n  """\n  \'\'\'\n  """\n'),
    ("four_quotes", 'Given a\n  """"\n  x\n  """"\n'),
    ("two_quotes", 'Given a\n  ""\n'),
    ("mixed_quotes", 'Given a\n  "\'"\n'),
    ("trailing_text_after_open", 'Given a\n  """ trailing\n  x\n  """ more\n'),
    ("terminator_deeper", 'Given a\n  """\n  x\n        """\n'),
    ("terminator_shallower", 'Given a\n      """\n      x\n  """\n'),
    ("crlf_docstring", 'Given a\r\n  """\r\n  x  \r\n\r\n  """\r\n'),
    ("no_indent", 'Given a\n"""\nx\n """\n'),
    ("two_docstrings", 'Given a\n  """\n  x\n  """\n    \'\'\'\n    y\n    \'\'\'\n'),
    ("docstring_then_table", 'Given a\n  """\n  x\n  """\n  | a |\n  | 1 |\n'),
    ("table_then_docstring", 'Given a\n  | a |\n  """\n  x\n  """\n'),
]


def extra():
    for label, text in DOCSTRING_EXTRA:
        run("parse_steps:extra:%s" % label, parse_steps, text)
        run("parse_feature:extra:%s" % label, parse_feature,
            "Feature: f\n  Scenario: s\n" + text, filename="extra.feature")
    # -- Direct parser use: internal multi-line bookkeeping stays the same.
    for label, text in DOCSTRING_EXTRA:
        emit("=== parser internals:%s" % label)
        parser_ = Parser()
        try:
            parser_.parse_steps(text)
        except ParserError as e:
            emit("  ParserError %s" % e)
        emit("  state=%s line=%r start=%r leading=%r terminator=%r lines=%r" %
             (parser_.state.name, parser_.line, parser_.multiline_start,
              parser_.multiline_leading, parser_.multiline_terminator,
              parser_.lines))


if __name__ == "__main__":
    main(extra)
