# -*- coding: UTF-8 -*-
"""
Equivalence harness for property C17 (rerun file <-> scenario selection).
Prints a canonical transcript; run on the clean and on the patched tree and
compare the two outputs.
"""
from __future__ import print_function
import os
import shutil
import subprocess
import sys
import tempfile

WORKTREE = "/tmp/wtW/C17"
sys.path.insert(0, WORKTREE)

import behave.formatter.rerun as rerun_module      # noqa: E402
from behave.formatter.base import StreamOpener     # noqa: E402
from behave.formatter.rerun import RerunFormatter  # noqa: E402
from behave.model_core import Status, FileLocation  # noqa: E402
from behave import runner_util                     # noqa: E402
from behave.runner_util import (                   # noqa: E402
    FileLocationParser, FeatureListParser, FeatureLineDatabase,
    FeatureScenarioLocationCollector, FeatureScenarioLocationCollector1,
    FeatureScenarioLocationCollector2,
    collect_feature_locations, parse_features)

assert rerun_module.__file__.startswith(WORKTREE), rerun_module.__file__
assert runner_util.__file__.startswith(WORKTREE), runner_util.__file__

PYTHON = sys.executable
TMP = os.path.realpath(tempfile.mkdtemp(prefix="c17_equiv_"))


def norm(text):
    return text.replace(TMP, "<TMP>")


def out(*args):
    print(norm(" ".join(str(a) for a in args)))


def section(title):
    out("")
    out("=" * 8, title)


def write_file(path, contents):
    dirname = os.path.dirname(path)
    if dirname and not os.path.isdir(dirname):
        os.makedirs(dirname)
    with open(path, "w") as f:
        f.write(contents)


def describe_exception(e):
    return "%s: %s" % (e.__class__.__name__, e)


# ---------------------------------------------------------------------------
# PROJECT FIXTURE
# ---------------------------------------------------------------------------
STEPS = u'''
from behave import given, when, then, step

@step(u'a step passes')
def step_passes(ctx):
    pass

@step(u'a step fails')
def step_fails(ctx):
    assert False, "XFAIL-STEP"

@step(u'a step raises an error')
def step_errors(ctx):
    raise RuntimeError("OOPS-STEP")

@step(u'a step with "{outcome}"')
def step_with_outcome(ctx, outcome):
    if outcome == "fails":
        assert False, "XFAIL-ROW"
    elif outcome == "errors":
        raise ValueError("OOPS-ROW")
'''

ENVIRONMENT = u'''
def before_scenario(ctx, scenario):
    if "hook_error" in scenario.tags:
        raise RuntimeError("OOPS-HOOK")
    if "skip_me" in scenario.tags:
        scenario.skip("SKIPPED-BY-HOOK")

def after_scenario(ctx, scenario):
    if "after_hook_error" in scenario.tags:
        raise RuntimeError("OOPS-AFTER-HOOK")
'''

FEATURE_ALICE = u'''Feature: Alice

  Scenario: A1 passes
    Given a step passes

  Scenario: A2 fails
    Given a step passes
    When a step fails
    Then a step passes

  Scenario: A3 errors
    Given a step raises an error

  Scenario: A4 undefined
    Given an unknown step

  @skip_me
  Scenario: A5 skipped
    Given a step fails

  Scenario: A6 passes
    Given a step passes
'''

FEATURE_BOB = u'''Feature: Bob

  Background:
    Given a step passes

  Scenario Outline: B1 outline <outcome>
    Given a step with "<outcome>"

    Examples: E1
      | outcome |
      | passes  |
      | fails   |

    Examples: E2
      | outcome |
      | errors  |
      | passes  |

  @hook_error
  Scenario: B2 hook error
    Given a step passes

  Rule: R1

    Scenario: B3 in rule passes
      Given a step passes

    Scenario: B4 in rule fails
      Given a step fails

    Scenario Outline: B5 outline in rule <outcome>
      When a step with "<outcome>"

      Examples:
        | outcome |
        | errors  |
        | passes  |

  Rule: R2

    @after_hook_error
    Scenario: B6 in rule after-hook error
      Given a step passes
'''

FEATURE_CHARLY = u'''Feature: Charly (all passing)

  Scenario: C1 passes
    Given a step passes

  Scenario: C2 passes
    When a step passes
'''

FEATURE_DORA = u'''Feature: Dora (first problem is an error)

  Scenario: D1 errors
    Given a step raises an error

  Scenario: D2 passes
    Given a step passes

  Scenario: D3 fails
    Given a step fails
'''


def make_project(name, features):
    project = os.path.join(TMP, name)
    write_file(os.path.join(project, "features", "steps", "steps.py"), STEPS)
    write_file(os.path.join(project, "features", "environment.py"), ENVIRONMENT)
    for filename, contents in features:
        write_file(os.path.join(project, "features", filename), contents)
    return project


def run_behave(project, args):
    env = dict(os.environ)
    env["PYTHONPATH"] = WORKTREE
    env["PYTHONDONTWRITEBYTECODE"] = "1"
    env.pop("BEHAVE_ARGS", None)
    proc = subprocess.Popen([PYTHON, "-m", "behave", "--no-color",
                             "--no-timings", "--no-capture"] + args,
                            cwd=project, env=env, stdout=subprocess.PIPE,
                            stderr=subprocess.STDOUT)
    output = proc.communicate()[0].decode("utf-8", "replace")
    return proc.returncode, output


def show_file(path):
    if os.path.exists(path):
        with open(path) as f:
            contents = f.read()
        out("FILE %s (exists):" % path)
        for line in contents.split("\n"):
            out("  |" + line)
    else:
        out("FILE %s: MISSING" % path)


def summary_of(output):
    # -- KEEP: scenario result lines and summary counts (drop tracebacks).
    lines = []
    for line in output.splitlines():
        stripped = line.strip()
        if (stripped.startswith(("Feature:", "Scenario", "Rule:"))
                or " features passed" in line or " feature passed" in line
                or " scenarios passed" in line or " scenario passed" in line
                or " steps passed" in line or " step passed" in line
                or stripped.startswith(("Failing scenarios", "Errored scenarios",
                                        "features/"))
                or "Error" in line and "File " not in line):
            lines.append(line.rstrip())
    return lines


def closed_loop(name, features, first_args=None):
    section("CLOSED LOOP: %s" % name)
    project = make_project(name, features)
    rerun_file = os.path.join(project, "rerun.txt")
    # -- STALE rerun file from an earlier run.
    write_file(rerun_file, "features/stale.feature:1\n")
    args = ["-f", "rerun", "-o", "rerun.txt", "-f", "plain"] + (first_args or [])
    code, output = run_behave(project, args)
    out("RUN-1 returncode:", code)
    for line in summary_of(output):
        out("  1>", line)
    show_file(rerun_file)
    if os.path.exists(rerun_file):
        code, output = run_behave(project, ["-f", "plain", "@rerun.txt"])
        out("RUN-2 returncode:", code)
        for line in summary_of(output):
            out("  2>", line)
        # -- RUN-3: Rerun with rerun formatter overwriting its own input name.
        code, output = run_behave(project, ["-f", "rerun", "-o", "rerun2.txt",
                                            "@rerun.txt"])
        out("RUN-3 returncode:", code)
        show_file(os.path.join(project, "rerun2.txt"))
    return project


# ---------------------------------------------------------------------------
# IN-PROCESS: RerunFormatter with recording stream and fake model
# ---------------------------------------------------------------------------
class RecordingStream(object):
    closed = False
    encoding = "UTF-8"

    def __init__(self, log):
        self.log = log

    def write(self, text):
        self.log.append(("write", type(text).__name__, text))

    def flush(self):
        self.log.append(("flush",))

    def close(self):
        self.log.append(("close",))
        self.closed = True


class FakeDateTime(object):
    calls = 0

    def __init__(self, text="2001-02-03 04:05:06"):
        self.text = text

    @classmethod
    def now(cls):
        cls.calls += 1
        return cls()

    def replace(self, **kwargs):
        assert kwargs == {"microsecond": 0}, kwargs
        return self

    def isoformat(self, sep="T"):
        return self.text.replace(" ", sep)


class FakeStatusOwner(object):
    def __init__(self, status, log=None, label=None):
        self._status = status
        self._log = log
        self._label = label

    @property
    def status(self):
        if self._log is not None:
            self._log.append(("status?", self._label))
        if isinstance(self._status, Exception):
            raise self._status
        return self._status


class FakeScenario(FakeStatusOwner):
    def __init__(self, filename, line, name, status, log=None):
        super(FakeScenario, self).__init__(status, log, "%s:%s" % (filename, line))
        self.filename = filename
        self.line = line
        self.name = name
        self.location = FileLocation(filename, line)


class FakeFeature(FakeStatusOwner):
    def __init__(self, name, status, scenarios, log=None, truthy=True):
        super(FakeFeature, self).__init__(status, log, name)
        self.name = name
        self.scenarios = scenarios
        self.truthy = truthy

    def __bool__(self):
        return self.truthy
    __nonzero__ = __bool__

    def walk_scenarios(self, *args, **kwargs):
        if self._log is not None:
            self._log.append(("walk_scenarios", self.name, args, kwargs))
        for scenario in self.scenarios:
            if self._log is not None:
                self._log.append(("yield", scenario._label))
            yield scenario


class Config(object):
    pass


def make_formatter_class(show_timestamp, show_descriptions):
    class CustomRerunFormatter(RerunFormatter):
        pass
    CustomRerunFormatter.show_timestamp = show_timestamp
    CustomRerunFormatter.show_failed_scenarios_descriptions = show_descriptions
    return CustomRerunFormatter


ALL_STATUSES = list(Status)


def formatter_inprocess():
    section("IN-PROCESS: Status predicates")
    for status in ALL_STATUSES:
        out(status.name, "has_failed=%s is_error=%s is_failure=%s" % (
            status.has_failed(), status.is_error(), status.is_failure()))

    section("IN-PROCESS: eof() collection per feature/scenario status")
    here = os.path.join(TMP, "inproc")
    os.makedirs(here)
    os.chdir(here)
    for feature_status in ALL_STATUSES:
        log = []
        scenarios = [FakeScenario(os.path.join(here, "features", "x.feature"),
                                  10 * (i + 1), "S-%s" % s.name, s, log)
                     for i, s in enumerate(ALL_STATUSES)]
        feature = FakeFeature("F-%s" % feature_status.name, feature_status,
                              scenarios, log)
        stream_log = []
        formatter = RerunFormatter(
            StreamOpener(stream=RecordingStream(stream_log)), Config())
        formatter.uri("x.feature")
        formatter.feature(feature)
        formatter.eof()
        out("feature.status=%s collected=%s current_feature=%r" % (
            feature_status.name,
            [s.name for s in formatter.failed_scenarios],
            formatter.current_feature))
        out("  access-log:", log)

    section("IN-PROCESS: eof() without feature / falsy feature / twice")
    formatter = RerunFormatter(StreamOpener(stream=RecordingStream([])), Config())
    formatter.eof()
    out("no-feature:", formatter.failed_scenarios, formatter.current_feature)
    log = []
    falsy = FakeFeature("falsy", Status.failed,
                        [FakeScenario("a.feature", 1, "S", Status.failed, log)],
                        log, truthy=False)
    formatter.feature(falsy)
    formatter.eof()
    out("falsy-feature:", formatter.failed_scenarios, formatter.current_feature, log)
    log = []
    good = FakeFeature("good", Status.failed,
                       [FakeScenario("a.feature", 1, "S1", Status.failed, log),
                        FakeScenario("a.feature", 5, "S2", Status.error, log)],
                       log)
    formatter.feature(good)
    formatter.eof()
    formatter.eof()
    out("eof-twice:", [s.name for s in formatter.failed_scenarios],
        formatter.current_feature)
    formatter.reset()
    out("after-reset:", formatter.failed_scenarios, formatter.current_feature)

    section("IN-PROCESS: eof() with raising status (partial collection)")
    for bad_index in (0, 1, 2):
        log = []
        scenarios = [FakeScenario("a.feature", 1, "S1", Status.failed, log),
                     FakeScenario("a.feature", 5, "S2", Status.error, log),
                     FakeScenario("a.feature", 9, "S3", Status.hook_error, log)]
        scenarios[bad_index]._status = KeyError("BAD-%d" % bad_index)
        feature = FakeFeature("F", Status.error, scenarios, log)
        formatter = RerunFormatter(StreamOpener(stream=RecordingStream([])), Config())
        formatter.feature(feature)
        try:
            formatter.eof()
            out("no exception")
        except Exception as e:  # pylint: disable=broad-except
            out("exception:", describe_exception(e))
        out("  collected=%s current_feature_is_feature=%s" % (
            [s.name for s in formatter.failed_scenarios],
            formatter.current_feature is feature))
        out("  access-log:", log)
    log = []
    feature = FakeFeature("F", ValueError("BAD-FEATURE"), [], log)
    formatter = RerunFormatter(StreamOpener(stream=RecordingStream([])), Config())
    formatter.feature(feature)
    try:
        formatter.eof()
    except Exception as e:  # pylint: disable=broad-except
        out("exception:", describe_exception(e),
            formatter.current_feature is feature, log)

    section("IN-PROCESS: close()/report_scenario_failures() write calls")
    file_a = os.path.join(here, "features", "a.feature")
    file_b = os.path.join(here, "features", "sub", "b.feature")
    file_c = os.path.join(TMP, "elsewhere", "c.feature")
    scenario_sets = [
        ("empty", []),
        ("one", [(file_a, 3, u"Alpha")]),
        ("two-features", [(file_a, 3, u"Alpha"), (file_a, 12, u"Beta"),
                          (file_b, 7, u"Gamma"), (file_c, 12345, u"Delta"),
                          (file_a, 30, u"Again a")]),
        ("unicode", [(file_b, 1, u"\u00c4rger mit \u00fc")]),
        ("relative", [("features/r.feature", 2, u"Rel"), ("features/r.feature", 9, u""),
                      ("other.feature", 1, u"Other")]),
    ]
    rerun_module.datetime = FakeDateTime
    for show_timestamp in (False, True):
        for show_descriptions in (False, True):
            formatter_class = make_formatter_class(show_timestamp, show_descriptions)
            for label, data in scenario_sets:
                stream_log = []
                opener = StreamOpener(stream=RecordingStream(stream_log))
                formatter = formatter_class(opener, Config())
                formatter.failed_scenarios = [
                    FakeScenario(f, l, n, Status.failed) for f, l, n in data]
                FakeDateTime.calls = 0
                try:
                    formatter.close()
                    result = "ok"
                except Exception as e:  # pylint: disable=broad-except
                    result = describe_exception(e)
                out("timestamp=%s descriptions=%s set=%s -> %s now-calls=%d" % (
                    show_timestamp, show_descriptions, label, result,
                    FakeDateTime.calls))
                for entry in stream_log:
                    out("   ", repr(entry))
                out("    formatter.stream is None:", formatter.stream is None)

    section("IN-PROCESS: report_scenario_failures() directly")
    for data in ([], [(file_a, 3, u"Alpha")]):
        stream_log = []
        formatter = make_formatter_class(True, True)(
            StreamOpener(stream=RecordingStream(stream_log)), Config())
        formatter.failed_scenarios = [
            FakeScenario(f, l, n, Status.failed) for f, l, n in data]
        try:
            result = formatter.report_scenario_failures()
            out("result:", result, stream_log)
        except Exception as e:  # pylint: disable=broad-except
            out("exception:", describe_exception(e), stream_log)

    section("IN-PROCESS: close() with real files (write / delete / keep)")
    for label, data, precreate in [
            ("fail+stale", [(file_a, 3, u"Alpha")], True),
            ("fail+nofile", [(file_a, 3, u"Alpha"), (file_b, 4, u"B")], False),
            ("pass+stale", [], True),
            ("pass+nofile", [], False),
            ("fail+subdir", [(file_a, 3, u"Alpha")], False)]:
        target = os.path.join(here, "out_%s" % label.replace("+", "_"),
                              "rerun.txt")
        if label != "fail+subdir":
            os.makedirs(os.path.dirname(target))
        if precreate:
            write_file(target, "STALE\n")
        formatter = RerunFormatter(StreamOpener(filename=target), Config())
        formatter.failed_scenarios = [
            FakeScenario(f, l, n, Status.failed) for f, l, n in data]
        formatter.close()
        out("CASE", label, "stream:", formatter.stream,
            "opener.stream:", formatter.stream_opener.stream)
        show_file(target)
    # -- STDOUT MODE: no name, nothing failed => nothing removed, no error.
    formatter = RerunFormatter(StreamOpener(stream=RecordingStream([])), Config())
    formatter.close()
    out("stdout-mode pass: ok, name=%r" % formatter.stream_opener.name)
    # -- NAME IS A DIRECTORY and nothing failed => os.remove raises.
    dirname = os.path.join(here, "a_directory")
    os.makedirs(dirname)
    formatter = RerunFormatter(StreamOpener(filename=dirname), Config())
    try:
        formatter.close()
        out("directory: no exception")
    except Exception as e:  # pylint: disable=broad-except
        out("directory:", e.__class__.__name__, os.path.isdir(dirname))


# ---------------------------------------------------------------------------
# IN-PROCESS: runner_util
# ---------------------------------------------------------------------------
def show_location(location):
    return "FileLocation(%r, %r)" % (location.filename, location.line)


def runner_util_inprocess(project):
    section("IN-PROCESS: FileLocationParser.parse")
    for text in [u"features/a.feature", u"features/a.feature:10", u"  a.feature:3  ",
                 u"a.feature:", u"a.feature:x", u":12", u"", u"   ", u"a:b:7",
                 u"a.feature:007", u"a.feature: 7", u"a.feature :7", u"a.feature:7\n",
                 u"C:\\x\\a.feature:9", u"a.feature:-3", u"a.feature:1:2",
                 u"\u00e4.feature:\u0663"]:
        try:
            out(repr(text), "->", show_location(FileLocationParser.parse(text)))
        except Exception as e:  # pylint: disable=broad-except
            out(repr(text), "-> exception", describe_exception(e))

    section("IN-PROCESS: FeatureListParser.parse")
    os.chdir(project)
    texts = [
        u"",
        u"\n\n",
        u"# comment only\n",
        u"features/alice.feature\n",
        u"features/alice.feature:7\nfeatures/bob.feature:12\n",
        u"  features/alice.feature:7  \n\n   # indented comment\n#x\nfeatures/bob.feature\n",
        u"features/*.feature\n",
        u"features/[ab]*.feature\nfeatures/charly.feature:3\n",
        u"features/nomatch*.feature\nfeatures/missing.feature:4\n",
        u"features/../features/./alice.feature:7\n",
        u"features//alice.feature\r\nfeatures/bob.feature:3\r\n",
        u"%s/features/alice.feature:11\n" % project,
        u"features/?ob.feature\n# tail",
        u"features/alice.feature:7 # not a comment\n",
    ]
    for here in (None, "", project, "features", "."):
        for text in texts:
            try:
                locations = FeatureListParser.parse(text, here)
                if "*" in text or "?" in text or "[" in text:
                    locations = sorted(locations, key=lambda x: (x.filename, x.line or 0))
                out("here=%r text=%r" % (here, text))
                for location in locations:
                    out("    ", show_location(location))
            except Exception as e:  # pylint: disable=broad-except
                out("here=%r text=%r -> exception %s" % (here, text, describe_exception(e)))
    try:
        out("default-here:", [show_location(x) for x in
                              FeatureListParser.parse(u"features/alice.feature:2")])
    except Exception as e:  # pylint: disable=broad-except
        out("default-here exception", describe_exception(e))

    section("IN-PROCESS: FeatureListParser.parse_file")
    write_file(os.path.join(project, "lists", "some.txt"),
               u"# LIST\n../features/alice.feature:7\n\n../features/bob.feature\n")
    write_file(os.path.join(project, "toplist.txt"),
               u"features/dora.feature:3\nfeatures/dora.feature:9\n")
    write_file(os.path.join(project, "empty.txt"), u"")
    for name in ["lists/some.txt", "@lists/some.txt", "toplist.txt", "@toplist.txt",
                 "empty.txt", "missing.txt", "@missing.txt", "features", "@@toplist.txt",
                 os.path.join(project, "lists", "some.txt")]:
        try:
            locations = FeatureListParser.parse_file(name)
            out(name, "->", [show_location(x) for x in locations])
        except Exception as e:  # pylint: disable=broad-except
            out(name, "-> exception", describe_exception(e))

    section("IN-PROCESS: collect_feature_locations")
    write_file(os.path.join(project, "features", "sub", "zeta.feature"),
               u"Feature: Zeta\n  Scenario: Z1\n    Given a step passes\n")
    write_file(os.path.join(project, "features", "sub", "alpha.feature"),
               u"Feature: Alpha\n  Scenario: AA1\n    Given a step passes\n")
    write_file(os.path.join(project, "features", "sub", "notes.txt"), u"no feature\n")
    write_file(os.path.join(project, "features", "aaa", "deep", "d.feature"),
               u"Feature: Deep\n  Scenario: DD1\n    Given a step passes\n")
    write_file(os.path.join(project, "features", "x.feature.bak"), u"")
    path_sets = [
        [],
        ["features"],
        ["features/"],
        ["features/sub", "features/aaa"],
        ["features/alice.feature"],
        ["features/alice.feature:7", "features/bob.feature:12", "features/alice.feature:3"],
        ["@toplist.txt"],
        ["@lists/some.txt", "features/charly.feature"],
        ["features/charly.feature", "@toplist.txt", "features/sub"],
        ["features/missing.feature"],
        ["features/missing.feature:4", "features/alice.feature"],
        ["features/alice.txt"],
        ["toplist.txt"],
        ["features/sub/notes.txt:3"],
        ["@missing.txt"],
        ["@"],
        [""],
        ["features/alice.feature", "features/notes.md", "features/bob.feature"],
        ["features/steps"],
    ]
    for strict in (True, False):
        for paths in path_sets:
            try:
                locations = collect_feature_locations(paths, strict=strict)
                out("strict=%s paths=%r" % (strict, paths))
                for location in locations:
                    out("    ", show_location(location))
            except Exception as e:  # pylint: disable=broad-except
                out("strict=%s paths=%r -> exception %s" % (
                    strict, paths, describe_exception(e)))
    try:
        out("default-strict:", collect_feature_locations(["features/nope.feature"]))
    except Exception as e:  # pylint: disable=broad-except
        out("default-strict -> exception", describe_exception(e))

    section("IN-PROCESS: FeatureLineDatabase (bob.feature, every line)")
    from behave.parser import parse_file
    bob_file = os.path.join(project, "features", "bob.feature")
    feature = parse_file(bob_file)
    database = FeatureLineDatabase.make(feature)
    out("line-data:", [(line, type(entity).__name__, entity.name)
                       for line, entity in database.data.items()])
    for line in list(range(0, 70)) + [1000, -5]:
        run_item = database.select_run_item_by_line(line)
        scenarios = database.select_scenarios_by_line(line)
        out("line=%d run_item=%s:%s scenarios=%s %s" % (
            line, type(run_item).__name__, run_item.name,
            type(scenarios).__name__,
            [(type(s).__name__, s.name, s.line) for s in scenarios]))
    for entity in [feature] + list(feature.rules) + list(feature.walk_scenarios(with_outlines=True)):
        database2 = FeatureLineDatabase(entity)
        out("entity=%s:%s lines=%s" % (type(entity).__name__, entity.name,
                                       list(database2.data.keys())))
        for line in (0, entity.location.line, entity.location.line + 1, 999):
            out("    line=%d -> %s" % (line, [
                (s.name, s.line) for s in database2.select_scenarios_by_line(line)]))
    empty_database = FeatureLineDatabase()
    out("empty-database:", list(empty_database.data.items()))
    try:
        out(empty_database.select_scenarios_by_line(3))
    except Exception as e:  # pylint: disable=broad-except
        out("empty-database exception:", describe_exception(e))

    section("IN-PROCESS: FeatureScenarioLocationCollector*")
    for collector_class in (FeatureScenarioLocationCollector,
                            FeatureScenarioLocationCollector1,
                            FeatureScenarioLocationCollector2):
        for lines in ([], [None], [0], [5], [7], [8], [12], [5, 7], [1], [2], [3, 999],
                      [19], [24], [29], [32], [35], [38], [41], [45], [46], [50], [53],
                      [7, None], [12, 16, 36]):
            feature = parse_file(bob_file)
            collector = collector_class(feature)
            try:
                for line in lines:
                    collector.add_location(FileLocation(bob_file, line))
                selected = collector.discover_selected_scenarios() if lines else None
                feature2 = collector.build_feature()
                out("%s lines=%r same-feature=%s use_all=%s" % (
                    collector_class.__name__, lines, feature2 is feature,
                    collector.use_all_scenarios))
                if selected is not None:
                    out("    discovered:", sorted((s.line, s.name) for s in selected))
                out("    selected-attr:", sorted(
                    (s.line, s.name) for s in collector.selected_scenarios))
                out("    statuses:", [
                    (s.line, s.status.name, s.should_skip)
                    for s in feature.walk_scenarios()])
            except Exception as e:  # pylint: disable=broad-except
                out("%s lines=%r -> exception %s" % (
                    collector_class.__name__, lines, describe_exception(e)))
    # -- setup/teardown tags are never skipped.
    write_file(os.path.join(project, "features", "tagged.feature"), u'''Feature: Tagged
  @setup
  Scenario: T1 setup
    Given a step passes
  Scenario: T2
    Given a step passes
  @teardown @other
  Scenario: T3 teardown
    Given a step passes
  @other
  Scenario: T4
    Given a step passes
  @setup.more
  Scenario: T5
    Given a step passes
''')
    tagged_file = os.path.join(project, "features", "tagged.feature")
    for line in (3, 5, 8, 11, 14):
        features = parse_features([FileLocation(tagged_file, line)])
        out("tagged line=%d:" % line, [
            (s.name, s.status.name, s.should_skip)
            for s in features[0].walk_scenarios()])
    collector = FeatureScenarioLocationCollector2()
    out("collector-without-feature:", collector.build_feature())
    collector = FeatureScenarioLocationCollector2(
        location=FileLocation("features/bob.feature", 7))
    out("collector-with-location:", collector.filename, collector.scenario_lines,
        collector.build_feature())
    try:
        collector.add_location(FileLocation("features/alice.feature", 7))
    except AssertionError as e:
        out("filename-mismatch:", describe_exception(e))
    collector.clear()
    out("cleared:", collector.feature, collector.filename, collector.use_all_scenarios,
        collector.scenario_lines, collector.all_scenarios, collector.selected_scenarios)

    section("IN-PROCESS: parse_features(collect_feature_locations(...))")
    write_file(os.path.join(project, "features", "nofeature.feature"), u"# nothing\n")
    write_file(os.path.join(project, "sel1.txt"),
               u"features/alice.feature:7\nfeatures/alice.feature:12\n"
               u"features/bob.feature:16\nfeatures/bob.feature:36\n")
    write_file(os.path.join(project, "sel2.txt"),
               u"features/alice.feature:7\nfeatures/bob.feature:12\n"
               u"features/alice.feature:4\n")
    write_file(os.path.join(project, "sel3.txt"),
               u"features/nofeature.feature:3\nfeatures/charly.feature:6\n"
               u"features/nofeature.feature\nfeatures/dora.feature\nfeatures/dora.feature:3\n")
    write_file(os.path.join(project, "sel4.txt"),
               u"features/bob.feature:6\nfeatures/bob.feature:27\nfeatures/bob.feature:48\n")
    write_file(os.path.join(project, "sel5.txt"), u"# nothing selected\n")
    for paths in (["@sel1.txt"], ["@sel2.txt"], ["@sel3.txt"], ["@sel4.txt"],
                  ["@sel5.txt"], ["features/charly.feature", "@sel1.txt"],
                  ["features/alice.feature:1000"], ["features/alice.feature:1"],
                  ["features/alice.feature", "features/alice.feature:7"]):
        try:
            locations = collect_feature_locations(paths)
            features = parse_features(locations)
            out("paths=%r locations=%s" % (paths, [show_location(x) for x in locations]))
            for feature in features:
                out("    FEATURE", feature.name, feature.filename)
                for scenario in feature.walk_scenarios():
                    out("        %-8s skip=%-5s %s:%d  %s" % (
                        scenario.status.name, scenario.should_skip,
                        os.path.basename(scenario.filename), scenario.line,
                        scenario.name))
        except Exception as e:  # pylint: disable=broad-except
            out("paths=%r -> exception %s" % (paths, describe_exception(e)))
    # -- parse_features with plain strings and mixed input
    features = parse_features(["features/./charly.feature", "features/alice.feature",
                               FileLocation("features/alice.feature", 7),
                               FileLocation("features/charly.feature", 6)])
    out("strings:", [(f.name, [(s.line, s.should_skip) for s in f.walk_scenarios()])
                     for f in features])
    out("empty:", parse_features([]))
    try:
        parse_features(["features/alice.feature:7"])
    except Exception as e:  # pylint: disable=broad-except
        out("string-with-line:", e.__class__.__name__)
    try:
        parse_features([42])
    except AssertionError as e:
        out("bad-type:", describe_exception(e))
    try:
        parse_features([FileLocation("features/missing.feature", 3)])
    except Exception as e:  # pylint: disable=broad-except
        out("missing-file:", e.__class__.__name__)


def main():
    try:
        all_features = [("alice.feature", FEATURE_ALICE), ("bob.feature", FEATURE_BOB),
                        ("charly.feature", FEATURE_CHARLY), ("dora.feature", FEATURE_DORA)]
        project = closed_loop("mixed", all_features)
        closed_loop("all_passing", [("charly.feature", FEATURE_CHARLY)])
        closed_loop("error_first", [("dora.feature", FEATURE_DORA)])
        closed_loop("outline_rules_only", [("bob.feature", FEATURE_BOB)])
        closed_loop("mixed_dry_run", all_features, ["--dry-run"])
        closed_loop("mixed_stop", all_features, ["--stop"])
        closed_loop("mixed_tags", all_features, ["--tags=not @hook_error"])
        formatter_inprocess()
        runner_util_inprocess(project)
    finally:
        os.chdir("/")
        shutil.rmtree(TMP, ignore_errors=True)


if __name__ == "__main__":
    main()
