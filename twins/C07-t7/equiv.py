# -*- coding: UTF-8 -*-
"""
Equivalence transcript for property C07 (tag expressions v2).

Exercises make_tag_expression()/TagExpressionProtocol/Configuration.setup_tag_expression
through their public behaviour and prints a canonical transcript:
truth tables, printed forms, re-parsed truth tables, exception types/messages,
mutations of passed-in tag lists, process-wide protocol state.
"""
from __future__ import absolute_import, print_function
import sys
sys.path.insert(0, "/tmp/wtU/C07")

import hashlib
import itertools
import random
import re

from behave.tag_expression import make_tag_expression, TagExpressionProtocol
from behave.tag_expression.parser import TagExpressionParser
from behave.tag_expression.model import (
    Literal, And, Or, Not, True_, Matcher, Never, Expression
)
from behave.tag_expression import builder as _builder
from behave.configuration import Configuration

V1 = TagExpressionProtocol.V1
V2 = TagExpressionProtocol.V2
AUTO = TagExpressionProtocol.AUTO_DETECT


_ADDRESS = re.compile(r" at 0x[0-9a-fA-F]+")


def out(*parts):
    print(_ADDRESS.sub(" at 0xADDR", " | ".join(str(p) for p in parts)))


def describe_exc(e):
    return "%s: args=%r str=%s" % (type(e).__name__, e.args, e)


def attempt(func, *args, **kwargs):
    try:
        return ("ok", func(*args, **kwargs))
    except BaseException as e:  # noqa: B902
        return ("EXC", describe_exc(e))


def subsets(universe):
    for size in range(len(universe) + 1):
        for combo in itertools.combinations(universe, size):
            yield list(combo)


def table(expr, universe, method="check"):
    bits = []
    for tags in subsets(universe):
        try:
            value = getattr(expr, method)(tags)
            if value is True:
                bits.append("1")
            elif value is False:
                bits.append("0")
            else:
                bits.append("<%r>" % (value,))
        except Exception as e:  # noqa: B902
            bits.append("<%s>" % type(e).__name__)
    return "".join(bits)


# ---------------------------------------------------------------------------
# 0. PROCESS-WIDE STATE BEFORE ANYTHING IS SELECTED
# ---------------------------------------------------------------------------
out("SECTION 0: protocol state")
out("has _current", hasattr(TagExpressionProtocol, "_current"))
out("current", TagExpressionProtocol.current())
out("choices", TagExpressionProtocol.choices())
out("members", [m.name for m in TagExpressionProtocol])
out("STRICT is V2", TagExpressionProtocol.STRICT is V2,
    "DEFAULT is AUTO", TagExpressionProtocol.DEFAULT is AUTO)
for name in ["v1", "V1", "v2", "V2", "auto_detect", "Auto_Detect", "strict",
             "STRICT", "Strict", "default", "DEFAULT", "bogus", "", "v3",
             " v2", "auto-detect"]:
    out("from_name", repr(name), attempt(TagExpressionProtocol.from_name, name))
for bad in [None, 42, b"v2"]:
    out("from_name", repr(bad), attempt(TagExpressionProtocol.from_name, bad))

for arg in ["v2", V1, "strict", "auto_detect", V2, "bogus", 42, None,
            "V1", AUTO, "default", (V2,), b"v1"]:
    result = attempt(TagExpressionProtocol.use, arg)
    out("use", repr(arg), result, "current", TagExpressionProtocol.current(),
        "has _current", hasattr(TagExpressionProtocol, "_current"))
TagExpressionProtocol.use(AUTO)


# ---------------------------------------------------------------------------
# 1. EXHAUSTIVE TREES (depth <= 2) OVER A SMALL ALPHABET, ALL RENDERINGS
# ---------------------------------------------------------------------------
out("SECTION 1: exhaustive trees")
UNIVERSE = ["a", "b", "ab", "A", "c.d", "c.x"]
OPERANDS = ["a", "b", "a*", "c.?"]


def trees(depth):
    if depth == 0:
        for op in OPERANDS:
            yield ("lit", op)
        return
    lower = list(trees(depth - 1))
    for t in lower:
        yield t
    for t in lower:
        yield ("not", t)
    for x in lower:
        for y in lower:
            yield ("and", x, y)
            yield ("or", x, y)


def model_eval(tree, tags):
    from fnmatch import fnmatchcase
    kind = tree[0]
    if kind == "lit":
        name = tree[1]
        if any(c in name for c in "*?["):
            return any(fnmatchcase(t, name) for t in tags)
        return name in tags
    if kind == "not":
        return not model_eval(tree[1], tags)
    if kind == "and":
        return all(model_eval(t, tags) for t in tree[1:])
    if kind == "or":
        return any(model_eval(t, tags) for t in tree[1:])
    if kind == "true":
        return True
    raise ValueError(kind)


def model_table(tree, universe):
    return "".join("1" if model_eval(tree, tags) else "0"
                   for tags in subsets(universe))


def render(tree, style):
    """style: 0=plain, 1=with @, 2=redundant parens, 3=extra spaces + @"""
    kind = tree[0]
    if kind == "lit":
        name = tree[1]
        if style in (1, 3):
            name = "@" + name
        if style == 2:
            return "(%s)" % name
        return name
    if kind == "not":
        inner = render(tree[1], style)
        if style == 2:
            return "(not (%s))" % inner
        if style == 3:
            return "not  ( %s )" % inner
        return "not (%s)" % inner
    word = " %s " % kind
    if style == 3:
        word = "  %s " % kind
    parts = [render(t, style) for t in tree[1:]]
    text = "(%s)" % word.join(parts)
    if style == 2:
        text = "((%s))" % text
    return text


count = 0
mismatch = 0
seen_tables = {}
for tree in trees(2):
    count += 1
    expected = model_table(tree, UNIVERSE)
    text0 = render(tree, 0)
    expr = make_tag_expression(text0, V2)
    t0 = table(expr, UNIVERSE)
    printed = str(expr)
    pretty = expr.to_string()
    plain = expr.to_string(pretty=False)
    fmt = "{0}".format(expr)
    reparsed = make_tag_expression(printed, V2)
    reparsed2 = make_tag_expression(pretty, V2)
    others = []
    for style in (1, 2, 3):
        text = render(tree, style)
        res = attempt(make_tag_expression, text, V2)
        if res[0] == "ok":
            others.append(table(res[1], UNIVERSE) == t0 and str(res[1]) or
                          "DIFF:%s" % table(res[1], UNIVERSE))
        else:
            others.append(res[1])
    ok = (t0 == expected == table(reparsed, UNIVERSE) == table(reparsed2, UNIVERSE)
          == table(expr, UNIVERSE, "evaluate"))
    if not ok:
        mismatch += 1
    # -- KEEP TRANSCRIPT READABLE: full line for every 7th tree, digest for all
    key = (printed, pretty, plain, fmt, repr(expr), t0, str(reparsed),
           repr(reparsed2), tuple(others), ok)
    seen_tables[text0] = key
    if count % 7 == 0 or not ok or count <= 60:
        out(text0, printed, pretty, plain == printed, fmt == printed, repr(expr),
            t0, str(reparsed) == printed, others, ok)
digest = hashlib.sha256(repr(sorted(seen_tables.items())).encode("utf-8")).hexdigest()
out("exhaustive count", count, "mismatch", mismatch, "digest", digest)


# ---------------------------------------------------------------------------
# 2. RANDOM LARGER TREES, N-ARY, TAGS WITH DOTS/DASHES/EQUALS/WILDCARDS
# ---------------------------------------------------------------------------
out("SECTION 2: random trees")
UNIVERSE2 = ["a", "x-y", "k=v", "c.d", "c.e", "Foo", "foo", "a1"]
OPERANDS2 = ["a", "x-y", "k=v", "c.d", "c.*", "*", "?", "[ab]", "[!a]*", "k=*",
             "*-y", "foo", "Foo", "f?o", "a[0-9]", "zzz", "c.[de]", "x-?"]
rng = random.Random(20240707)


def random_tree(depth):
    if depth == 0 or rng.random() < 0.2:
        return ("lit", rng.choice(OPERANDS2))
    r = rng.random()
    if r < 0.25:
        return ("not", random_tree(depth - 1))
    kind = "and" if r < 0.62 else "or"
    n = rng.choice([2, 2, 2, 3, 4])
    return tuple([kind] + [random_tree(depth - 1) for _ in range(n)])


for i in range(150):
    tree = random_tree(rng.choice([2, 3, 4, 5]))
    style = rng.choice([0, 1, 2, 3])
    text = render(tree, style)
    res = attempt(make_tag_expression, text, V2)
    if res[0] != "ok":
        out("R%03d" % i, text, res[1])
        continue
    expr = res[1]
    t0 = table(expr, UNIVERSE2)
    expected = model_table(tree, UNIVERSE2)
    printed = str(expr)
    pretty = expr.to_string()
    re1 = make_tag_expression(printed, V2)
    re2 = make_tag_expression(pretty, V2)
    re3 = make_tag_expression("not ({0}) or zzz".format(printed), V2)
    auto = attempt(make_tag_expression, text, AUTO)
    auto_desc = auto[1] if auto[0] == "EXC" else (str(auto[1]), table(auto[1], UNIVERSE2) == t0)
    out("R%03d" % i, style, text, printed, pretty,
        hashlib.sha256(t0.encode("ascii")).hexdigest()[:16],
        t0 == expected, table(re1, UNIVERSE2) == t0, table(re2, UNIVERSE2) == t0,
        str(re1) == printed, table(re3, UNIVERSE2).count("1"), auto_desc)


# ---------------------------------------------------------------------------
# 3. TEXT NORMALISATION, LIST-OF-TERMS FORM, EMPTY EXPRESSION, ERRORS
# ---------------------------------------------------------------------------
out("SECTION 3: normalisation / list form / errors")
U3 = ["a", "b", "c", "a.b", "x-y", "k=v"]
TEXTS = [
    "", " ", "  ", "   ", "\t", "@", "@@", "@ ", "a", "@a", "@@a", "a@", "a@b", "@a.b",
    "a and b", "@a and @b", "a  and  b", "a   and   b", "a    and b",
    "  a and b  ", "a and\tb", "a and\nb", "a\\ b", "a\\(b\\)", "a\\\\b", "a\\b",
    "not a", "not @a", "not not a", "not(a)", "not (a)", "(not a)", "not  a",
    "a or b", "a or b and c", "a and b or c", "(a or b) and c", "a or (b and c)",
    "not a or b", "not (a or b)", "not a and not b", "not (a and b)",
    "((a))", "( ( a ) )", "(a)and(b)", "(a)or(b)", "a and(b)", "not(a)and(b)",
    "a and b and c", "a or b or c", "a and (b and c)", "(a and b) and c",
    "x-y", "k=v", "@k=v and not @x-y", "a.* or k=*", "*", "?", "[ab]", "[!ab]",
    "a.?", "@*", "@a*", "not *", "not ?", "a[", "a]", "[]", "[a", "a*b*c",
    "and", "or", "not", "a and", "a or", "and a", "or a", "a not", "a not b",
    "a b", "a b c", "(", ")", "()", "(a", "a)", "((a)", "(a))", "a and (b",
    "a and b)", "a and and b", "a or or b", "a and or b", "not and a", "not )",
    "( )", "a ( b )", "(a) (b)", "not not", "a and not", "AND", "a AND b", "Not a",
    "a , b", "a,b", "-a", "~a", "-@a", "~@a", "@a,@b", "a and -b",
    u"ä and ö", u"@café or not @naïve",
]
for text in TEXTS:
    for proto in (V2, AUTO):
        res = attempt(make_tag_expression, text, proto)
        if res[0] == "ok":
            e = res[1]
            out("T", proto.name, repr(text), type(e).__name__, repr(e), repr(str(e)),
                repr(e.to_string()), repr(e.to_string(False)), table(e, U3))
        else:
            out("T", proto.name, repr(text), res[1])

SEQS = [
    [], (), [""], ["a"], ("a",), ["@a"], ["a", "b"], ("a", "b"), ["@a", "@b"],
    ["a or b", "c"], ["a or b", "not c"], ["not a", "not b"], ["a", "b", "c"],
    ["a and b", "c or a.b"], ["a.*", "not k=v"], ["(a)", "(b)"], ["a", ""],
    ["", ""], ["a b"], ["a", "b c"], ["a)", "(b"], ["a) or (b"], ["a", "and"],
    ["a,b", "c"], ["-a", "b"], ["~a"], ["@a,@b", "-@c"], ["a", 1], [1, 2], [None],
    ["a", None], [["a"], "b"], [("a", "b")], ["@a  and   @b", "c"], ["{0}"], ["{", "a"],
    [u"ä", "a"],
]
for seq in SEQS:
    for proto in (V2, AUTO, V1):
        before = repr(seq)
        res = attempt(make_tag_expression, seq, proto)
        unchanged = (repr(seq) == before)
        if res[0] == "ok":
            e = res[1]
            out("S", proto.name, before, type(e).__name__, repr(e), repr(str(e)),
                repr(e.to_string()), table(e, U3), unchanged)
        else:
            out("S", proto.name, before, res[1], unchanged)

BAD_INPUTS = [None, 0, 1, 1.5, True, b"a", b"a and b", {"a"}, {"a": 1}, frozenset(["a"]),
              object, iter(["a"]), bytearray(b"a")]
for bad in BAD_INPUTS:
    for proto in (V2, AUTO, V1):
        res = attempt(make_tag_expression, bad, proto)
        desc = res[1] if res[0] == "EXC" else (type(res[1]).__name__, repr(res[1]))
        desc = str(desc).replace(repr(bad), "<BAD>") if "object at" in repr(bad) else desc
        out("B", proto.name, type(bad).__name__, desc)


class MyStr(str):
    pass


class MyList(list):
    pass


class MyTuple(tuple):
    pass


for value in [MyStr("@a and not @b"), MyStr("a"), MyStr(""), MyList(["@a", "b or c"]),
              MyTuple(("a", "not b")), MyList()]:
    for proto in (V2, AUTO):
        res = attempt(make_tag_expression, value, proto)
        e = res[1]
        out("SUB", proto.name, type(value).__name__, repr(value),
            res[0] == "ok" and (type(e).__name__, repr(e), str(e), table(e, U3)) or e)

# -- protocol=None uses the process-wide current protocol
for selected in ["v1", "v2", "auto_detect"]:
    TagExpressionProtocol.use(selected)
    for text in ["@a", "@a @b", "a and b", "-a", "a,b", "a*", ["a", "b"], "a b", ""]:
        res = attempt(make_tag_expression, text)
        res2 = attempt(TagExpressionProtocol.current().parse, text)
        if res[0] == "ok":
            e = res[1]
            out("CUR", selected, repr(text), type(e).__name__, repr(e), repr(str(e)),
                table(e, U3), repr(res2[1]) == repr(e))
        else:
            out("CUR", selected, repr(text), res[1], res2[1] == res[1])
TagExpressionProtocol.use(AUTO)

# -- auto-detection function directly (which parser gets selected)
for text in ["a", "@a", "a b", "a and b", "a,b", "-a", "~a", "a* b", "-a*", "~a and b",
             "(a)", "a(b", "a)b", "not", "a-b", "a~b", "nota", "a,", ",", "", "  ",
             ["a", "b"], ("a", "-b"), ["a and b"], ["a", "not"], [], None, 5, ["a", 5],
             "a? b", "a[1] ,b", "-(a)", "~a b*"]:
    res = attempt(_builder._select_tag_expression_parser4auto, text)
    out("SEL", repr(text), res[0] == "ok" and res[1].__name__ or res[1])
for words, keys in [([], []), (["a"], []), ([], ["a"]), (["a", "b"], ["b"]),
                    (["ab", "c"], ["b"]), (["a", "b"], ["c", "a"]), (["-a"], ["-", "~"]),
                    (["a-"], ["-"]), (["", "a"], [""]), (["a"], [""])]:
    out("ANY", words, keys, _builder._any_word_is_keyword(words, keys),
        _builder._any_word_contains_keyword(words, keys),
        _builder._any_word_starts_with(words, keys),
        _builder._any_word_contains_wildcards(words))
out("ANY-ERR", attempt(_builder._any_word_is_keyword, None, ["a"]),
    attempt(_builder._any_word_contains_keyword, ["a"], None),
    attempt(_builder._any_word_contains_keyword, [1], ["a"]),
    attempt(_builder._any_word_is_keyword, [1], ["a"]),
    attempt(_builder._any_word_is_keyword, iter(["a", "b"]), ["b", "a"]),
    attempt(_builder._any_word_contains_keyword, iter(["a", "b"]), ["b", "a"]),
    attempt(_builder._any_word_contains_keyword, [1], []),
    attempt(_builder._any_word_contains_keyword, [], [1]))


# ---------------------------------------------------------------------------
# 4. MODEL CLASSES DIRECTLY: printing, Matcher, operand factory
# ---------------------------------------------------------------------------
out("SECTION 4: model")
a, b, c = Literal("a"), Literal("b"), Literal("c")
m1, m2 = Matcher("a.*"), Matcher("*")
EXPRS = [
    a, m1, m2, True_(), Never(), Not(a), Not(m1), Not(True_()), Not(Never()),
    Not(Not(a)), Not(Not(Not(a))), Not(And(a, b)), Not(Or(a, b)), Not(And()), Not(Or()),
    Not(And(a)), Not(Or(a)), And(), Or(), And(a), Or(a), And(a, b, c), Or(a, b, c),
    And(Not(a), Or(b, Not(c))), Or(And(a, b), Not(And(b, c))), Not(Not(And(a, b))),
    And(Or(m1, b), Not(m2)), Literal("a b"), Literal("a(b)"), Literal("a\\b"),
    Not(Literal("x y")), Not(Literal("( a )")), And(Literal(" )"), Literal("( ")),
    Not(Matcher("( * )")), Or(True_(), a), And(Never(), a), Not(Or(Never(), True_())),
]


class MyAnd(And):
    pass


class MyExpr(Expression):
    def evaluate(self, values):
        return "x" in values

    def __str__(self):
        return "my( x )"


EXPRS.extend([Not(MyAnd(a, b)), Not(MyExpr()), MyExpr(), Not("text"), Not(12), Not(None),
              Not(("a", "b")), Not(("a",))])
U4 = ["a", "b", "c", "a.b", "x"]
for e in EXPRS:
    out("M", repr(e), attempt(str, e), attempt(e.to_string), attempt(e.to_string, False),
        attempt(e.to_string, pretty=0), attempt(e.to_string, ""), attempt(e.to_string, "x"),
        attempt("{0}".format, e), attempt(table, e, U4), attempt(lambda: e(["a"])))
out("M-static", Not.__str__.__name__, Expression.check.__name__,
    Expression.to_string.__name__, Expression.to_string.__defaults__)
out("M-err", attempt(Expression().check, []), attempt(Expression().to_string),
    attempt(Not(a).to_string, True, 1), attempt(Not(a).check), attempt(Not(1).check, []))

PATTERNS = ["a", "a*", "*a", "*", "?", "??", "[ab]", "[!ab]", "[a-c]x", "A*", "a.*", "*.b",
            "*.*", "", "[", "]", "[]", "[!]", "a[", "[z-a]", "**", "k=*", "x-?", "\\*", "a\\",
            u"ä*", "[[]", "[]]", "*[*]*"]
VALUES = ["a", "A", "ab", "ba", "a.b", "b", "", "ax", "bx", "cx", "k=v", "x-y", "*", "[", "]",
          "a[", "\\*", u"äb", "aa", "a\n", "\n"]
for p in PATTERNS:
    m = Matcher(p)
    hits = [v for v in VALUES if m.evaluate([v])]
    out("P", repr(p), Matcher.contains_wildcards(p), repr(m), str(m), m.name, hits,
        m.evaluate([]), m.evaluate(()), m.evaluate(set()), m.evaluate(VALUES), m.check(VALUES),
        m.evaluate(iter(VALUES)), type(TagExpressionParser.make_operand(p)).__name__,
        repr(TagExpressionParser.make_operand(p)))


def lazy_values(log, values):
    for v in values:
        log.append(v)
        yield v


for p in ["b*", "zzz*", "a", "*"]:
    log = []
    result = Matcher(p).evaluate(lazy_values(log, ["a", "b1", "b2", "c"]))
    out("LAZY", p, result, log)
out("P-err", attempt(Matcher("a*").evaluate, None), attempt(Matcher("a*").evaluate, [1]),
    attempt(Matcher("a*").evaluate, [None]), attempt(Matcher("a*").evaluate, [b"a"]),
    attempt(Matcher(None).evaluate, ["a"]), attempt(Matcher(None).evaluate, []),
    attempt(Matcher(b"a*").evaluate, ["a"]), attempt(Matcher(b"a*").evaluate, [b"ab"]),
    attempt(Matcher(1).evaluate, ["a"]), attempt(Matcher, ), attempt(repr, Matcher(None)),
    attempt(str, Matcher(None)), attempt(Matcher.contains_wildcards, None),
    attempt(Matcher.contains_wildcards, b"a*"), attempt(Matcher.contains_wildcards, 1),
    attempt(TagExpressionParser.make_operand, None),
    attempt(TagExpressionParser.make_operand, b"a*"),
    attempt(TagExpressionParser.make_operand, b"a"),
    attempt(TagExpressionParser.make_operand, 1))


class MyParser(TagExpressionParser):
    calls = []

    @classmethod
    def make_operand(cls, text):
        cls.calls.append(text)
        return super(MyParser, cls).make_operand(text)


for text in ["a and b* or not c?", "", "x", "not [ab]"]:
    del MyParser.calls[:]
    e = MyParser.parse(text)
    out("SUBPARSER", repr(text), repr(e), list(MyParser.calls))
for text in ["a and b*", "", "a b", "(a", "a*"]:
    out("PARSER", repr(text), attempt(lambda: repr(TagExpressionParser.parse(text))),
        attempt(lambda: repr(TagExpressionParser().parse(text))))


# ---------------------------------------------------------------------------
# 5. CONFIGURATION: {config.tags} SUBSTITUTION
# ---------------------------------------------------------------------------
out("SECTION 5: configuration")
U5 = ["a", "b", "c", "a.b", "wip"]
CONFIG_TAGS = [None, "", "a", "@a", "not a", "a and b", "a or b", "not (a or b)",
               "a.* and not b", "(a or b) and not c", "@a @b", "-a", "a,b", "a and", "a* -b",
               "not @a or @b"]
CMD_TAGS = [
    None, [], ["c"], ["{config.tags}"], ["{config.tags} and c"], ["c or {config.tags}"],
    ["not ({config.tags})"], ["not {config.tags}"], ["{config.tags}", "c"],
    ["c", "{config.tags}"], ["{config.tags}", "{config.tags}"], ["c", "not wip"],
    ["{config.tags} or {config.tags}"], ["({config.tags}) and (c or not {config.tags})"],
    ["{config_tags}"], ["{config.tags"], ["c,{config.tags}"], ["-c", "{config.tags}"],
]
for proto_name in ["auto_detect", "v2", "v1"]:
    for config_tags in CONFIG_TAGS:
        for cmd_tags in CMD_TAGS:
            args = []
            for t in (cmd_tags or []):
                args.append("--tags=" + t)
            kwargs = {"tag_expression_protocol": TagExpressionProtocol.from_name(proto_name)}
            if config_tags is not None:
                kwargs["config_tags"] = config_tags
            res = attempt(Configuration, args, load_config=False, **kwargs)
            state = TagExpressionProtocol.current().name
            if res[0] == "ok":
                cfg = res[1]
                e = cfg.tag_expression
                out("C", proto_name, repr(config_tags), cmd_tags, state, repr(cfg.tags),
                    type(e).__name__, repr(str(e)), repr(e.to_string()), table(e, U5),
                    repr(cfg.config_tags), repr(cfg.default_tags))
            else:
                out("C", proto_name, repr(config_tags), cmd_tags, state, res[1])

# -- default_tags and direct calls of setup_tag_expression(tags=...)
for kwargs in [dict(default_tags="not wip"), dict(default_tags="a", config_tags="b"),
               dict(default_tags=""), dict(default_tags=["a"]), dict(config_tags=["a", "b"]),
               dict(config_tags=("a", "not b"))]:
    for cmd in [[], ["--tags={config.tags} and c"], ["--tags={config.tags}", "--tags=c"]]:
        res = attempt(Configuration, list(cmd), load_config=False, **kwargs)
        if res[0] == "ok":
            cfg = res[1]
            out("D", sorted(kwargs.items()), cmd, repr(cfg.tags), repr(cfg.tag_expression),
                repr(str(cfg.tag_expression)), table(cfg.tag_expression, U5))
        else:
            out("D", sorted(kwargs.items()), cmd, res[1])

base = Configuration([], load_config=False, config_tags="a or b*")
DIRECT = [
    None, "", "c", "{config.tags}", "{config.tags} and c", "not ({config.tags}) or wip",
    ["{config.tags}", "c"], ["c", "d"], ["x{config.tags}y"], [],
    ("c", "d"), ("{config.tags}", "c"), ("c", "{config.tags}"), (),
    ["c", 1], [1, "{config.tags}"], ["{config.tags}", 1], [None], 5, {"a"}, b"{config.tags}",
    [b"{config.tags}"], ["c", ["{config.tags}"]], MyList(["{config.tags} and c", "wip"]),
    MyStr("{config.tags} and c"), MyTuple(("c",)),
]
for tags in DIRECT:
    for proto in (AUTO, V2, V1):
        base.tag_expression_protocol = proto
        base.tags = None
        base.tag_expression = None
        given = tags
        if isinstance(tags, list):
            given = type(tags)(tags)     # -- FRESH COPY: list is mutated in place.
        before = repr(given)
        res = attempt(base.setup_tag_expression, given)
        e = base.tag_expression
        out("X", proto.name, before, res, "after", repr(given), base.tags is given,
            repr(base.tags), e is not None and (type(e).__name__, repr(str(e)), table(e, U5)),
            TagExpressionProtocol.current().name)

# -- tags=None falls back to self.tags, then config tags
for own_tags in [None, "", "c", ["{config.tags}", "c"], "{config.tags} or c"]:
    for cfg_tags, dflt in [(None, None), ("a", None), (None, "b"), ("a", "b"), ("", "b"),
                           ("not a", "")]:
        base.tag_expression_protocol = V2
        base.config_tags = cfg_tags
        base.default_tags = dflt
        base.tags = own_tags if not isinstance(own_tags, list) else list(own_tags)
        base.tag_expression = None
        res = attempt(base.setup_tag_expression)
        e = base.tag_expression
        out("Y", repr(own_tags), repr(cfg_tags), repr(dflt), res, repr(base.tags),
            e is not None and (repr(e), repr(str(e)), table(e, U5)))
for proto in [None, "v2", "bogus", 7]:
    base.tag_expression_protocol = proto
    base.config_tags = "a"
    base.tags = "b"
    out("Z", repr(proto), attempt(base.setup_tag_expression),
        TagExpressionProtocol.current().name, repr(base.tag_expression))
out("DONE")
