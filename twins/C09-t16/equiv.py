# -*- coding: UTF-8 -*-
"""Equivalence transcript for a C09 silent twin.

Runs feature trees with tags on every level through behave's model runner
(in-process, private step registry, recording hooks/formatter/reporter)
for many tag expressions (v1 + v2 dialect), show_skipped on/off,
dry-run on/off, and prints a canonical transcript.
"""
from __future__ import absolute_import, print_function
import sys
sys.path.insert(0, "/tmp/wtW/C09")

import io
import logging
import os
import re
import contextlib

import six
from behave.configuration import Configuration
from behave.formatter.base import Formatter, StreamOpener
from behave.formatter._registry import make_formatters
from behave.model import Rule, Scenario, ScenarioOutline, ScenarioOutlineBuilder
from behave.model_core import Status
from behave.parser import parse_feature
from behave.reporter.base import Reporter
from behave.runner import ModelRunner
from behave.step_registry import StepRegistry
from behave.tag_expression import make_tag_expression, TagExpressionProtocol

assert os.path.abspath(sys.modules["behave"].__file__).startswith("/tmp/wtW/C09/")

# ---------------------------------------------------------------------------
# FEATURES
# ---------------------------------------------------------------------------
FEATURE_A = u"""
@fa @common
Feature: Alpha
  Background:
    Given a step bg-alpha

  @s1 @fast
  Scenario: A1
    Given a step a1.1
    When a step a1.2

  @s2 @slow
  Scenario: A2
    Given a step a2.1

  Scenario: A3 untagged
    Given a step a3.1
    Then a step a3.2

  @so @param.<kind>
  Scenario Outline: AO <kind>
    Given a step ao.<kind>.<n>
    Then a step ao.done

    @ex1 @fast
    Examples: First
      | kind | n |
      | x    | 1 |
      | y    | 2 |

    @ex2
    Examples: Second <kind>
      | kind | n |
      | z    | 3 |

  @ra @slow
  Rule: RuleA
    Background:
      Given a step bg-rule-a

    @rs1
    Scenario: RA1
      Given a step ra1.1

    Scenario: RA2 untagged
      Given a step ra2.1

    @rso @unknown.<missing> @kind_<kind>
    Scenario Outline: RAO
      Given a step rao.<kind>

      @rex
      Examples:
        | kind  |
        | p     |
        | q     |

  Rule: RuleB untagged
    @fast
    Scenario: RB1
      Given a step rb1.1

  @rc
  Rule: RuleC empty
"""

FEATURE_B = u"""
Feature: Beta untagged
  @s1
  Scenario: B1 fails
    Given a step b1.1
    When a failing step b1.2
    Then a step b1.3

  @s2 @wip
  Scenario: B2 undefined
    Given a step b2.1
    When an undefined thing b2.2
    Then a step b2.3

  @s3
  Scenario: B3 without steps

  @so
  Scenario Outline: BO no examples
    Given a step bo.<x>

  @so2
  Scenario Outline: BO2 examples without table
    Given a step bo2.<x>

    @ex_nt
    Examples: NoTable

    @ex_t
    Examples: WithTable
      | x |
      | 1 |

  @hook_skip @s4
  Scenario: B4 excluded by hook
    Given a step b4.1

  @hook_mark @s5
  Scenario: B5 marked skipped by hook
    Given a step b5.1

  @s6
  Scenario: B6 passes
    Given a step b6.1
    And a skipping step b6.2
    And a step b6.3
"""

FEATURE_C = u"""
@fc @hook_skip_feature
Feature: Gamma skipped by feature hook
  @s1
  Scenario: C1
    Given a step c1.1

  @rc1
  Rule: RC
    @s2
    Scenario: C2
      Given a step c2.1
"""

FEATURE_D = u"""
@fd
Feature: Delta empty
"""

FEATURE_E = u"""
@fe
Feature: Epsilon only rules
  @re1 @hook_skip_rule
  Rule: RE1 skipped by rule hook
    @s1
    Scenario: E1
      Given a step e1.1

  @re2
  Rule: RE2
    @s2 @fast
    Scenario: E2
      Given a step e2.1
    @s3 @slow
    Scenario: E3
      Given a failing step e3.1
      Then a step e3.2
"""

FEATURES = [
    ("alpha.feature", FEATURE_A),
    ("beta.feature", FEATURE_B),
    ("gamma.feature", FEATURE_C),
    ("delta.feature", FEATURE_D),
    ("epsilon.feature", FEATURE_E),
]

# ---------------------------------------------------------------------------
# TAG EXPRESSIONS (v1 and v2 dialect, negations, wildcards)
# ---------------------------------------------------------------------------
TAG_EXPRESSIONS = [
    None,
    ["@fast"],
    ["fast"],
    ["-@fast"],
    ["~@slow"],
    ["@fast,@slow"],
    ["@fast", "-@ex1"],
    ["@fa", "~@ra"],
    ["-@fa"],
    ["@s1,@s2", "-@wip"],
    ["@nowhere"],
    ["not @fast"],
    ["not @common"],
    ["@fa and not @slow"],
    ["@ra and @rex"],
    ["(@ex1 or @ex2) and not @param.y"],
    ["@param.*"],
    ["not @param.*"],
    ["@kind_*"],
    ["@s* and not @so*"],
    ["*ex*"],
    ["@so and @ex2"],
    ["@rso or @rc or @fd"],
    ["not (@fa or @fc or @fe)"],
    ["@unknown.<missing>"],
    ["@param.<kind>"],
    ["@hook_skip or @hook_mark or @s6"],
    ["@re1 or @s3"],
    ["@ex_nt or @ex_t"],
]

# ---------------------------------------------------------------------------
# RECORDING PARTS
# ---------------------------------------------------------------------------
LOG = []


def log(*parts):
    LOG.append(u" ".join(six.text_type(p) for p in parts))


def tags_of(context):
    return u",".join(sorted(context.tags))


def make_step_registry():
    registry = StepRegistry()

    def step_passes(context, name):
        log("STEP", name, "tags=" + tags_of(context))

    def step_fails(context, name):
        log("STEP-FAIL", name, "tags=" + tags_of(context))
        assert False, "FAILED: %s" % name

    def step_skips(context, name):
        log("STEP-SKIP", name)
        context.scenario.skip("step %s says so" % name)

    registry.add_step_definition("step", u"a step {name}", step_passes)
    registry.add_step_definition("step", u"a failing step {name}", step_fails)
    registry.add_step_definition("step", u"a skipping step {name}", step_skips)
    return registry


def make_hooks(with_tag_hooks=True):
    def before_all(context):
        log("HOOK before_all")

    def after_all(context):
        log("HOOK after_all")

    def before_feature(context, feature):
        log("HOOK before_feature", feature.name, "tags=" + tags_of(context))
        if "hook_skip_feature" in feature.tags:
            feature.skip("feature hook")

    def after_feature(context, feature):
        log("HOOK after_feature", feature.name, feature.status.name)

    def before_rule(context, rule):
        log("HOOK before_rule", rule.name, "tags=" + tags_of(context))
        if "hook_skip_rule" in rule.tags:
            rule.mark_skipped()

    def after_rule(context, rule):
        log("HOOK after_rule", rule.name, rule.status.name)

    def before_scenario(context, scenario):
        log("HOOK before_scenario", scenario.name, "tags=" + tags_of(context),
            "eff=" + u",".join(sorted(scenario.effective_tags)))
        if "hook_skip" in scenario.effective_tags:
            scenario.skip("scenario hook")
        if "hook_mark" in scenario.effective_tags:
            scenario.mark_skipped()

    def after_scenario(context, scenario):
        log("HOOK after_scenario", scenario.name, scenario.status.name)

    def before_step(context, step):
        log("HOOK before_step", step.name)

    def after_step(context, step):
        log("HOOK after_step", step.name, step.status.name)

    def before_tag(context, tag):
        log("HOOK before_tag", tag)

    def after_tag(context, tag):
        log("HOOK after_tag", tag)

    hooks = dict(before_all=before_all, after_all=after_all,
                 before_feature=before_feature, after_feature=after_feature,
                 before_rule=before_rule, after_rule=after_rule,
                 before_scenario=before_scenario, after_scenario=after_scenario,
                 before_step=before_step, after_step=after_step)
    if with_tag_hooks:
        hooks.update(before_tag=before_tag, after_tag=after_tag)
    return hooks


class RecordingFormatter(Formatter):
    name = "recording"

    def __init__(self):     # pylint: disable=super-init-not-called
        self.stream = None

    def uri(self, uri):
        log("FMT uri", uri)

    def feature(self, feature):
        log("FMT feature", feature.name)

    def rule(self, rule):
        log("FMT rule", rule.name)

    def background(self, background):
        log("FMT background", background.name)

    def scenario(self, scenario):
        log("FMT scenario", scenario.name)

    def step(self, step):
        log("FMT step", step.name)

    def match(self, match):
        log("FMT match", type(match).__name__)

    def result(self, step):
        log("FMT result", step.name, step.status.name)

    def eof(self):
        log("FMT eof")

    def rule_finished(self):
        log("FMT rule_finished")

    def close(self):
        log("FMT close")


class RecordingReporter(Reporter):
    def feature(self, feature):
        log("REPORTER feature", feature.name, feature.status.name)

    def end(self):
        log("REPORTER end")


class LogRecorder(logging.Handler):
    def emit(self, record):
        log("LOGGING", record.levelname, record.getMessage())


# ---------------------------------------------------------------------------
# RUN + DUMP
# ---------------------------------------------------------------------------
def describe_scenario(scenario, indent):
    lines = []
    lines.append(u"%s%s %r status=%s should_skip=%r skip_reason=%r tags=%s eff=%s dry=%r hook_failed=%r" % (
        indent, type(scenario).__name__, scenario.name, scenario.status.name,
        scenario.should_skip, scenario.skip_reason,
        u",".join(scenario.tags), u",".join(sorted(scenario.effective_tags)),
        scenario.was_dry_run, scenario.hook_failed))
    for step in scenario.all_steps:
        lines.append(u"%s  step %r status=%s" % (indent, step.name, step.status.name))
    return lines


def describe_container(container, indent=u""):
    lines = []
    lines.append(u"%s%s %r status=%s should_skip=%r skip_reason=%r tags=%s eff=%s" % (
        indent, type(container).__name__, container.name, container.status.name,
        container.should_skip, container.skip_reason,
        u",".join(container.tags), u",".join(sorted(container.effective_tags))))
    for run_item in container.run_items:
        if isinstance(run_item, Rule):
            lines.extend(describe_container(run_item, indent + u"  "))
        elif isinstance(run_item, ScenarioOutline):
            outline = run_item
            lines.append(u"%s  ScenarioOutline %r status=%s should_skip=%r skip_reason=%r tags=%s eff=%s built=%d" % (
                indent, outline.name, outline.status.name,
                outline.should_skip, outline.skip_reason,
                u",".join(outline.tags), u",".join(sorted(outline.effective_tags)),
                len(outline._scenarios)))
            for scenario in outline._scenarios:
                lines.extend(describe_scenario(scenario, indent + u"    "))
                lines.append(u"%s      parent_is_outline=%r feature=%r row=%r" % (
                    indent, scenario.parent is outline,
                    getattr(scenario.feature, "name", None),
                    getattr(scenario._row, "id", None)))
        else:
            lines.extend(describe_scenario(run_item, indent + u"  "))
    return lines


@contextlib.contextmanager
def captured_stdout():
    old_stdout, old_stderr = sys.stdout, sys.stderr
    stream = io.StringIO() if six.PY3 else io.BytesIO()
    sys.stdout = sys.stderr = stream
    try:
        yield stream
    finally:
        sys.stdout, sys.stderr = old_stdout, old_stderr


def normalize_output(text):
    """Mask run-time dependent parts (durations) in formatter output."""
    text = re.sub(r'"duration": [-+0-9.e]+', '"duration": <D>', text)
    return text


def parse_features(selected=None):
    features = []
    for filename, text in FEATURES:
        if selected and filename not in selected:
            continue
        features.append(parse_feature(text, filename=filename))
    return features


def run_case(title, tags=None, extra_args=None, selected=None,
             with_tag_hooks=True, with_hooks=True, formats=("plain",),
             protocol=None):
    del LOG[:]
    out = []
    out.append(u"=" * 70)
    out.append(u"CASE %s: tags=%r extra=%r selected=%r protocol=%r" % (
        title, tags, extra_args, selected, protocol))
    kwargs = {}
    if protocol:
        kwargs["tag_expression_protocol"] = TagExpressionProtocol.from_name(protocol)
    args = ["--no-timings", "--no-color", "--no-capture"]
    for fmt in formats:
        args.append("--format=" + fmt)
    for tag in tags or []:
        args.append("--tags=" + tag)
    args.extend(extra_args or [])

    handler = LogRecorder()
    behave_logger = logging.getLogger("behave")
    behave_logger.addHandler(handler)
    old_level = behave_logger.level
    behave_logger.setLevel(logging.WARNING)
    result = None
    features = []
    plain_stream = io.StringIO()
    try:
        with captured_stdout() as stdout:
            try:
                config = Configuration(command_args=args, load_config=False,
                                       **kwargs)
                config.reporters = [RecordingReporter(config)]
                features = parse_features(selected)
                runner = ModelRunner(config, features,
                                     step_registry=make_step_registry())
                if with_hooks:
                    runner.hooks = make_hooks(with_tag_hooks)
                runner.formatters = make_formatters(
                    config, [StreamOpener(stream=plain_stream)])
                runner.formatters.append(RecordingFormatter())
                result = runner.run()
                out.append(u"UNDEFINED: %r" % [s.name for s in runner.undefined_steps])
            except BaseException as e:  # pylint: disable=broad-except
                out.append(u"EXCEPTION %s: %s" % (type(e).__name__, e))
    finally:
        behave_logger.removeHandler(handler)
        behave_logger.setLevel(old_level)
        TagExpressionProtocol.use(TagExpressionProtocol.DEFAULT)

    out.append(u"RESULT failed=%r" % result)
    out.append(u"-- MODEL:")
    for feature in features:
        out.extend(describe_container(feature))
    out.append(u"-- CALL LOG:")
    out.extend(LOG)
    out.append(u"-- FORMATTER OUTPUT:")
    out.append(normalize_output(plain_stream.getvalue()))
    out.append(u"-- STDOUT:")
    out.append(normalize_output(six.text_type(stdout.getvalue())))
    text = u"\n".join(out)
    if six.PY2:
        text = text.encode("utf-8")
    print(text)


def static_checks():
    """Check the selection functions directly (no run)."""
    print("=" * 70)
    print("STATIC CHECKS: should_run / should_run_with_tags / effective_tags")
    for tags in TAG_EXPRESSIONS:
        for protocol in ("auto_detect", "v1", "v2"):
            with captured_stdout() as stdout:
                try:
                    proto = TagExpressionProtocol.from_name(protocol)
                    expression = make_tag_expression(tags or [], protocol=proto)
                except Exception as e:  # pylint: disable=broad-except
                    expression = None
                    problem = u"%s: %s" % (type(e).__name__, e)
            if expression is None:
                print(u"TAGS %r/%s: PARSE-ERROR %s" % (tags, protocol, problem))
                continue
            print(u"TAGS %r/%s -> %s" % (tags, protocol, expression))
            with captured_stdout() as stdout:
                features = parse_features()
                lines = []
                for feature in features:
                    lines.append(u"  %s swt=%r" % (
                        feature.name, feature.should_run_with_tags(expression)))
                    for item in feature.walk_scenarios(with_outlines=True,
                                                       with_rules=True):
                        lines.append(u"    %s %r swt=%r eff=%s" % (
                            type(item).__name__, item.name,
                            item.should_run_with_tags(expression),
                            u",".join(sorted(item.effective_tags))))
            for line in lines:
                print(line)
            if stdout.getvalue():
                print(u"  STDOUT: %r" % stdout.getvalue())


class FakeConfig(object):
    def __init__(self, tag_expression, name=None, name_re=None):
        self.tag_expression = tag_expression
        self.name = name
        self.name_re = name_re


class EmptyFalsyConfig(FakeConfig):
    def __bool__(self):
        return False
    __nonzero__ = __bool__


def should_run_checks():
    import re
    print("=" * 70)
    print("SHOULD-RUN CHECKS")
    for tags in (["@fast"], ["not @fast"], ["@nowhere"], ["@param.x"]):
        expression = make_tag_expression(tags)
        for name in (None, "A1|RA|AO"):
            name_re = re.compile(name) if name else None
            for config_class in (FakeConfig, EmptyFalsyConfig, None):
                config = None
                if config_class:
                    config = config_class(expression, [name] if name else None, name_re)
                with captured_stdout():
                    features = parse_features(["alpha.feature", "epsilon.feature"])
                print(u"TAGS %r name=%r config=%s" % (
                    tags, name, getattr(config_class, "__name__", None)))
                for feature in features:
                    for pre_skip in (False, True):
                        if pre_skip:
                            feature.skip()
                        print(u"  %s pre_skip=%r should_run=%r" % (
                            feature.name, pre_skip, feature.should_run(config)))
                        for item in feature.walk_scenarios(with_outlines=True,
                                                           with_rules=True):
                            answer = item.should_run(config)
                            if answer is not None and not isinstance(answer, bool):
                                answer = "TRUTHY:%s" % type(answer).__name__
                            print(u"    %s %r should_run=%r should_skip=%r" % (
                                type(item).__name__, item.name, answer,
                                item.should_skip))


def main():
    static_checks()
    should_run_checks()
    number = 0
    for tags in TAG_EXPRESSIONS:
        for show_skipped in (True, False):
            for dry_run in (False, True):
                number += 1
                extra = ["--show-skipped" if show_skipped else "--no-skipped"]
                if dry_run:
                    extra.append("--dry-run")
                run_case("R%03d" % number, tags, extra)

    # -- EXTRA: protocol variants, name selection, stop, no hooks, other formats
    run_case("X01", ["@fast", "-@ex1"], protocol="v1")
    run_case("X02", ["@fast and not @ex1"], protocol="v2")
    run_case("X03", ["@fast,@slow"], protocol="v2")
    run_case("X04", ["@fa"], ["--name=A1", "--name=RAO", "--show-skipped"])
    run_case("X05", ["not @slow"], ["--name=A", "--no-skipped"])
    run_case("X06", None, ["--stop"])
    run_case("X07", ["@s1 or @s3"], ["--stop", "--show-skipped"],
             selected=["beta.feature", "epsilon.feature"])
    run_case("X08", ["@fast"], ["--show-skipped"], with_hooks=False,
             formats=("pretty",))
    run_case("X09", ["not @fast"], ["--no-skipped"], with_tag_hooks=False,
             formats=("progress", "json"))
    run_case("X10", ["@so or @rso"], ["--show-skipped", "--dry-run"],
             formats=("pretty", "steps.usage"))
    run_case("X11", ["@wip"], ["--wip"], selected=["beta.feature"])
    run_case("X12", ["@ex1"], ["--show-skipped"],
             selected=["delta.feature"])
    EXTRA_CASES()


FEATURE_HOOKS = u"""
@fh
Feature: Hooks and cleanups
  Background:
    Given a step bg-hooks

  @h1 @hook_error_before
  Scenario: H1 before_scenario raises
    Given a step h1.1
    And an undefined thing h1.2

  @h2 @hook_error_after
  Scenario: H2 after_scenario raises
    Given a step h2.1

  @h3 @cleanup_error
  Scenario: H3 cleanup raises
    Given a step h3.1

  @h4 @tag_hook_error
  Scenario: H4 before_tag raises
    Given a step h4.1

  @h5 @continue
  Scenario: H5 continues after failed step
    Given a failing step h5.1
    When a step h5.2
    And an undefined thing h5.3
    Then a step h5.4

  @h6
  Scenario: H6 fails then has undefined
    Given a failing step h6.1
    When an undefined thing h6.2
    Then a step h6.3

  @h7 @so
  Scenario Outline: H7 <n>
    Given a step h7.<n>
    And an undefined thing h7.<n>

    @hex
    Examples:
      | n |
      | 1 |
      | 2 |

  @hr1 @rule_hook_error
  Rule: HR1 before_rule raises
    @h8
    Scenario: H8
      Given a step h8.1

  @hr2 @rule_cleanup_error
  Rule: HR2 rule cleanup raises
    Background:
      Given a step bg-hr2
    @h9
    Scenario: H9
      Given a step h9.1

  @hr3
  Rule: HR3 aborting
    @h10 @abort
    Scenario: H10 aborts the run
      Given a step h10.1
    @h11
    Scenario: H11 after abort
      Given a step h11.1
"""

FEATURE_HOOKS2 = u"""
@fh2 @feature_hook_error
Feature: Feature hook error
  @k1
  Scenario: K1
    Given a step k1.1
"""

FEATURE_HOOKS3 = u"""
@fh3 @feature_cleanup_error
Feature: Feature cleanup error
  @k2
  Scenario: K2
    Given a step k2.1
  @k3
  Scenario: K3
    Given a failing step k3.1
"""


def EXTRA_CASES():
    global make_hooks
    print("=" * 70)
    print("EXTRA t16: Scenario.run / ScenarioContainer.run with hook errors, cleanups, abort")
    basic_make_hooks = make_hooks

    def on_cleanup_error(context, cleanup_func, exception):
        log("CLEANUP-ERROR", type(exception).__name__, exception)

    def bad_cleanup(name):
        log("CLEANUP", name)
        raise RuntimeError("cleanup of %s" % name)

    def make_hooks_with_errors(with_tag_hooks=True):
        hooks = basic_make_hooks(with_tag_hooks)
        basic = dict(hooks)

        def before_all(context):
            basic["before_all"](context)
            context.on_cleanup_error = on_cleanup_error

        def before_feature(context, feature):
            basic["before_feature"](context, feature)
            if "feature_cleanup_error" in feature.tags:
                context.add_cleanup(bad_cleanup, feature.name)
            if "feature_hook_error" in feature.tags:
                raise ValueError("before_feature %s" % feature.name)

        def before_rule(context, rule):
            basic["before_rule"](context, rule)
            if "rule_cleanup_error" in rule.tags:
                context.add_cleanup(bad_cleanup, rule.name)
            if "rule_hook_error" in rule.tags:
                raise ValueError("before_rule %s" % rule.name)

        def before_scenario(context, scenario):
            basic["before_scenario"](context, scenario)
            if "continue" in scenario.tags:
                scenario.continue_after_failed_step = True
            if "cleanup_error" in scenario.tags:
                context.add_cleanup(bad_cleanup, scenario.name)
            if "abort" in scenario.tags:
                context.abort(reason="by hook")
            if "hook_error_before" in scenario.tags:
                raise ValueError("before_scenario %s" % scenario.name)

        def after_scenario(context, scenario):
            basic["after_scenario"](context, scenario)
            if "hook_error_after" in scenario.tags:
                raise ValueError("after_scenario %s" % scenario.name)

        def before_tag(context, tag):
            basic["before_tag"](context, tag)
            if tag == "tag_hook_error":
                raise ValueError("before_tag %s" % tag)

        hooks.update(before_all=before_all, before_feature=before_feature,
                     before_rule=before_rule, before_scenario=before_scenario,
                     after_scenario=after_scenario)
        if with_tag_hooks:
            hooks["before_tag"] = before_tag
        return hooks

    make_hooks = make_hooks_with_errors
    FEATURES.append(("hooks.feature", FEATURE_HOOKS))
    FEATURES.append(("hooks2.feature", FEATURE_HOOKS2))
    FEATURES.append(("hooks3.feature", FEATURE_HOOKS3))
    hook_features = ["hooks.feature", "hooks2.feature", "hooks3.feature"]
    tag_choices = [
        None, ["not @abort"], ["@h1 or @h2 or @h3 or @h4"], ["@h5 or @h6 or @h7"],
        ["@hr1 or @hr2"], ["@hr3"], ["not @fh"], ["@k2"], ["@k3", "-@abort"],
        ["@nowhere"], ["@hex and not @abort"], ["~@fh", "~@fh2"],
    ]
    extra_choices = [
        ["--show-skipped"], ["--no-skipped"], ["--show-skipped", "--dry-run"],
        ["--no-skipped", "--dry-run"], ["--no-skipped", "--stop"],
        ["--show-skipped", "--name=H"], ["--no-skipped", "--name=K2", "--name=H9", "--name=H7 2"],
    ]
    for tags in tag_choices:
        for extra in extra_choices:
            run_case("T16", tags, extra, selected=hook_features)
    run_case("T16-pretty", ["not @abort"], ["--show-skipped", "--dry-run"],
             selected=hook_features, formats=("pretty",))
    run_case("T16-nohooks", ["@h5 or @h6 or @hex"], ["--no-skipped"],
             selected=hook_features, with_hooks=False, formats=("progress3", "plain"))
    run_case("T16-notaghooks", ["not @abort"], ["--no-skipped"],
             selected=hook_features, with_tag_hooks=False)
    run_case("T16-all", ["not @abort"], ["--show-skipped"])
    make_hooks = basic_make_hooks


if __name__ == "__main__":
    main()
