# -*- coding: UTF-8 -*-
"""
Equivalence transcript for the C18 (output capture) refactorings.

Prints a canonical transcript of what the capture machinery does:

  PART A: CaptureController driven directly (all 8 switch combinations,
          nested start/stop, stop without start, falsy streams, foreign streams).
  PART B: LoggingCapture/RecordFilter driven directly (formats, levels, filters,
          clear-handlers, handler/level restoration).
  PART C: Step.run()/Context.execute_steps() driven in-process with a ModelRunner.
  PART D: ``python -m behave`` child processes (PYTHONPATH=worktree) over a
          generated project: real stdout/stderr bytes, stream identity seen by
          hooks, error messages, scenario.captured, root logger state.

Volatile data (tmp paths, durations, timestamps, line numbers of frames inside
the behave package) are normalised so that the transcript only depends on
behaviour.
"""

from __future__ import absolute_import, print_function
import sys
WORKTREE = "/tmp/wtU/C18"
sys.path.insert(0, WORKTREE)

import io
import itertools
import json
import logging
import os
import re
import shutil
import subprocess
import tempfile
import traceback

import behave
assert behave.__file__.startswith(WORKTREE), behave.__file__
from behave.capture import CaptureController, Captured, capture_output
from behave.log_capture import LoggingCapture, RecordFilter

REAL_STDOUT = sys.stdout
REAL_STDERR = sys.stderr
OUT = []


def emit(*args):
    OUT.append(u" ".join(u"%s" % (a,) for a in args))


def normalize(text, tmpdir=None):
    if tmpdir:
        text = text.replace(os.path.realpath(tmpdir), "<TMP>").replace(tmpdir, "<TMP>")
    # -- LINE NUMBERS of frames inside the behave package (edits move lines).
    # -- ALSO: In JSON-escaped form (File \"...\", line 12) and XML-escaped form.
    quote = r'(?:\\?"|&quot;)'
    text = re.sub(r'(File %s%s/behave/[^"\\&]+%s, line )\d+' % (
                  quote, re.escape(WORKTREE), quote), r"\1N", text)
    text = re.sub(r"\b\d+\.\d+s\b", "T.TTTs", text)
    text = re.sub(r"\b\d+m\d+\.\d+s\b", "MmT.TTTs", text)
    text = re.sub(r'time="[^"]*"', 'time="T"', text)
    text = re.sub(r'timestamp="[^"]*"', 'timestamp="TS"', text)
    text = re.sub(r'hostname="[^"]*"', 'hostname="H"', text)
    text = re.sub(r'"duration": [0-9.e+-]+', '"duration": T', text)
    text = re.sub(r"0x[0-9a-fA-F]+", "0xADDR", text)
    return text


# ---------------------------------------------------------------------------
# PART A: CaptureController
# ---------------------------------------------------------------------------
class Config(object):
    def __init__(self, stdout_capture=True, stderr_capture=True, log_capture=True,
                 logging_format=None, logging_datefmt=None, logging_level=None,
                 logging_filter=None, logging_clear_handlers=False):
        self.stdout_capture = stdout_capture
        self.stderr_capture = stderr_capture
        self.log_capture = log_capture
        self.logging_format = logging_format
        self.logging_datefmt = logging_datefmt
        self.logging_level = logging_level
        self.logging_filter = logging_filter
        self.logging_clear_handlers = logging_clear_handlers


class Ctx(object):
    pass


class NamedStream(io.StringIO):
    def __init__(self, name, falsy=False):
        io.StringIO.__init__(self)
        self.label = name
        self.falsy = falsy

    def __bool__(self):
        return not self.falsy
    __nonzero__ = __bool__


def stream_name(controller, stream, extra=()):
    if stream is REAL_STDOUT:
        return "REAL_STDOUT"
    if stream is REAL_STDERR:
        return "REAL_STDERR"
    if stream is None:
        return "None"
    if controller is not None:
        if stream is controller.stdout_capture:
            return "stdout_capture"
        if stream is controller.stderr_capture:
            return "stderr_capture"
    label = getattr(stream, "label", None)
    if label:
        return "stream:%s" % label
    return "other:%s" % type(stream).__name__


def controller_state(controller):
    return "sys.stdout=%s sys.stderr=%s old_stdout=%s old_stderr=%s" % (
        stream_name(controller, sys.stdout), stream_name(controller, sys.stderr),
        stream_name(controller, controller.old_stdout),
        stream_name(controller, controller.old_stderr))


def call(label, func, *args):
    try:
        result = func(*args)
        return "%s -> %r" % (label, result)
    except BaseException as e:     # pylint: disable=broad-except
        return "%s -> RAISED %s(%s)" % (label, e.__class__.__name__, e)


def root_state():
    root = logging.getLogger()
    names = []
    for handler in root.handlers:
        names.append(getattr(handler, "label", handler.__class__.__name__))
    return "root.level=%s root.handlers=%s" % (root.level, names)


def reset_logging():
    root = logging.getLogger()
    root.handlers[:] = []
    root.setLevel(logging.WARNING)
    for logger in list(logging.Logger.manager.loggerDict.values()):
        if hasattr(logger, "handlers"):
            logger.handlers[:] = []
            logger.setLevel(logging.NOTSET)
            logger.propagate = True
            logger.disabled = False


def part_a():
    emit("=" * 70)
    emit("PART A: CaptureController")
    combos = list(itertools.product([True, False], repeat=3))
    scripts = [
        ("simple", ["setup", "start", "write:1", "stop", "write:2"]),
        ("nested", ["setup", "start", "write:1", "start", "write:2", "stop",
                    "write:3", "stop", "write:4"]),
        ("stop-first", ["setup", "stop", "write:1", "start", "write:2", "stop"]),
        ("two-scenarios", ["setup", "start", "write:1", "stop", "teardown",
                           "setup", "start", "write:2", "stop", "teardown"]),
        ("no-setup", ["start", "write:1", "stop"]),
        ("stop-stop", ["setup", "start", "stop", "stop", "write:1"]),
        ("ctxmgr", ["setup", "with:1", "with-raise:2", "with-disabled:3"]),
    ]
    for combo in combos:
        for script_name, script in scripts:
            reset_logging()
            sys.stdout, sys.stderr = REAL_STDOUT, REAL_STDERR
            config = Config(*combo)
            controller = CaptureController(config)
            context = Ctx()
            emit("-- combo(stdout,stderr,log)=%s script=%s" % (combo, script_name))
            real_out = NamedStream("fake-real-out")
            real_err = NamedStream("fake-real-err")
            sys.stdout, sys.stderr = real_out, real_err
            try:
                for op in script:
                    if op == "setup":
                        line = call(op, controller.setup_capture, context)
                        line += " ctx=%s" % sorted(
                            (k, stream_name(controller, v) if k != "log_capture"
                             else type(v).__name__)
                            for k, v in vars(context).items())
                    elif op == "start":
                        line = call(op, controller.start_capture)
                    elif op == "stop":
                        line = call(op, controller.stop_capture)
                    elif op == "teardown":
                        line = call(op, controller.teardown_capture)
                    elif op.startswith("write:"):
                        marker = op.split(":")[1]
                        line = op
                        for stream, text in ((sys.stdout, u"OUT-%s\n" % marker),
                                             (sys.stderr, u"ERR-%s\n" % marker)):
                            try:
                                stream.write(text)
                            except Exception as e:  # pylint: disable=broad-except
                                line += " RAISED %s" % e.__class__.__name__
                        logging.getLogger("a.b").warning("LOG-%s", marker)
                        logging.getLogger().error("ROOTLOG-%s", marker)
                    elif op.startswith("with"):
                        kind, marker = op.split(":")
                        enabled = kind != "with-disabled"
                        try:
                            with capture_output(controller, enabled=enabled):
                                sys.stdout.write(u"OUT-%s\n" % marker)
                                sys.stderr.write(u"ERR-%s\n" % marker)
                                if kind == "with-raise":
                                    raise KeyboardInterrupt("stop-%s" % marker)
                            line = op + " -> ok"
                        except BaseException as e:  # pylint: disable=broad-except
                            line = op + " -> RAISED %s(%s)" % (e.__class__.__name__, e)
                    state = controller_state(controller).replace(
                        "stream:fake-real-out", "REAL*OUT").replace(
                        "stream:fake-real-err", "REAL*ERR")
                    emit("   %-40s | %s | %s" % (line, state, root_state()))
                captured = controller.captured
                emit("   captured.stdout=%r" % captured.stdout)
                emit("   captured.stderr=%r" % captured.stderr)
                emit("   captured.log_output=%r" % captured.log_output)
                emit("   captured.bool=%r output=%r" % (bool(captured), captured.output))
                emit("   report=%r" % controller.make_capture_report())
                emit("   real_out=%r real_err=%r" % (real_out.getvalue(),
                                                     real_err.getvalue()))
            finally:
                sys.stdout, sys.stderr = REAL_STDOUT, REAL_STDERR
                if controller.log_capture:
                    controller.log_capture.abandon()

    # -- BOUNDARY: falsy original stream, foreign stream installed while capturing.
    emit("-- boundary: falsy real streams")
    for combo in combos:
        reset_logging()
        config = Config(*combo)
        controller = CaptureController(config)
        controller.setup_capture(Ctx())
        falsy_out = NamedStream("falsy-out", falsy=True)
        falsy_err = NamedStream("falsy-err", falsy=True)
        sys.stdout, sys.stderr = falsy_out, falsy_err
        try:
            lines = []
            for op in ("start", "start", "stop", "stop"):
                func = getattr(controller, op + "_capture")
                lines.append(call(op, func) + " | " + controller_state(controller))
        finally:
            sys.stdout, sys.stderr = REAL_STDOUT, REAL_STDERR
            controller.teardown_capture()
        emit("   combo=%s" % (combo,))
        for line in lines:
            emit("     " + line)

    emit("-- boundary: foreign stream installed between start and start/stop")
    for combo in combos:
        for second_op in ("start", "stop"):
            for which in ("stdout", "stderr"):
                reset_logging()
                config = Config(*combo)
                controller = CaptureController(config)
                controller.setup_capture(Ctx())
                sys.stdout = NamedStream("orig-out")
                sys.stderr = NamedStream("orig-err")
                try:
                    lines = [call("start", controller.start_capture)]
                    setattr(sys, which, NamedStream("foreign-" + which))
                    lines.append(call(second_op, getattr(controller, second_op + "_capture"))
                                 + " | " + controller_state(controller))
                    lines.append(call("stop", controller.stop_capture)
                                 + " | " + controller_state(controller))
                finally:
                    sys.stdout, sys.stderr = REAL_STDOUT, REAL_STDERR
                    controller.teardown_capture()
                emit("   combo=%s foreign=%s second=%s" % (combo, which, second_op))
                for line in lines:
                    emit("     " + line)

    emit("-- boundary: capture stream installed by hand, then stop")
    for combo in combos:
        reset_logging()
        controller = CaptureController(Config(*combo))
        controller.setup_capture(Ctx())
        try:
            if controller.stdout_capture is not None:
                sys.stdout = controller.stdout_capture
            if controller.stderr_capture is not None:
                sys.stderr = controller.stderr_capture
            line = call("stop", controller.stop_capture)
            line += " | " + controller_state(controller)
        finally:
            sys.stdout, sys.stderr = REAL_STDOUT, REAL_STDERR
            controller.teardown_capture()
        emit("   combo=%s %s" % (combo, line))


# ---------------------------------------------------------------------------
# PART B: LoggingCapture / RecordFilter
# ---------------------------------------------------------------------------
class LabelHandler(logging.Handler):
    def __init__(self, label, sink):
        logging.Handler.__init__(self)
        self.label = label
        self.sink = sink

    def emit(self, record):
        self.sink.append("%s<%s:%s:%s>" % (self.label, record.levelname,
                                           record.name, record.getMessage()))


def log_everything(tag):
    for name in ("", "foo", "foo.sub", "bar", "foobar"):
        logger = logging.getLogger(name) if name else logging.getLogger()
        logger.debug("%s-debug-%s", tag, name or "root")
        logger.info("%s-info-%s", tag, name or "root")
        logger.warning("%s-warning-%s", tag, name or "root")
        logger.error("%s-error-%s", tag, name or "root")


def handlers_state(names=("foo", "bar", "foo.sub")):
    parts = [root_state()]
    for name in names:
        logger = logging.getLogger(name)
        parts.append("%s.handlers=%s" % (
            name, [getattr(h, "label", h.__class__.__name__) for h in logger.handlers]))
    return " ".join(parts)


def part_b():
    emit("=" * 70)
    emit("PART B: LoggingCapture")
    configs = [
        ("default", {}),
        ("format", {"logging_format": "%(name)s|%(levelname)s|%(message)s"}),
        ("format+datefmt", {"logging_format": "%(asctime)s %(message)s",
                            "logging_datefmt": "DATE"}),
        ("datefmt-only", {"logging_datefmt": "DATE"}),
        ("empty-format", {"logging_format": "", "logging_datefmt": ""}),
        ("level-info", {"logging_level": logging.INFO}),
        ("level-error", {"logging_level": logging.ERROR}),
        ("level-zero", {"logging_level": 0}),
        ("level-debug", {"logging_level": logging.DEBUG}),
        ("filter-foo", {"logging_filter": "foo"}),
        ("filter-foo,bar", {"logging_filter": "foo,bar"}),
        ("filter--foo", {"logging_filter": "-foo"}),
        ("filter-mixed", {"logging_filter": "bar,-foo.sub"}),
        ("clear", {"logging_clear_handlers": True}),
        ("clear+level+filter", {"logging_clear_handlers": True,
                                "logging_level": logging.WARNING,
                                "logging_filter": "-root"}),
    ]
    for explicit_level in (None, logging.ERROR, 0):
        for name, kwargs in configs:
            for root_level in (logging.WARNING, logging.DEBUG):
                reset_logging()
                sink = []
                root = logging.getLogger()
                root.setLevel(root_level)
                root.addHandler(LabelHandler("R1", sink))
                root.addHandler(LabelHandler("R2", sink))
                foo_handler = LabelHandler("F1", sink)
                logging.getLogger("foo").addHandler(foo_handler)
                logging.getLogger("foo").addHandler(LabelHandler("F2", sink))
                logging.getLogger("foo.sub").addHandler(foo_handler)
                logging.getLogger("bar.deep.er")   # creates PlaceHolder: bar.deep
                config = Config(**kwargs)
                emit("-- config=%s explicit_level=%s root_level=%s" % (
                    name, explicit_level, root_level))
                emit("   before : " + handlers_state())
                try:
                    capture1 = LoggingCapture(config, level=explicit_level)
                except Exception as e:  # pylint: disable=broad-except
                    emit("   ctor RAISED %s: %s" % (e.__class__.__name__, e))
                    continue
                emit("   ctor   : level=%r fmt=%r datefmt=%r filters=%s bool=%r "
                     "old_level=%r old_handlers=%r" % (
                         capture1.level, capture1.formatter._fmt,
                         capture1.formatter.datefmt,
                         [(sorted(f.include), sorted(f.exclude))
                          for f in capture1.filters],
                         bool(capture1), capture1.old_level, capture1.old_handlers))
                capture1.inveigle()
                emit("   inveigle: " + handlers_state().replace("LoggingCapture", "LC")
                     + " old_level=%r old_handlers=%s" % (
                         capture1.old_level,
                         [(lg.name, h.label) for lg, h in capture1.old_handlers]))
                log_everything("one")
                # -- SECOND capture replaces the first one (sanity-check branch).
                capture2 = LoggingCapture(config, level=explicit_level)
                capture2.inveigle()
                emit("   inveigle2: " + handlers_state().replace("LoggingCapture", "LC")
                     + " is2=%r old_level=%r old_handlers=%s" % (
                         logging.getLogger().handlers[-1] is capture2,
                         capture2.old_level,
                         [(lg.name, h.label) for lg, h in capture2.old_handlers]))
                log_everything("two")
                value1 = capture1.getvalue()
                value2 = capture2.getvalue()
                if "asctime" in (config.logging_format or ""):
                    value1 = value1.replace("DATE", "D")
                emit("   value1=%r" % value1)
                emit("   value2=%r" % value2)
                emit("   bool=%r/%r any_errors=%r/%r find(one-err)=%r/%r" % (
                    bool(capture1), bool(capture2), capture1.any_errors(),
                    capture2.any_errors(), capture1.find_event("one-err"),
                    capture2.find_event("one-err")))
                capture2.abandon()
                emit("   abandon2: " + handlers_state().replace("LoggingCapture", "LC")
                     + " old_level=%r" % capture2.old_level)
                capture2.abandon()
                emit("   abandon2b: " + handlers_state().replace("LoggingCapture", "LC"))
                capture1.abandon()
                emit("   abandon1: " + handlers_state().replace("LoggingCapture", "LC")
                     + " old_level=%r" % capture1.old_level)
                log_everything("three")
                emit("   sink=%r" % sink)

    emit("-- RecordFilter")
    for names in ("foo", "foo,bar", "-foo", "-foo,-bar", "foo,-bar", "-", "a,,b", "",
                  " foo", "-foo,foo"):
        try:
            record_filter = RecordFilter(names)
        except Exception as e:  # pylint: disable=broad-except
            emit("   %r RAISED %s: %s" % (names, e.__class__.__name__, e))
            continue
        results = []
        for logger_name in ("foo", "bar", "foo.sub", "", " foo", "root"):
            record = logging.LogRecord(logger_name, logging.INFO, "x.py", 1, "m", (), None)
            results.append((logger_name, record_filter.filter(record)))
        emit("   %r include=%s exclude=%s -> %s" % (
            names, sorted(record_filter.include), sorted(record_filter.exclude), results))
    reset_logging()


# ---------------------------------------------------------------------------
# PART C: Step.run() / Context.execute_steps() in-process
# ---------------------------------------------------------------------------
def part_c():
    emit("=" * 70)
    emit("PART C: Step.run in-process")
    from behave.configuration import Configuration
    from behave.runner import ModelRunner, Context
    from behave.parser import parse_feature
    from behave.step_registry import StepRegistry
    from behave.model_core import Status
    from behave.api.pending_step import StepNotImplementedError

    class Formatter(object):
        def __init__(self, log):
            self.log = log

        def match(self, match):
            self.log.append("fmt.match sys.stdout=%s" % stream_name(None, sys.stdout))

        def result(self, step):
            self.log.append("fmt.result %s sys.stdout=%s sys.stderr=%s" % (
                step.status.name, stream_name(None, sys.stdout),
                stream_name(None, sys.stderr)))

    feature_text = u'''
Feature: F
  Scenario: S
    Given a step that {0}
'''
    behaviours = ["passes", "fails", "fails without text", "errors", "is pending",
                  "is pending without text", "is interrupted", "exits",
                  "is undefined", "nests passing", "nests failing",
                  "nests failing caught", "nests undefined", "nests erroring",
                  "skips the scenario", "replaces stdout"]
    hook_modes = ["none", "print", "before-error", "after-error", "before-interrupt",
                  "after-interrupt", "both-error"]
    combos = list(itertools.product([True, False], repeat=3))

    def make_registry(log):
        registry = StepRegistry()

        def add(pattern, func):
            registry.add_step_definition("given", pattern, func)

        def output(context, tag):
            print("OUT-%s" % tag)
            sys.stderr.write("ERR-%s\n" % tag)
            logging.getLogger("steps").warning("LOG-%s", tag)
            log.append("step %s sys.stdout=%s sys.stderr=%s" % (
                tag, stream_name(None, sys.stdout), stream_name(None, sys.stderr)))

        def passes(context):
            output(context, "passes")

        def fails(context):
            output(context, "fails")
            assert False, "FAIL-TEXT"

        def fails_without_text(context):
            output(context, "fails0")
            raise AssertionError()

        def errors(context):
            output(context, "errors")
            raise RuntimeError("ERR-TEXT")

        def pending(context):
            output(context, "pending")
            raise StepNotImplementedError("PENDING-TEXT")

        def pending0(context):
            output(context, "pending0")
            raise StepNotImplementedError()

        def interrupted(context):
            output(context, "interrupted")
            raise KeyboardInterrupt()

        def exits(context):
            output(context, "exits")
            raise SystemExit(3)

        def nests_passing(context):
            output(context, "nest-outer")
            result = context.execute_steps(u"Given a step that passes\nGiven a step that passes")
            log.append("execute_steps -> %r" % result)
            output(context, "nest-outer-after")

        def nests_failing(context):
            output(context, "nest-outer")
            context.execute_steps(u"Given a step that passes\nGiven a step that fails\n"
                                  u"Given a step that passes")

        def nests_failing_caught(context):
            output(context, "nest-outer")
            try:
                context.execute_steps(u"Given a step that fails without text")
            except AssertionError as e:
                log.append("caught: %s" % normalize(u"%s" % e))
            output(context, "nest-outer-after")

        def nests_undefined(context):
            context.execute_steps(u"Given a step that passes\nGiven a step that is undefined")

        def nests_erroring(context):
            context.text = u"OUTER-TEXT"
            try:
                context.execute_steps(u'Given a step that errors\n  """\n  INNER\n  """')
            finally:
                log.append("text after nested: %r" % context.text)

        def skips(context):
            output(context, "skips")
            context.scenario.skip("SKIP-REASON")

        def replaces_stdout(context):
            output(context, "replace")
            sys.stdout = NamedStream("step-made")

        add("a step that passes", passes)
        add("a step that fails", fails)
        add("a step that fails without text", fails_without_text)
        add("a step that errors", errors)
        add("a step that is pending", pending)
        add("a step that is pending without text", pending0)
        add("a step that is interrupted", interrupted)
        add("a step that exits", exits)
        add("a step that nests passing", nests_passing)
        add("a step that nests failing", nests_failing)
        add("a step that nests failing caught", nests_failing_caught)
        add("a step that nests undefined", nests_undefined)
        add("a step that nests erroring", nests_erroring)
        add("a step that skips the scenario", skips)
        add("a step that replaces stdout", replaces_stdout)
        return registry

    def make_hooks(mode, log):
        def before_step(context, step):
            log.append("before_step sys.stdout=%s sys.stderr=%s" % (
                stream_name(None, sys.stdout), stream_name(None, sys.stderr)))
            if mode != "none":
                print("HOOK-OUT-before")
                sys.stderr.write("HOOK-ERR-before\n")
                logging.getLogger("hooks").error("HOOK-LOG-before")
            if mode in ("before-error", "both-error"):
                raise ValueError("BEFORE-HOOK-BOOM")
            if mode == "before-interrupt":
                raise KeyboardInterrupt("BEFORE-HOOK-INT")

        def after_step(context, step):
            log.append("after_step status=%s sys.stdout=%s" % (
                step.status.name, stream_name(None, sys.stdout)))
            if mode != "none":
                print("HOOK-OUT-after")
                logging.getLogger("hooks").error("HOOK-LOG-after")
            if mode in ("after-error", "both-error"):
                raise ValueError("AFTER-HOOK-BOOM")
            if mode == "after-interrupt":
                raise KeyboardInterrupt("AFTER-HOOK-INT")
        return {"before_step": before_step, "after_step": after_step}

    def run_case(combo, behaviour, hook_mode, wip=False, dry_run=False, quiet=False):
        reset_logging()
        log = []
        args = ["--no-color"]
        args.append("--capture" if combo[0] else "--no-capture")
        args.append("--capture-stderr" if combo[1] else "--no-capture-stderr")
        args.append("--logcapture" if combo[2] else "--no-logcapture")
        if dry_run:
            args.append("--dry-run")
        config = Configuration(args, load_config=False)
        config.reporters = []
        runner = ModelRunner(config)
        runner.step_registry = make_registry(log)
        runner.formatters = [Formatter(log)]
        runner.hooks = make_hooks(hook_mode, log)
        runner.context = Context(runner)
        text = feature_text.format(behaviour)
        if wip:
            text = text.replace("  Scenario: S", "  @wip\n  Scenario: S")
        feature = parse_feature(text, filename="mem.feature")
        scenario = feature.scenarios[0]
        step = scenario.steps[0]
        out = NamedStream("test-out")
        err = NamedStream("test-err")
        sys.stdout, sys.stderr = out, err
        label = "combo=%s step=%r hooks=%s wip=%s dry=%s quiet=%s" % (
            combo, behaviour, hook_mode, wip, dry_run, quiet)
        emit("-- " + label)
        try:
            # -- SAME AS: Feature.run()/Scenario.run() preparations.
            runner.feature = feature
            runner.context._push(layer="feature")
            runner.context.feature = feature
            runner.context._push(layer="scenario")
            runner.context.scenario = scenario
            runner.context.tags = set(scenario.effective_tags)
            runner.setup_capture()
            outcome = None
            try:
                outcome = "returned %r" % step.run(runner, quiet=quiet)
            except BaseException as e:  # pylint: disable=broad-except
                outcome = "RAISED %s(%s)" % (e.__class__.__name__, e)
            after = "sys.stdout=%s sys.stderr=%s old=%s/%s" % (
                stream_name(None, sys.stdout), stream_name(None, sys.stderr),
                stream_name(None, runner.capture_controller.old_stdout),
                stream_name(None, runner.capture_controller.old_stderr))
            # -- A SECOND STEP in the same scenario (buffers accumulate).
            sys.stdout, sys.stderr = out, err
            runner.capture_controller.old_stdout = None
            runner.capture_controller.old_stderr = None
            runner.hooks = make_hooks("none", log)
            step2 = parse_feature(feature_text.format("fails"),
                                  filename="mem2.feature").scenarios[0].steps[0]
            try:
                outcome2 = "returned %r" % step2.run(runner, quiet=quiet)
            except BaseException as e:  # pylint: disable=broad-except
                outcome2 = "RAISED %s(%s)" % (e.__class__.__name__, e)
            captured = runner.captured
            runner.teardown_capture()
        finally:
            sys.stdout, sys.stderr = REAL_STDOUT, REAL_STDERR
        emit("   outcome : %s | %s" % (outcome, after))
        emit("   step    : status=%s hook_failed=%r aborted=%r undefined=%d" % (
            step.status.name, step.hook_failed, runner.aborted,
            len(runner.undefined_steps)))
        emit("   error_message=%r" % normalize(step.error_message or u""))
        emit("   exception=%s" % (step.exception.__class__.__name__
                                  if step.exception else None))
        emit("   step.captured=%r/%r/%r" % (step.captured.stdout, step.captured.stderr,
                                            normalize(step.captured.log_output)))
        emit("   outcome2: %s status=%s" % (outcome2, step2.status.name))
        emit("   error_message2=%r" % normalize(step2.error_message or u""))
        emit("   runner.captured=%r/%r/%r" % (captured.stdout, captured.stderr,
                                              normalize(captured.log_output)))
        emit("   real_out=%r" % normalize(out.getvalue()))
        emit("   real_err=%r" % normalize(err.getvalue()))
        emit("   root    : %s" % root_state())
        for line in log:
            emit("   log: " + line)

    # -- FULL MATRIX over behaviours with all-on / all-off, all combos for some.
    for behaviour in behaviours:
        for hook_mode in hook_modes:
            for combo in ((True, True, True), (False, False, False)):
                run_case(combo, behaviour, hook_mode)
    for combo in combos:
        for behaviour in ("passes", "fails", "errors", "is interrupted",
                          "nests failing", "replaces stdout"):
            for hook_mode in ("print", "after-error", "before-interrupt"):
                run_case(combo, behaviour, hook_mode)
    for behaviour in ("is pending", "is pending without text", "is undefined", "fails",
                      "passes"):
        run_case((True, True, True), behaviour, "print", wip=True)
        run_case((True, True, True), behaviour, "print", dry_run=True)
        run_case((True, False, True), behaviour, "print", quiet=True)
    reset_logging()


# ---------------------------------------------------------------------------
# PART D: python -m behave (child processes)
# ---------------------------------------------------------------------------
FEATURE_MAIN = u'''
Feature: Capture markers

  Background:
    Given I emit "BG"

  Scenario: S1 passing
    Given I emit "S1-A"
    When I emit "S1-B"
    Then I emit "S1-C"

  Scenario: S2 failing at the third step
    Given I emit "S2-A"
    When I emit "S2-B"
    Then I emit "S2-C" and fail
    And I emit "S2-NEVER"

  Scenario: S3 erroring
    Given I emit "S3-A"
    When I emit "S3-B" and raise RuntimeError

  Scenario: S4 nested steps passing then failing
    Given I emit "S4-A"
    When I run nested steps "S4-N1,S4-N2"
    Then I run nested steps "S4-N3,S4-N4" where the last one fails
    And I emit "S4-NEVER"

  Scenario: S5 nested failure is caught by the step
    Given I emit "S5-A"
    When I run nested steps "S5-N1" where the last one fails and catch it
    Then I emit "S5-B" and fail

  @before_step_error
  Scenario: S6 before_step hook error
    Given I emit "S6-A"
    When I emit "S6-B"

  @after_step_error
  Scenario: S7 after_step hook error
    Given I emit "S7-A"
    When I emit "S7-B"

  Scenario: S8 undefined step
    Given I emit "S8-A"
    When an undefined step "S8"
    Then I emit "S8-NEVER"

  Scenario: S9 bare assert and pending
    Given I emit "S9-A" and fail without text

  Scenario: S10 pending step
    Given I emit "S10-A" and it is pending

  @after_scenario_error
  Scenario: S11 passing but after_scenario hook fails
    Given I emit "S11-A"

  Scenario Outline: S12 outline <name>
    Given I emit "<name>-A"
    Then I emit "<name>-B" and <what>

    Examples:
      | name  | what |
      | S12-1 | fail |
      | S12-2 | pass |
      | S12-3 | fail |

  Scenario: S13 unicode and empty output
    Given I emit "S13-äöü-✓"
    When I emit nothing
    Then I emit "S13-B" and fail

  Scenario: S14 last passing
    Given I emit "S14-A"
'''

FEATURE_INTERRUPT = u'''
Feature: Interrupts

  Scenario: I1 passing
    Given I emit "I1-A"

  Scenario: I2 KeyboardInterrupt in step
    Given I emit "I2-A"
    When I emit "I2-B" and raise KeyboardInterrupt
    Then I emit "I2-NEVER"

  Scenario: I3 not run any more
    Given I emit "I3-NEVER"
'''

FEATURE_HOOK_INTERRUPT = u'''
Feature: Hook interrupts

  Scenario: H1 passing
    Given I emit "H1-A"

  @{tag}
  Scenario: H2 KeyboardInterrupt in hook
    Given I emit "H2-A"
    When I emit "H2-B"

  Scenario: H3 not run any more
    Given I emit "H3-NEVER"
'''

STEPS = u'''
# -*- coding: UTF-8 -*-
from __future__ import print_function, unicode_literals
import logging
import sys
from behave import given, when, then, step
from behave.api.pending_step import StepNotImplementedError

def emit(marker):
    sys.stdout.write("OUT:%s\\n" % marker)
    sys.stderr.write("ERR:%s\\n" % marker)
    logging.getLogger("foo").warning("LOGFOO:%s", marker)
    logging.getLogger("bar.sub").info("LOGBAR:%s", marker)
    logging.getLogger().error("LOGROOT:%s", marker)
    logging.getLogger("foo").debug("LOGDEBUG:%s", marker)

@step('I emit "{marker}"')
def step_emit(context, marker):
    emit(marker)

@step('I emit nothing')
def step_emit_nothing(context):
    pass

@step('I emit "{marker}" and fail')
def step_emit_fail(context, marker):
    emit(marker)
    assert False, "FAILED:%s" % marker

@step('I emit "{marker}" and pass')
def step_emit_pass(context, marker):
    emit(marker)

@step('I emit "{marker}" and fail without text')
def step_emit_fail0(context, marker):
    emit(marker)
    assert marker is None

@step('I emit "{marker}" and it is pending')
def step_emit_pending(context, marker):
    emit(marker)
    raise StepNotImplementedError("PENDING:%s" % marker)

@step('I emit "{marker}" and raise RuntimeError')
def step_emit_error(context, marker):
    emit(marker)
    raise RuntimeError("BOOM:%s" % marker)

@step('I emit "{marker}" and raise KeyboardInterrupt')
def step_emit_interrupt(context, marker):
    emit(marker)
    raise KeyboardInterrupt()

def nested_text(markers, fail_last):
    markers = markers.split(",")
    lines = ['Given I emit "%s"' % marker for marker in markers[:-1]]
    if fail_last:
        lines.append('Given I emit "%s" and fail' % markers[-1])
    else:
        lines.append('Given I emit "%s"' % markers[-1])
    return "\\n".join(lines)

@step('I run nested steps "{markers}"')
def step_nested(context, markers):
    emit("outer-before")
    context.execute_steps(nested_text(markers, False))
    emit("outer-after")

@step('I run nested steps "{markers}" where the last one fails')
def step_nested_fail(context, markers):
    emit("outer-before")
    context.execute_steps(nested_text(markers, True))
    emit("outer-NEVER")

@step('I run nested steps "{markers}" where the last one fails and catch it')
def step_nested_fail_caught(context, markers):
    try:
        context.execute_steps(nested_text(markers, True))
    except AssertionError as e:
        context.record("nested-caught", "%s" % e)
    emit("outer-after-catch")
'''

ENVIRONMENT = u'''
# -*- coding: UTF-8 -*-
from __future__ import print_function, unicode_literals
import io
import json
import logging
import os
import sys

RECORD_FILE = os.environ["EQUIV_RECORD_FILE"]
REAL_STDOUT = sys.stdout
REAL_STDERR = sys.stderr
HOOK_OUTPUT = os.environ.get("EQUIV_HOOK_OUTPUT", "yes") == "yes"
PRESET_HANDLERS = os.environ.get("EQUIV_PRESET_HANDLERS", "no") == "yes"

def record(kind, data):
    with io.open(RECORD_FILE, "a", encoding="UTF-8") as f:
        f.write("%s: %s\\n" % (kind, data))

def streams():
    return "stdout_is_real=%s stderr_is_real=%s stdout_type=%s" % (
        sys.stdout is REAL_STDOUT, sys.stderr is REAL_STDERR, type(sys.stdout).__name__)

def logging_state():
    root = logging.getLogger()
    return "root.level=%s root.handlers=%s foo.handlers=%s" % (
        root.level,
        [getattr(h, "label", h.__class__.__name__) for h in root.handlers],
        [getattr(h, "label", h.__class__.__name__)
         for h in logging.getLogger("foo").handlers])

class FileHandler(logging.Handler):
    def __init__(self, label):
        logging.Handler.__init__(self)
        self.label = label
    def emit(self, record_):
        record("handler " + self.label, "%s:%s:%s" % (
            record_.levelname, record_.name, record_.getMessage()))

def before_all(context):
    context.record = record
    if PRESET_HANDLERS:
        root = logging.getLogger()
        root.addHandler(FileHandler("ROOT-H"))
        root.setLevel(logging.INFO)
        logging.getLogger("foo").addHandler(FileHandler("FOO-H"))
    record("before_all", streams() + " " + logging_state())

def before_feature(context, feature):
    record("before_feature", streams() + " " + logging_state())

def before_scenario(context, scenario):
    record("before_scenario %s" % scenario.name, streams() + " " + logging_state())

def before_step(context, step):
    record("before_step %s" % step.name, streams())
    if HOOK_OUTPUT:
        print("OUT:before_step:%s" % step.name[:12])
        logging.getLogger("hooks").warning("LOG:before_step:%s", step.name[:12])
    tags = context.tags
    if "before_step_error" in tags and "S6-B" in step.name:
        raise ValueError("BEFORE_STEP-BOOM")
    if "before_step_interrupt" in tags and "H2-B" in step.name:
        raise KeyboardInterrupt("BEFORE_STEP-INT")

def after_step(context, step):
    record("after_step %s" % step.name, streams() + " status=%s" % step.status.name)
    if HOOK_OUTPUT:
        sys.stderr.write("ERR:after_step:%s\\n" % step.name[:12])
    tags = context.tags
    if "after_step_error" in tags and "S7-A" in step.name:
        raise ValueError("AFTER_STEP-BOOM")
    if "after_step_interrupt" in tags and "H2-A" in step.name:
        raise KeyboardInterrupt("AFTER_STEP-INT")

def after_scenario(context, scenario):
    record("after_scenario %s" % scenario.name,
           streams() + " status=%s " % scenario.status.name + logging_state())
    for step in scenario.all_steps:
        record("  step %s" % step.name, json.dumps({
            "status": step.status.name,
            "error_message": step.error_message,
            "captured": [step.captured.stdout, step.captured.stderr,
                         step.captured.log_output],
        }, sort_keys=True))
    record("  scenario.captured(before teardown)", json.dumps(
        [scenario.captured.stdout, scenario.captured.stderr,
         scenario.captured.log_output]))
    if "after_scenario_error" in scenario.tags:
        print("OUT:after_scenario-hook")
        raise ValueError("AFTER_SCENARIO-BOOM")

def after_feature(context, feature):
    record("after_feature", streams() + " " + logging_state())
    for scenario in feature.walk_scenarios():
        record("  final %s" % scenario.name, json.dumps({
            "status": scenario.status.name,
            "captured": [scenario.captured.stdout, scenario.captured.stderr,
                         scenario.captured.log_output],
        }, sort_keys=True))

def after_all(context):
    record("after_all", streams() + " " + logging_state())
'''


def write_file(path, text):
    dirname = os.path.dirname(path)
    if not os.path.isdir(dirname):
        os.makedirs(dirname)
    with io.open(path, "w", encoding="UTF-8") as f:
        f.write(text)


def run_behave(tmpdir, name, args, feature="main.feature", env_extra=None):
    record_file = os.path.join(tmpdir, "record.txt")
    if os.path.exists(record_file):
        os.remove(record_file)
    reports_dir = os.path.join(tmpdir, "reports")
    shutil.rmtree(reports_dir, ignore_errors=True)
    env = dict(os.environ)
    env["PYTHONPATH"] = WORKTREE
    env["PYTHONIOENCODING"] = "UTF-8"
    env["PYTHONDONTWRITEBYTECODE"] = "1"
    env["EQUIV_RECORD_FILE"] = record_file
    env.pop("PYTHONHASHSEED", None)
    env["PYTHONHASHSEED"] = "0"
    env.update(env_extra or {})
    command = [sys.executable, "-m", "behave", "--no-color", "--no-timings",
               "features/" + feature] + args
    process = subprocess.Popen(command, cwd=tmpdir, env=env,
                               stdout=subprocess.PIPE, stderr=subprocess.PIPE)
    stdout, stderr = process.communicate()
    emit("#" * 70)
    emit("## RUN %s: behave %s %s env=%s" % (name, feature, " ".join(args),
                                             sorted((env_extra or {}).items())))
    emit("## returncode=%s" % process.returncode)
    emit("## --- child stdout")
    emit(normalize(stdout.decode("UTF-8"), tmpdir))
    emit("## --- child stderr")
    emit(normalize(stderr.decode("UTF-8"), tmpdir))
    emit("## --- records")
    if os.path.exists(record_file):
        with io.open(record_file, encoding="UTF-8") as f:
            emit(normalize(f.read(), tmpdir))
    if os.path.isdir(reports_dir):
        for filename in sorted(os.listdir(reports_dir)):
            emit("## --- report %s" % filename)
            with io.open(os.path.join(reports_dir, filename), encoding="UTF-8") as f:
                emit(normalize(f.read(), tmpdir))


def part_d():
    emit("=" * 70)
    emit("PART D: python -m behave")
    tmpdir = tempfile.mkdtemp(prefix="c18equiv")
    try:
        write_file(os.path.join(tmpdir, "features", "main.feature"), FEATURE_MAIN)
        write_file(os.path.join(tmpdir, "features", "interrupt.feature"), FEATURE_INTERRUPT)
        write_file(os.path.join(tmpdir, "features", "hookint1.feature"),
                   FEATURE_HOOK_INTERRUPT.format(tag="before_step_interrupt"))
        write_file(os.path.join(tmpdir, "features", "hookint2.feature"),
                   FEATURE_HOOK_INTERRUPT.format(tag="after_step_interrupt"))
        write_file(os.path.join(tmpdir, "features", "steps", "steps.py"), STEPS)
        write_file(os.path.join(tmpdir, "features", "environment.py"), ENVIRONMENT)
        write_file(os.path.join(tmpdir, "behave.ini"), u"[behave]\n")

        switches = [("--capture", "--no-capture"),
                    ("--capture-stderr", "--no-capture-stderr"),
                    ("--logcapture", "--no-logcapture")]
        for index, combo in enumerate(itertools.product([0, 1], repeat=3)):
            args = [switches[i][combo[i]] for i in range(3)]
            run_behave(tmpdir, "combo%d" % index, ["-f", "plain"] + args)
            run_behave(tmpdir, "combo%d-interrupt" % index, ["-f", "plain"] + args,
                       feature="interrupt.feature")
        for index, combo in enumerate([(0, 0, 0), (1, 1, 1), (0, 1, 0)]):
            args = [switches[i][combo[i]] for i in range(3)]
            run_behave(tmpdir, "hookint1-%d" % index, ["-f", "plain"] + args,
                       feature="hookint1.feature")
            run_behave(tmpdir, "hookint2-%d" % index, ["-f", "plain"] + args,
                       feature="hookint2.feature")
        preset = {"EQUIV_PRESET_HANDLERS": "yes"}
        run_behave(tmpdir, "pretty", ["-f", "pretty"])
        run_behave(tmpdir, "progress", ["-f", "progress3"])
        run_behave(tmpdir, "json", ["-f", "json.pretty"])
        run_behave(tmpdir, "quiet-hooks", ["-f", "plain"], env_extra={"EQUIV_HOOK_OUTPUT": "no"})
        run_behave(tmpdir, "preset-handlers", ["-f", "plain"], env_extra=preset)
        run_behave(tmpdir, "preset-clear", ["-f", "plain", "--logging-clear-handlers"],
                   env_extra=preset)
        run_behave(tmpdir, "preset-nologcapture", ["-f", "plain", "--no-logcapture"],
                   env_extra=preset)
        run_behave(tmpdir, "preset-clear-interrupt",
                   ["-f", "plain", "--logging-clear-handlers"],
                   feature="interrupt.feature", env_extra=preset)
        run_behave(tmpdir, "level-debug", ["-f", "plain", "--logging-level=DEBUG"])
        run_behave(tmpdir, "level-error", ["-f", "plain", "--logging-level=ERROR"],
                   env_extra=preset)
        run_behave(tmpdir, "filter-foo", ["-f", "plain", "--logging-filter=foo"])
        run_behave(tmpdir, "filter-not", ["-f", "plain", "--logging-filter=-foo,-hooks"])
        run_behave(tmpdir, "format", ["-f", "plain",
                                      "--logging-format=%(name)s/%(levelname)s/%(message)s"])
        run_behave(tmpdir, "datefmt", ["-f", "plain", "--logging-datefmt=DATEFMT",
                                       "--logging-format=%(asctime)s %(message)s"])
        run_behave(tmpdir, "junit", ["-f", "plain", "--junit",
                                     "--junit-directory=reports"])
        run_behave(tmpdir, "junit-nocapture",
                   ["-f", "plain", "--junit", "--junit-directory=reports",
                    "--no-capture", "--no-logcapture"])
        run_behave(tmpdir, "stop", ["-f", "plain", "--stop"])
        run_behave(tmpdir, "dry-run", ["-f", "plain", "--dry-run"])
        run_behave(tmpdir, "verbose-hook-errors", ["-f", "plain", "--verbose",
                                                   "--tags=before_step_error,after_step_error"])
        run_behave(tmpdir, "wip", ["--wip", "--tags=-nothing"])
    finally:
        shutil.rmtree(tmpdir, ignore_errors=True)


def main():
    part_a()
    part_b()
    part_c()
    part_d()
    text = u"\n".join(OUT) + u"\n"
    if sys.version_info[0] < 3:
        text = text.encode("UTF-8")
        sys.stdout.write(text)
    else:
        sys.stdout.buffer.write(text.encode("UTF-8"))


if __name__ == "__main__":
    main()
