# -*- coding: utf-8 -*-
"""
Equivalence transcript for property C15 (formatter event protocol, JSON /
plain / progress reports mirror the model).

PART 1 runs `python -m behave` (PYTHONPATH=/tmp/wtX/C15) over a generated
feature tree with many formatter / option combinations, a recording formatter
registered next to the built-in ones, and prints every report (normalised
for durations and traceback line numbers) plus the JSON report read back
with behave.json_parser.
PART 2 drives the refactored code directly (in-process) on boundary inputs.
"""
from __future__ import print_function
import sys
sys.path.insert(0, "/tmp/wtX/C15")

import io
import json
import os
import re
import shutil
import subprocess
import tempfile

WORKTREE = "/tmp/wtX/C15"
PYTHON = "/venv/bin/python"

# ---------------------------------------------------------------------------
# TEST DATA
# ---------------------------------------------------------------------------
FEATURE_A = u'''@fa @both
Feature: Alpha bäsics ☃
  Some description line 1
  Some description line 2

  Background: Common sétup
    Given a passing step
    And a table step
      | name  | value |
      | Alice | 1     |
      | Böb \\| x | 22 |

  @s1
  Scenario: All passing
    Description of scenario.
    Given a passing step
    When I use number 42 and word "hello"
    Then a docstring step
      """
      Line one ü
        indented line two
      triple \\"\\"\\" inside
      """

  Scenario: Failing in the middle
    Given a passing step
    When a failing step
    Then a passing step
    And an undefined step here

  @skipme
  Scenario: Skipped by tag
    Given a passing step
    When a table step
      | a |
      | 1 |

  Scenario: Raises an error
    Given a step that raises "Böse ☃"
    Then a passing step

  Scenario: Undefined step first
    Given some undefined step
    Then a passing step

  Scenario: Skips itself
    Given a passing step
    When the scenario skips itself
    Then a passing step

  Scenario: Attaches data
    Given a step that attaches data
    And a passing step

  @outline
  Scenario Outline: Outline <name> ü
    Given a passing step
    When I use number <num> and word "<name>"
    Then a <outcome> step

    @ex1
    Examples: First
      | name | num | outcome |
      | aa   | 1   | passing |
      | bb   | 2   | failing |

    Examples: Second ä
      | name | num | outcome |
      | cc   | 3   | passing |

  Scenario:
    Given a passing step
'''

FEATURE_B = u'''Feature: Beta with rules

  Background: Feature background
    Given a passing step

  Scenario: Before any rule
    When I use number 7 and word "seven"

  @r1
  Rule: First rule

    Background: Rule one background
      Given a docstring step
        """
        rule background text
        """

    Scenario: R1 first
      Then a passing step

    @skipme
    Scenario: R1 skipped
      Then a passing step

    Scenario: R1 failing
      Then a failing step
      And a passing step

  Rule: Second rule without background

    Scenario: R2 first
      When a multiline failing step

    Scenario Outline: R2 outline <x>
      When I use number <x> and word "w<x>"

      Examples:
        | x |
        | 1 |
        | 2 |

  Rule: Third rule, failing background

    Background:
      Given a failing step

    Scenario: R3 first
      Then a passing step

    Scenario: R3 second
      Then a passing step
'''

FEATURE_C = u'''@empty
Feature: Gamma without scenarios
  Only a description.
'''

FEATURE_D = u'''@skipme
Feature: Delta skipped as a whole

  Background:
    Given a passing step

  Scenario: D1
    Then a passing step
'''

STEPS = u'''# -*- coding: utf-8 -*-
from __future__ import unicode_literals
from behave import given, when, then, step

@step('a passing step')
def step_passing(context):
    pass

@step('a failing step')
def step_failing(context):
    assert False, "XFAIL-ä failing step"

@step('a multiline failing step')
def step_multiline_failing(context):
    assert False, "first line\\nsecond line ☃\\nthird line"

@step('a table step')
def step_table(context):
    assert context.table is not None

@step('a docstring step')
def step_docstring(context):
    assert context.text

@step('I use number {number:d} and word "{word}"')
def step_typed(context, number, word):
    assert isinstance(number, int)

@step('a step that raises "{message}"')
def step_raises(context, message):
    raise RuntimeError(message)

@step('the scenario skips itself')
def step_skip(context):
    context.scenario.skip("because")

@step('a step that attaches data')
def step_attach(context):
    context.attach("text/plain", b"first attachment")
    context.attach("image/png", b"\\x00\\x01\\x02\\xff")
'''

RECORDER = u'''# -*- coding: utf-8 -*-
from behave.formatter.base import Formatter

class RecordingFormatter(Formatter):
    name = "rec"
    description = "records the event stream"

    def __init__(self, stream_opener, config):
        super(RecordingFormatter, self).__init__(stream_opener, config)
        self.stream = self.open()

    def _log(self, text):
        self.stream.write(u"%s\\n" % text)

    def uri(self, uri):
        self._log(u"uri %s" % uri)

    def feature(self, feature):
        self._log(u"feature %s|%s" % (feature.name, feature.location))

    def rule(self, rule):
        self._log(u"rule %s|%s" % (rule.name, rule.location))

    def background(self, background):
        self._log(u"background %s|%s" % (background.name, background.location))

    def scenario(self, scenario):
        self._log(u"scenario %s|%s" % (scenario.name, scenario.location))

    def step(self, step):
        self._log(u"step %s %s|%s" % (step.keyword, step.name, step.location))

    def match(self, match):
        args = [(a.name, a.original, repr(a.value)) for a in match.arguments or []]
        self._log(u"match %s|%s|%r" % (type(match).__name__,
                                       match.location and "LOC", args))

    def result(self, step):
        self._log(u"result %s|%s" % (step.name, step.status.name))

    def eof(self):
        self._log(u"eof")

    def close(self):
        self._log(u"close")
        self.close_stream()
'''

FORMATS = ["json", "json.pretty", "plain", "progress", "progress2",
           "progress3", "pretty", "rec"]

RUNS = [
    # (label, formats, extra options)
    ("all-default", FORMATS, []),
    ("all-reversed", list(reversed(FORMATS)), []),
    ("no-skipped", FORMATS, ["--no-skipped"]),
    ("show-skipped-tags", FORMATS, ["--show-skipped", "--tags=not @skipme"]),
    ("no-skipped-tags", FORMATS, ["--no-skipped", "--tags=not @skipme"]),
    ("no-multiline", FORMATS, ["--no-multiline", "--tags=not @skipme"]),
    ("timings", ["plain", "json", "progress3", "rec"], ["--show-timings"]),
    ("no-timings", ["plain", "progress2", "rec"], ["--no-timings"]),
    ("color", ["pretty", "json", "plain", "rec"], ["--color=always"]),
    ("dry-run", FORMATS, ["--dry-run"]),
    ("dry-run-tags", FORMATS, ["--dry-run", "--tags=not @skipme", "--no-skipped"]),
    ("stop", FORMATS, ["--stop"]),
    ("dry-run-show-skipped", FORMATS, ["--dry-run", "--tags=not @skipme", "--show-skipped"]),
    ("dry-run-outline", ["rec", "json", "plain", "progress2"], ["--dry-run", "--tags=@outline"]),
    ("dry-run-stop", ["rec", "plain", "progress3", "json.pretty"], ["--dry-run", "--stop"]),
    ("dry-run-name", ["rec", "plain"], ["--dry-run", "--name=Undefined"]),
    ("only-outline", FORMATS, ["--tags=@outline"]),
    ("only-rule", ["json.pretty", "plain", "progress3", "rec"], ["--tags=@r1"]),
    ("name-select", ["json", "plain", "progress", "rec"], ["--name=R1"]),
    ("json-only", ["json"], []),
    ("json-twice", ["json", "json.pretty", "json"], ["--tags=@fa"]),
    ("plain-only", ["plain"], ["--tags=@empty"]),
    ("no-features", ["json", "plain", "progress", "rec"], ["--tags=@nothing", "--no-skipped"]),
]

_NORMALIZERS = [
    (re.compile(r'File "[^"]*", line \d+'), 'File "X", line N'),
    (re.compile(r'\d+\.\d+s'), 'N.NNNs'),
    (re.compile(r'"duration": [0-9.e+-]+'), '"duration": D'),
    (re.compile(r'Took \d+m'), 'Took Nm'),
    (re.compile(r'0x[0-9a-fA-F]+'), '0xADDR'),
]


def normalize(text):
    for pattern, replacement in _NORMALIZERS:
        text = pattern.sub(replacement, text)
    return text


def emit(text=u""):
    if isinstance(text, bytes):
        text = text.decode("utf-8", "replace")
    sys.stdout.write(text + u"\n")


def write_file(path, contents):
    dirname = os.path.dirname(path)
    if not os.path.isdir(dirname):
        os.makedirs(dirname)
    with io.open(path, "w", encoding="utf-8") as f:
        f.write(contents)


def make_tree(workdir):
    write_file(os.path.join(workdir, "features", "a_alpha.feature"), FEATURE_A)
    write_file(os.path.join(workdir, "features", "b_beta.feature"), FEATURE_B)
    write_file(os.path.join(workdir, "features", "c_gamma.feature"), FEATURE_C)
    write_file(os.path.join(workdir, "features", "d_delta.feature"), FEATURE_D)
    write_file(os.path.join(workdir, "features", "steps", "steps.py"), STEPS)
    write_file(os.path.join(workdir, "recmod.py"), RECORDER)
    write_file(os.path.join(workdir, "behave.ini"),
               u"[behave.formatters]\nrec = recmod:RecordingFormatter\n")


def loc(element):
    # NOTE: json_parser stores the line as text; str(location) would raise.
    return u"%s:%r" % (element.location.filename, element.location.line)


def describe_step(step, indent):
    emit(u"%sSTEP %s|%s|%s|%s|status=%s|err=%r" % (
        indent, step.keyword, step.step_type, step.name, loc(step),
        step.status.name, step.error_message))
    if step.text is not None:
        emit(u"%s  TEXT %r" % (indent, step.text))
    if step.table is not None:
        emit(u"%s  TABLE %r %r" % (indent, step.table.headings,
                                  [list(row) for row in step.table.rows]))


def describe_parsed(features):
    for feature in features:
        emit(u"  FEATURE %s|%s|%s|tags=%r|descr=%r" % (
            feature.keyword, feature.name, loc(feature),
            [u"%s" % t for t in feature.tags], feature.description))
        if feature.background:
            b = feature.background
            emit(u"    BACKGROUND %s|%s|%s" % (b.keyword, b.name, loc(b)))
            for s in b.steps:
                describe_step(s, u"      ")
        for scenario in feature.scenarios:
            emit(u"    %s %s|%s|%s|tags=%r|descr=%r|status=%s" % (
                type(scenario).__name__, scenario.keyword, scenario.name,
                loc(scenario), [u"%s" % t for t in scenario.tags],
                scenario.description, scenario.status.name))
            for s in scenario.steps:
                describe_step(s, u"      ")


def run_behave(workdir, label, formats, options):
    from behave import json_parser
    outdir = os.path.join(workdir, "out_" + label)
    os.makedirs(outdir)
    args = [PYTHON, "-m", "behave", "--summary"]
    outfiles = []
    for index, name in enumerate(formats):
        outfile = os.path.join(outdir, "%02d_%s.out" % (index, name))
        outfiles.append((name, outfile))
        args += ["-f", name, "-o", outfile]
    args += options
    env = dict(os.environ)
    env["PYTHONPATH"] = WORKTREE + os.pathsep + workdir
    env["PYTHONIOENCODING"] = "utf-8"
    env["PYTHONHASHSEED"] = "0"
    env.pop("BEHAVE_UNICODE_ERRORS", None)
    proc = subprocess.Popen(args, cwd=workdir, env=env,
                            stdout=subprocess.PIPE, stderr=subprocess.PIPE)
    out, err = proc.communicate()
    emit(u"=" * 78)
    emit(u"RUN %s: formats=%s options=%s" % (label, ",".join(formats),
                                            " ".join(options)))
    emit(u"returncode=%s" % proc.returncode)
    emit(u"--- stdout")
    emit(normalize(out.decode("utf-8", "replace")))
    emit(u"--- stderr")
    emit(normalize(err.decode("utf-8", "replace")))
    for name, outfile in outfiles:
        emit(u"--- report %s (%s)" % (os.path.basename(outfile), name))
        if not os.path.exists(outfile):
            emit(u"<missing>")
            continue
        with io.open(outfile, "r", encoding="utf-8") as f:
            contents = f.read()
        emit(normalize(contents))
        if name.startswith("json"):
            try:
                data = json.loads(contents)
                emit(u"--- valid JSON: %d features" % len(data))
                features = json_parser.parse(outfile)
                describe_parsed(features)
            except Exception as e:  # pylint: disable=broad-except
                emit(u"--- JSON PROBLEM %s: %s" % (type(e).__name__, e))


def part1():
    workdir = tempfile.mkdtemp(prefix="c15_equiv_")
    try:
        make_tree(workdir)
        for label, formats, options in RUNS:
            run_behave(workdir, label, formats, options)
    finally:
        shutil.rmtree(workdir, ignore_errors=True)


# ---------------------------------------------------------------------------
# PART 2: in-process runs with two in-memory recording formatters
# ---------------------------------------------------------------------------
EVENTS = []


def make_memory_recorder_class():
    from behave.formatter.base import Formatter

    class MemoryRecorder(Formatter):
        """Records events and the identity of the match objects it receives."""
        name = "memrec"
        description = "in-memory recorder"
        instances = []
        seen_matches = []

        def __init__(self, stream_opener, config):
            super(MemoryRecorder, self).__init__(stream_opener, config)
            self.index = len(self.instances)
            self.instances.append(self)

        def _log(self, text):
            EVENTS.append(u"[%d] %s" % (self.index, text))

        def uri(self, uri):
            self._log(u"uri %s" % uri)

        def feature(self, feature):
            self._log(u"feature %s" % feature.name)

        def rule(self, rule):
            self._log(u"rule %s" % rule.name)

        def background(self, background):
            self._log(u"background %s" % background.name)

        def scenario(self, scenario):
            self._log(u"scenario %s" % scenario.name)

        def step(self, step):
            self._log(u"step %s %s" % (step.keyword, step.name))

        def match(self, match):
            shared = any(match is other for other in self.seen_matches)
            self.seen_matches.append(match)
            self._log(u"match %s|loc=%s|func=%s|shared_object=%s" % (
                type(match).__name__, bool(match.location),
                getattr(match.func, "__name__", None), shared))

        def result(self, step):
            self._log(u"result %s|%s|undefined_so_far=%d" % (
                step.name, step.status.name,
                len(self.config.the_runner.undefined_steps)))

        def eof(self):
            self._log(u"eof")

        def close(self):
            self._log(u"close")

    return MemoryRecorder


def describe_model(features):
    for feature in features:
        emit(u"  FEATURE %s|%s" % (feature.name, feature.status.name))
        for scenario in feature.walk_scenarios(with_outlines=False):
            emit(u"    SCENARIO %s|%s|dry_run=%r" % (
                scenario.name, scenario.status.name,
                getattr(scenario, "was_dry_run", None)))
            for step in scenario.all_steps:
                emit(u"      STEP %s %s|%s" % (step.keyword, step.name,
                                               step.status.name))


def run_in_process(label, args, formats=("memrec", "memrec")):
    from behave.configuration import Configuration
    from behave.runner import Runner
    from behave.formatter._registry import register_as

    recorder_class = make_memory_recorder_class()
    register_as("memrec", recorder_class)
    del EVENTS[:]
    command_args = list(args)
    for name in formats:
        command_args += ["-f", name, "-o", os.devnull]
    emit(u"=" * 78)
    emit(u"IN-PROCESS RUN %s: %s" % (label, " ".join(args)))
    saved = sys.stdout, sys.stderr
    sys.stdout = io.StringIO()
    sys.stderr = io.StringIO()
    try:
        config = Configuration(command_args=command_args, load_config=False)
        runner = Runner(config)
        config.the_runner = runner
        try:
            failed = runner.run()
            outcome = u"failed=%r" % failed
        except BaseException as e:  # pylint: disable=broad-except
            outcome = u"!! %s: %s" % (type(e).__name__, e)
        captured = sys.stdout.getvalue(), sys.stderr.getvalue()
    finally:
        sys.stdout, sys.stderr = saved
    emit(outcome)
    emit(u"--- events")
    for event in EVENTS:
        emit(event)
    emit(u"--- undefined steps: %r" % [
        (s.name, s.status.name) for s in runner.undefined_steps])
    emit(u"--- model")
    describe_model(runner.features)
    emit(u"--- stdout")
    emit(normalize(captured[0]))
    emit(u"--- stderr")
    emit(normalize(captured[1]))


def part2():
    workdir = tempfile.mkdtemp(prefix="c15_equiv_inproc_")
    cwd = os.getcwd()
    try:
        make_tree(workdir)
        os.chdir(workdir)
        sys.path.insert(0, workdir)
        run_in_process("normal", [])
        run_in_process("dry-run", ["--dry-run"])
        run_in_process("dry-run-tags-noskipped",
                       ["--dry-run", "--tags=not @skipme", "--no-skipped"])
        run_in_process("dry-run-tags-showskipped",
                       ["--dry-run", "--tags=not @skipme", "--show-skipped"])
        run_in_process("dry-run-three-formatters", ["--dry-run", "--tags=@fa"],
                       formats=("memrec", "plain", "memrec", "memrec"))
        run_in_process("dry-run-no-recorder", ["--dry-run", "--tags=@fa"],
                       formats=("plain",))
        run_in_process("normal-stop", ["--stop"])
        run_in_process("normal-tags", ["--tags=not @skipme", "--no-skipped"])
    finally:
        os.chdir(cwd)
        shutil.rmtree(workdir, ignore_errors=True)


if __name__ == "__main__":
    part1()
    part2()
