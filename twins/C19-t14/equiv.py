# -*- coding: UTF-8 -*-
"""Equivalence transcript for property C19 (active tags exclude logic).

Exercises behave.tag_matcher through its public behaviour and prints a
canonical transcript (results, call logs, log records, exception types/messages).
"""
from __future__ import print_function
import sys
sys.path.insert(0, "/tmp/wtW/C19")

import itertools
import logging
import operator

from behave.tag_matcher import (
    ActiveTagMatcher, CompositeTagMatcher, PredicateTagMatcher, TagMatcher,
    ValueObject, NumberValueObject, BoolValueObject,
    ActiveTagValueProvider, CompositeActiveTagValueProvider,
    bool_to_string, setup_active_tag_values, print_active_tags,
)
from behave._types import Unknown
from behave.active_tag.python import VersionValueObject
from behave.active_tag import python as active_tag_python
from behave.active_tag import python_feature as active_tag_python_feature


# ---------------------------------------------------------------------------
# TRANSCRIPT HELPERS
# ---------------------------------------------------------------------------
def emit(*parts):
    print(" ".join(str(p) for p in parts))


def section(title):
    emit("")
    emit("=== %s ===" % title)


def outcome(func, *args, **kwargs):
    """Canonical textual outcome of a call: value (with type) or exception."""
    try:
        result = func(*args, **kwargs)
    except BaseException as e:      # pylint: disable=broad-except
        return "RAISES %s: %s" % (e.__class__.__name__, e)
    return "%s:%r" % (type(result).__name__, result)


class ListHandler(logging.Handler):
    def __init__(self):
        logging.Handler.__init__(self)
        self.messages = []

    def emit(self, record):
        self.messages.append("%s|%s|%s" % (record.name, record.levelname,
                                           record.getMessage()))

    def flush_to_transcript(self):
        for message in self.messages:
            emit("    LOG:", message)
        del self.messages[:]


LOG_HANDLER = ListHandler()
ACTIVE_TAGS_LOGGER = logging.getLogger("behave.active_tags")
ACTIVE_TAGS_LOGGER.addHandler(LOG_HANDLER)
ACTIVE_TAGS_LOGGER.propagate = False
ACTIVE_TAGS_LOGGER.setLevel(logging.DEBUG)


class CallLog(object):
    def __init__(self):
        self.calls = []

    def add(self, *what):
        self.calls.append(" ".join(str(x) for x in what))

    def flush_to_transcript(self):
        emit("    CALLS[%d]: %s" % (len(self.calls), "; ".join(self.calls)))
        del self.calls[:]


class LoggingProvider(object):
    """Mapping-like value provider that records each get() call."""
    def __init__(self, name, data, log):
        self.name = name
        self.data = data
        self.log = log

    def get(self, category, default=None):
        self.log.add("%s.get(%s,%s)" % (self.name, category,
                                        getattr(default, "__name__", default)))
        return self.data.get(category, default)

    def keys(self):
        self.log.add("%s.keys()" % self.name)
        return list(self.data.keys())


class NoKeysProvider(object):
    def __init__(self, data):
        self._data = data

    def get(self, category, default=None):
        return self._data.get(category, default)


def make_lazy(name, value, log):
    def lazy_value():
        log.add("lazy:%s" % name)
        if isinstance(value, BaseException):
            raise value
        return value
    return lazy_value


def make_compare(name, func, log):
    def compare(current_value, tag_value):
        log.add("cmp:%s(%r,%r)" % (name, current_value, tag_value))
        return func(current_value, tag_value)
    return compare


def check_matcher(matcher, tags, log=None):
    emit("  tags=%r" % (tags,))
    emit("    exclude:", outcome(matcher.should_exclude_with, tags))
    if log is not None:
        log.flush_to_transcript()
    LOG_HANDLER.flush_to_transcript()
    emit("    run:    ", outcome(matcher.should_run_with, tags))
    if log is not None:
        log.flush_to_transcript()
    LOG_HANDLER.flush_to_transcript()
    emit("    exclude_reason: %r" % (getattr(matcher, "exclude_reason", "<none>"),))


# ---------------------------------------------------------------------------
# 1. EXHAUSTIVE: small universe of tag lists, both schemas
# ---------------------------------------------------------------------------
section("1. exhaustive small universe (schema 1 and 2 prefixes)")
VALUE_PROVIDER = {"os": "linux", "browser": "chrome", "deployment.stage": "testlab"}
TAG_UNIVERSE = [
    "use.with_os=linux", "use.with_os=win32", "not.with_os=linux", "not.with_os=darwin",
    "active.with_browser=chrome", "not_active.with_browser=chrome",
    "only.with_browser=firefox",
    "use.with_unknown=one", "not.with_unknown=one",
    "use.with_deployment.stage=testlab", "not.with_deployment.stage=prod",
    "wip", "use.with_os", "not.with_=x",
]
for strict in (None, False):
    matcher = ActiveTagMatcher(VALUE_PROVIDER, ignore_unknown_categories=strict)
    emit("-- ignore_unknown_categories arg=%r" % (strict,))
    for size in (0, 1, 2, 3):
        for tags in itertools.permutations(TAG_UNIVERSE, size) if size < 3 \
                else itertools.combinations(TAG_UNIVERSE, size):
            tags = list(tags)
            excluded = matcher.should_exclude_with(tags)
            run = matcher.should_run_with(tags)
            emit("  %s => exclude=%r run=%r" % (",".join(tags), excluded, run))

section("1b. multiset / duplicate tags and 4-5 tag mixes")
matcher = ActiveTagMatcher(VALUE_PROVIDER)
POS = ["use.with_os=linux", "use.with_os=win32", "active.with_os=darwin"]
NEG = ["not.with_os=linux", "not.with_os=win32", "not_active.with_os=darwin"]
for npos in range(0, 4):
    for nneg in range(0, 4):
        for pos in itertools.combinations_with_replacement(POS, npos):
            for neg in itertools.combinations_with_replacement(NEG, nneg):
                for order in (0, 1):
                    tags = list(pos) + list(neg) if order == 0 else list(neg) + list(pos)
                    tags = tags + ["foo", "not.with_browser=firefox"]
                    emit("  %s => %r" % (",".join(tags),
                                         matcher.should_exclude_with(tags)))

# ---------------------------------------------------------------------------
# 2. group/select API (generators, ordering, shape)
# ---------------------------------------------------------------------------
section("2. select_active_tags / group_active_tags_by_category")
matcher = ActiveTagMatcher(VALUE_PROVIDER)
TAG_LISTS = [
    [],
    ["foo"],
    ["use.with_os=linux"],
    ["not.with_browser=x", "use.with_os=linux", "foo", "use.with_browser=y",
     "only.with_os=z", "use.with_zzz.a.b=1", "not.with_os=", "use.with_os=a=b"],
    ["use.with_os=linux", "use.with_os=linux"],
    ("not_active.with_b=1", "active.with_a=2", "not.with_b=3"),
]
for tags in TAG_LISTS:
    emit("  tags=%r" % (tags,))
    selected = matcher.select_active_tags(tags)
    emit("    select type:", type(selected).__name__)
    for tag, match in selected:
        emit("    selected:", tag, sorted(match.groupdict().items()))
    groups = matcher.group_active_tags_by_category(tags)
    emit("    groups type:", type(groups).__name__)
    for category, pairs in groups:
        emit("    group:", category, type(pairs).__name__,
             [(tag, type(tag).__name__, m.group("prefix"), m.group("category"),
               m.group("value")) for tag, m in pairs])
# -- LAZINESS: generator does not touch its input before first next().
class NoisyTags(object):
    def __init__(self, tags, log):
        self.tags = tags
        self.log = log
    def __iter__(self):
        self.log.add("iter(tags)")
        for tag in self.tags:
            self.log.add("yield:%s" % tag)
            yield tag
log = CallLog()
groups = matcher.group_active_tags_by_category(
    NoisyTags(["use.with_os=a", "x", "not.with_b=1", "use.with_os=b"], log))
emit("  created generator")
log.flush_to_transcript()
first = next(groups)
emit("  first:", first[0], [t for t, _ in first[1]])
log.flush_to_transcript()
emit("  rest:", [(c, [t for t, _ in p]) for c, p in groups])
log.flush_to_transcript()
emit("  bad tags:", outcome(lambda: list(matcher.group_active_tags_by_category([1, 2]))))
emit("  bad tags:", outcome(lambda: list(matcher.group_active_tags_by_category(None))))
emit("  bad tags:", outcome(matcher.should_exclude_with, None))
emit("  bad tags:", outcome(matcher.should_exclude_with, [None]))

# ---------------------------------------------------------------------------
# 3. is_tag_group_enabled directly
# ---------------------------------------------------------------------------
section("3. is_tag_group_enabled")
for provider in ({"os": "linux"}, {}, {"os": None}, {"os": Unknown},
                 {"os": ValueObject("linux", operator.ne)}):
    for strict in (True, False):
        matcher = ActiveTagMatcher(provider, ignore_unknown_categories=strict)
        emit("-- provider=%s ignore_unknown=%r" % (sorted(provider.keys()), strict))
        for tags in ([], ["use.with_os=linux"], ["use.with_os=win"],
                     ["not.with_os=linux"], ["not.with_os=win"],
                     ["use.with_os=linux", "not.with_os=linux"],
                     ["use.with_os=win", "use.with_os=linux", "not.with_os=mac"],
                     ["use.with_os=None"], ["use.with_os="]):
            pairs = list(matcher.select_active_tags(tags))
            emit("  %r => %s" % (tags, outcome(matcher.is_tag_group_enabled, "os", pairs)))
matcher = ActiveTagMatcher({"os": "linux"})
pairs = list(matcher.select_active_tags(["use.with_os=linux", "use.with_browser=x"]))
emit("  category mismatch:", outcome(matcher.is_tag_group_enabled, "os", pairs))
emit("  category mismatch, unknown:", outcome(matcher.is_tag_group_enabled, "other", pairs))
emit("  empty tuple:", outcome(matcher.is_tag_group_enabled, "os", ()))
emit("  bad pairs:", outcome(matcher.is_tag_group_enabled, "os", [("a",)]))
emit("  bad pairs:", outcome(matcher.is_tag_group_enabled, "os", [("a", None)]))

# -- Overridden is_tag_negated + call order of hooks.
class MyMatcher(ActiveTagMatcher):
    def __init__(self, value_provider, log, **kwargs):
        ActiveTagMatcher.__init__(self, value_provider, **kwargs)
        self.log = log
    def is_tag_negated(self, tag):
        self.log.add("is_tag_negated(%s)" % tag)
        return tag in ("without", "not")

log = CallLog()
provider = LoggingProvider("P", {
    "os": ValueObject(make_lazy("os", "linux", log), make_compare("eq", operator.eq, log)),
    "n": NumberValueObject(make_lazy("n", 10, log), make_compare("ge", operator.ge, log)),
}, log)
matcher = MyMatcher(provider, log, tag_prefixes=["with", "without", "not", "not_active"])
for tags in (["with.with_os=linux", "without.with_os=linux"],
             ["without.with_os=win", "with.with_os=win", "with.with_os=linux"],
             ["not_active.with_os=win", "not.with_os=win"],
             ["with.with_n=5", "with.with_n=20", "without.with_n=x", "without.with_n=11"],
             ["with.with_n=11", "with.with_os=linux", "without.with_zzz=1"]):
    check_matcher(matcher, tags, log)

# ---------------------------------------------------------------------------
# 4. Value objects
# ---------------------------------------------------------------------------
section("4. value objects: matches()")
log = CallLog()
def raising_compare(exc):
    def compare(a, b):
        raise exc
    return compare
def str_compare(a, b):
    return "yes" if a == b else ""

VALUE_OBJECTS = [
    ("VO(linux)", ValueObject("linux")),
    ("VO(10)", ValueObject(10)),
    ("VO(lazy linux)", ValueObject(make_lazy("vo", "linux", log))),
    ("VO(linux, ne)", ValueObject("linux", operator.ne)),
    ("VO(linux, contains)", ValueObject("linux,win", operator.contains)),
    ("VO(linux, str_compare)", ValueObject("linux", str_compare)),
    ("VO(raise ValueError in cmp)", ValueObject("x", raising_compare(ValueError("cmp-boom")))),
    ("NVO(10)", NumberValueObject(10)),
    ("NVO(10, ge)", NumberValueObject(10, operator.ge)),
    ("NVO(10, le)", NumberValueObject(10, operator.le)),
    ("NVO(10, lt)", NumberValueObject(10, operator.lt)),
    ("NVO(lazy 10, ge)", NumberValueObject(make_lazy("nvo", 10, log),
                                           make_compare("ge", operator.ge, log))),
    ("NVO(lazy ValueError)", NumberValueObject(make_lazy("nvo", ValueError("lazy-boom"), log))),
    ("NVO(lazy TypeError)", NumberValueObject(make_lazy("nvo", TypeError("lazy-type"), log))),
    ("NVO(cmp ValueError)", NumberValueObject(10, raising_compare(ValueError("cmp-boom")))),
    ("NVO(cmp KeyError)", NumberValueObject(10, raising_compare(KeyError("cmp-key")))),
    ("NVO('x', ge)", NumberValueObject("x", operator.ge)),
    ("BVO(True)", BoolValueObject(True)),
    ("BVO(False)", BoolValueObject(False)),
    ("BVO(True, ne)", BoolValueObject(True, operator.ne)),
    ("BVO(lazy False)", BoolValueObject(make_lazy("bvo", False, log),
                                        make_compare("eq", operator.eq, log))),
    ("BVO(lazy ValueError)", BoolValueObject(make_lazy("bvo", ValueError("lazy-boom"), log))),
    ("BVO(cmp ValueError)", BoolValueObject(True, raising_compare(ValueError("cmp-boom")))),
    ("BVO(cmp RuntimeError)", BoolValueObject(True, raising_compare(RuntimeError("cmp-rt")))),
    ("VVO((3,8), ge)", VersionValueObject((3, 8), operator.ge)),
    ("VVO((3,8), le)", VersionValueObject((3, 8), operator.le)),
]
TAG_VALUES = ["linux", "10", "9", "11", "-3", " 12 ", "1_0", "0x10", "1.5", "", "abc",
              "true", "True", "YES", "on", "false", "No", "OFF", "0", "1", "maybe",
              "3.8", "3.7.1", "3.x", "4",
              10, 10.7, True, False, None, (3, 8), u"ä"]
for name, vo in VALUE_OBJECTS:
    emit("-- %s" % name)
    for tag_value in TAG_VALUES:
        emit("  matches(%r) => %s" % (tag_value, outcome(vo.matches, tag_value)))
        if log.calls:
            log.flush_to_transcript()
        LOG_HANDLER.flush_to_transcript()

section("4b. value objects: conversions and misc")
for name, vo in VALUE_OBJECTS:
    emit("  %s: str=%s" % (name, outcome(str, vo)))
    del log.calls[:]
emit("  int(NVO(10)):", outcome(int, NumberValueObject(10)))
emit("  int(NVO('12')):", outcome(int, NumberValueObject("12")))
emit("  int(NVO('x')):", outcome(int, NumberValueObject("x")))
emit("  bool(BVO(True)):", outcome(bool, BoolValueObject(True)))
emit("  bool(BVO(False)):", outcome(bool, BoolValueObject(False)))
emit("  bool(BVO(lazy '')):", outcome(bool, BoolValueObject(lambda: "")))
emit("  repr(VO):", repr(ValueObject("a", str_compare)).split(" at 0x")[0])
emit("  repr(NVO):", repr(NumberValueObject(3, str_compare)).split(" at 0x")[0])
emit("  VO(compare=None):", outcome(ValueObject, 1, None))
for value in ["true", "YES", "On", "false", "no", "OFF", "", "2", "maybe", 0, 1, 2,
              None, [], [0], 0.0, u"ja", True, False]:
    emit("  to_bool(%r) => %s" % (value, outcome(BoolValueObject.to_bool, value)))
class MyBool(BoolValueObject):
    TRUE_STRINGS = set(["ja"])
    FALSE_STRINGS = set(["nein"])
for value in ["ja", "JA", "nein", "yes", "no", 1]:
    emit("  MyBool.to_bool(%r) => %s" % (value, outcome(MyBool.to_bool, value)))
    emit("  MyBool(True).matches(%r) => %s" % (value, outcome(MyBool(True).matches, value)))
    LOG_HANDLER.flush_to_transcript()
emit("  on_type_conversion_error:",
     outcome(ValueObject.on_type_conversion_error, "v", ValueError("e")))
LOG_HANDLER.flush_to_transcript()

# -- Subclasses that customise hooks used by matches().
class QuietNumber(NumberValueObject):
    @staticmethod
    def on_type_conversion_error(tag_value, e):
        return "CONVERSION-ERROR(%s, %s: %s)" % (tag_value, e.__class__.__name__, e)
class HexNumber(NumberValueObject):
    def matches(self, tag_value):
        if isinstance(tag_value, str) and tag_value.startswith("0x"):
            tag_value = int(tag_value, 16)
        return super(HexNumber, self).matches(tag_value)
class Tracer(object):
    def matches(self, tag_value):
        return "Tracer.matches(%r)" % (tag_value,)
class DiamondNumber(NumberValueObject, Tracer):
    pass
class LoudBool(BoolValueObject):
    @classmethod
    def to_bool(cls, value):
        if value == "boom":
            raise ValueError("to_bool-boom")
        if value == "type":
            raise TypeError("to_bool-type")
        return super(LoudBool, cls).to_bool(value)
for name, vo in [("QuietNumber(10)", QuietNumber(10)), ("HexNumber(16)", HexNumber(16)),
                 ("DiamondNumber(7)", DiamondNumber(7)), ("LoudBool(True)", LoudBool(True))]:
    emit("-- %s" % name)
    for tag_value in ["10", "0x10", "16", "7", "x", "boom", "type", "yes", "no"]:
        emit("  matches(%r) => %s" % (tag_value, outcome(vo.matches, tag_value)))
        LOG_HANDLER.flush_to_transcript()

section("4c. value objects inside the matcher")
log = CallLog()
provider = {
    "n.min": NumberValueObject(10, operator.ge),
    "n.max": NumberValueObject(10, operator.le),
    "n": NumberValueObject(make_lazy("n", 10, log)),
    "flag": BoolValueObject(True),
    "noflag": BoolValueObject(make_lazy("noflag", False, log)),
    "py.min": VersionValueObject((3, 8), operator.ge),
    "plain.lazy": make_lazy("plain", "v", log),
    "truthy": ValueObject("abc", str_compare),
}
matcher = ActiveTagMatcher(provider)
matcher.use_exclude_reason = True
NUM_TAGS = ["use.with_n.min=5", "use.with_n.min=10", "use.with_n.min=11", "use.with_n.min=x",
            "not.with_n.max=9", "not.with_n.max=10", "not.with_n.max=", "use.with_n=10",
            "not.with_n=ten", "use.with_flag=yes", "use.with_flag=no", "use.with_flag=maybe",
            "not.with_noflag=off", "not.with_noflag=on", "use.with_py.min=3.6",
            "use.with_py.min=3.x", "use.with_plain.lazy=v", "use.with_truthy=abc",
            "not.with_truthy=abc", "use.with_truthy=zzz"]
for tags in itertools.chain([[t] for t in NUM_TAGS], itertools.combinations(NUM_TAGS, 2)):
    matcher.exclude_reason = None
    check_matcher(matcher, list(tags), log)

# ---------------------------------------------------------------------------
# 5. Custom prefixes / separators / schema / make_category_tag / pattern
# ---------------------------------------------------------------------------
section("5. custom prefixes, separators, patterns")
for prefixes, sep in [(None, None), (["use", "not"], ":"), (["only", "not_only"], "="),
                      (["x", "notx"], "=="), (("use", "not"), r"\."), ([], None),
                      (["use"], ""), (["a|b", "not"], "=")]:
    emit("-- prefixes=%r sep=%r" % (prefixes, sep))
    emit("  pattern:", outcome(lambda: ActiveTagMatcher.make_tag_pattern(
        prefixes if prefixes is not None else ActiveTagMatcher.tag_prefixes, sep).pattern))
    matcher = ActiveTagMatcher({"os": "linux", "n": NumberValueObject(3)},
                               tag_prefixes=prefixes, value_separator=sep)
    emit("  matcher.tag_prefixes=%r pattern=%s" % (matcher.tag_prefixes,
                                                   matcher.tag_pattern.pattern))
    for tags in (["use.with_os=linux"], ["use.with_os=win"], ["not.with_os=linux"],
                 ["use.with_os:win"], ["not.with_os:linux"], ["only.with_os=win"],
                 ["not_only.with_os=linux"], ["x.with_os==win"], ["notx.with_os==linux"],
                 ["use.with_os.win"], ["use.with_oswin"], ["a.with_os=win"],
                 ["b.with_os=win"], ["use.with_n=3", "not.with_n=3"]):
        emit("  %r => exclude=%s" % (tags, outcome(matcher.should_exclude_with, tags)))
for args in [("os",), ("os", "linux"), ("os", "linux", "not"), ("os", None, None, ":"),
             ("a.b", 0), ("a.b", 5, "only", "==")]:
    emit("  make_category_tag%r => %s" % (args, outcome(ActiveTagMatcher.make_category_tag, *args)))
class ColonMatcher(ActiveTagMatcher):
    value_separator = ":"
    tag_prefixes = ["on", "not_on"]
    ignore_unknown_categories = False
    use_exclude_reason = True
matcher = ColonMatcher({"os": "linux"})
emit("  ColonMatcher pattern:", matcher.tag_pattern.pattern)
emit("  ColonMatcher tag:", ColonMatcher.make_category_tag("os", "linux"))
for tags in (["on.with_os:linux"], ["on.with_os:win"], ["not_on.with_os:linux"],
             ["on.with_foo:bar"], ["not_on.with_foo:bar"], ["on.with_os=win"]):
    matcher.exclude_reason = None
    check_matcher(matcher, tags)
emit("  ActiveTagMatcher(None):", outcome(ActiveTagMatcher(None).should_exclude_with,
                                         ["use.with_os=linux"]))
emit("  ActiveTagMatcher(None, strict):",
     outcome(ActiveTagMatcher(None, ignore_unknown_categories=False).should_exclude_with,
             ["use.with_os=linux"]))
emit("  ActiveTagMatcher(None, strict):",
     outcome(ActiveTagMatcher(None, ignore_unknown_categories=False).should_exclude_with,
             ["not.with_os=linux"]))

# ---------------------------------------------------------------------------
# 6. exclude_reason and provider call log
# ---------------------------------------------------------------------------
section("6. exclude_reason and provider call order")
log = CallLog()
provider = LoggingProvider("P", {"os": "linux", "browser": "chrome", "n": NumberValueObject(2)}, log)
for use_reason in (False, True):
    matcher = ActiveTagMatcher(provider)
    matcher.use_exclude_reason = use_reason
    emit("-- use_exclude_reason=%r" % use_reason)
    for tags in ([], ["foo"], ["use.with_os=linux", "use.with_browser=chrome"],
                 ["use.with_os=linux", "use.with_browser=firefox", "use.with_n=1"],
                 ["use.with_n=1", "use.with_browser=firefox", "use.with_os=win"],
                 ["not.with_zzz=1", "not.with_n=2"],
                 ["use.with_browser=firefox", "use.with_browser=chrome", "not.with_os=linux"]):
        check_matcher(matcher, tags, log)

# ---------------------------------------------------------------------------
# 7. Value providers (plain, lazy, composite with caching)
# ---------------------------------------------------------------------------
section("7. ActiveTagValueProvider / CompositeActiveTagValueProvider")
def describe_cache(provider):
    items = []
    for key in sorted(provider.data.keys()):
        value = provider.data[key]
        items.append("%s:%s" % (key, "callable" if callable(value) else repr(value)))
    return "{%s}" % ", ".join(items)

log = CallLog()
counter = {"n": 0}
def next_count():
    counter["n"] += 1
    log.add("next_count->%d" % counter["n"])
    return counter["n"]

p0 = ActiveTagValueProvider()
p1 = ActiveTagValueProvider({"os": "linux", "count": next_count, "none": None,
                             "vo": NumberValueObject(5, operator.ge)})
emit("  p0.get(x):", outcome(p0.get, "x"), outcome(p0.get, "x", "dflt"))
for category in ["os", "count", "count", "none", "vo", "missing"]:
    emit("  p1.get(%s): %s | %s | []:%s" % (
        category, outcome(p1.get, category).split(" at 0x")[0],
        outcome(p1.get, category, Unknown).split(" at 0x")[0],
        outcome(lambda: p1[category]).split(" at 0x")[0]))
    log.flush_to_transcript()
emit("  p1.items:", outcome(lambda: sorted((k, str(v)) for k, v in p1.items())))
emit("  p1.categories:", outcome(lambda: sorted(p1.categories())))
emit("  p1.values:", outcome(lambda: list(p1.values())))
del log.calls[:]

inner_a = LoggingProvider("A", {"os": "linux", "shared": "from-A", "falsy": 0}, log)
inner_b = LoggingProvider("B", {"browser": make_lazy("browser", "chrome", log),
                                "shared": "from-B", "none": None,
                                "n": NumberValueObject(make_lazy("n", 4, log), operator.ge)}, log)
inner_c = ActiveTagValueProvider({"count": next_count, "shared": "from-C"})
inner_d = NoKeysProvider({"hidden": "h"})
composite = CompositeActiveTagValueProvider([inner_a, inner_b, inner_c, inner_d])
emit("  cache0:", describe_cache(composite))
for category in ["os", "os", "browser", "browser", "shared", "falsy", "none", "none",
                 "count", "count", "hidden", "missing", "missing", "n"]:
    emit("  composite.get(%s): %s | dflt: %s" % (
        category, outcome(composite.get, category).split(" at 0x")[0],
        outcome(composite.get, category, "DFLT").split(" at 0x")[0]))
    log.flush_to_transcript()
    emit("    cache:", describe_cache(composite))
emit("  composite['os']:", outcome(lambda: composite["os"]))
emit("  composite['count']:", outcome(lambda: composite["count"]))
emit("  composite['nope']:", outcome(lambda: composite["nope"]))
log.flush_to_transcript()
# -- Cache keeps "how to ask", so later changes in the inner provider are seen.
inner_a.data["os"] = "win32"
inner_a.data["late"] = "late-value"
emit("  after change: os=%s late=%s" % (outcome(composite.get, "os"), outcome(composite.get, "late")))
log.flush_to_transcript()
del inner_a.data["os"]
emit("  after delete: os=%s" % outcome(composite.get, "os", "DFLT"))
log.flush_to_transcript()
emit("  keys:", outcome(lambda: list(composite.keys())))
emit("  values:", outcome(lambda: [str(v).split(" at 0x")[0] for v in composite.values()]))
emit("  items:", outcome(lambda: [(k, str(v).split(" at 0x")[0]) for k, v in composite.items()]))
del log.calls[:]
emit("  empty composite:", outcome(CompositeActiveTagValueProvider().get, "x"),
     outcome(CompositeActiveTagValueProvider(None).get, "x", 7),
     outcome(lambda: list(CompositeActiveTagValueProvider([]).keys())))
# -- Preloaded cache entry wins (also plain values and lazy callables).
composite2 = CompositeActiveTagValueProvider([{"os": "inner"}])
composite2.data["os"] = "preloaded"
composite2.data["lazy"] = make_lazy("pre", "lazy-pre", log)
emit("  preloaded:", outcome(composite2.get, "os"), outcome(composite2.get, "lazy"))
log.flush_to_transcript()
# -- Provider that raises
class BadProvider(object):
    def get(self, category, default=None):
        raise RuntimeError("bad-provider:%s" % category)
composite3 = CompositeActiveTagValueProvider([{"a": 1}, BadProvider(), {"b": 2}])
emit("  bad:", outcome(composite3.get, "a"), "|", outcome(composite3.get, "b"),
     "| cache:", describe_cache(composite3))
# -- Nested composite
nested = CompositeActiveTagValueProvider([composite, {"outer": "o"}])
for category in ["browser", "outer", "count", "missing", "hidden"]:
    emit("  nested.get(%s): %s" % (category, outcome(nested.get, category, "DFLT")))
    log.flush_to_transcript()
    emit("    cache:", describe_cache(nested))

section("7b. matcher over composite provider")
log = CallLog()
counter["n"] = 0
inner_a = LoggingProvider("A", {"os": "linux"}, log)
inner_b = LoggingProvider("B", {"browser": make_lazy("browser", "chrome", log),
                                "count": NumberValueObject(next_count, operator.le)}, log)
composite = CompositeActiveTagValueProvider([inner_a, inner_b])
for strict in (True, False):
    matcher = ActiveTagMatcher(composite, ignore_unknown_categories=strict)
    matcher.use_exclude_reason = True
    emit("-- ignore_unknown=%r" % strict)
    for tags in (["use.with_os=linux"], ["use.with_browser=chrome", "not.with_os=win"],
                 ["use.with_browser=firefox"], ["not.with_browser=chrome", "use.with_os=linux"],
                 ["use.with_count=2"], ["use.with_count=2"], ["use.with_count=9", "foo"],
                 ["use.with_unknown=1"], ["not.with_unknown=1"],
                 ["use.with_unknown=1", "use.with_os=win"]):
        matcher.exclude_reason = None
        check_matcher(matcher, tags, log)
        emit("    cache:", describe_cache(composite))

# ---------------------------------------------------------------------------
# 8. Composite / predicate / abstract matchers
# ---------------------------------------------------------------------------
section("8. CompositeTagMatcher / PredicateTagMatcher / TagMatcher")
log = CallLog()
def make_predicate(name, result):
    def predicate(tags):
        log.add("%s(%s)" % (name, ",".join(tags)))
        if isinstance(result, BaseException):
            raise result
        return result
    return PredicateTagMatcher(predicate)
MEMBERS = {
    "F": lambda: make_predicate("F", False), "T": lambda: make_predicate("T", True),
    "0": lambda: make_predicate("0", 0), "S": lambda: make_predicate("S", "yes"),
    "N": lambda: make_predicate("N", None), "E": lambda: make_predicate("E", KeyError("boom")),
    "A": lambda: ActiveTagMatcher({"os": "linux"}),
}
for size in (0, 1, 2, 3):
    for names in itertools.product("FT0SNEA", repeat=size):
        if size == 3 and not set(names) & set("A"):
            continue
        composite_matcher = CompositeTagMatcher([MEMBERS[n]() for n in names])
        for tags in (["use.with_os=win"], ["not.with_os=win", "x"]):
            emit("  %s %s => exclude=%s run=%s" % (
                "".join(names) or "-", tags,
                outcome(composite_matcher.should_exclude_with, tags),
                outcome(composite_matcher.should_run_with, tags)))
            log.flush_to_transcript()
emit("  CompositeTagMatcher(None).tag_matchers:", CompositeTagMatcher(None).tag_matchers)
emit("  TagMatcher abstract:", outcome(TagMatcher().should_exclude_with, []),
     outcome(TagMatcher().should_run_with, []))
emit("  PredicateTagMatcher(None):", outcome(PredicateTagMatcher, None))
nested_matcher = CompositeTagMatcher([CompositeTagMatcher([]),
                                      CompositeTagMatcher([ActiveTagMatcher({"a": "1"})])])
for tags in (["use.with_a=1"], ["use.with_a=2"], ["not.with_a=1"], []):
    emit("  nested %r => %s" % (tags, outcome(nested_matcher.should_exclude_with, tags)))

# ---------------------------------------------------------------------------
# 9. Bundled providers and utilities
# ---------------------------------------------------------------------------
section("9. bundled active-tag providers and utilities")
bundled = CompositeActiveTagValueProvider([active_tag_python.ACTIVE_TAG_VALUE_PROVIDER,
                                           active_tag_python_feature.ACTIVE_TAG_VALUE_PROVIDER])
matcher = ActiveTagMatcher(bundled)
for tags in (["use.with_python2=true"], ["use.with_python3=true"], ["not.with_python3=yes"],
             ["use.with_python2=true", "use.with_python3=true"],
             ["use.with_python.min_version=3.0"], ["use.with_python.min_version=99.0"],
             ["use.with_python.max_version=2.7"], ["not.with_python.max_version=99.1"],
             ["use.with_python.min_version=abc"], ["use.with_pypy=maybe"],
             ["not.with_pypy=maybe"],
             ["use.with_python.feature.coroutine=yes"],
             ["not.with_python_has_async_function=yes"],
             ["use.with_python.implementation=nonesuch", "use.with_os=nonesuch"]):
    emit("  %r => %s" % (tags, outcome(matcher.should_exclude_with, tags)))
    LOG_HANDLER.flush_to_transcript()
for value in [True, False, 0, 1, "", "x", None, []]:
    emit("  bool_to_string(%r) => %s" % (value, outcome(bool_to_string, value)))
values = {"os": "a", "browser": "b"}
setup_active_tag_values(values, {"os": "linux", "other": "z"})
emit("  setup_active_tag_values:", sorted(values.items()))
print_active_tags({"os": "linux"})
print_active_tags(ActiveTagValueProvider({"lazy": lambda: "L"}), ["lazy", "nope"])
print_active_tags(CompositeActiveTagValueProvider([{"k": "v"}, NoKeysProvider({"h": 1})]))
emit("DONE")
