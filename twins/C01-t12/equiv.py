# -*- coding: UTF-8 -*-
"""Equivalence transcript for twin C01-t12 (Scenario.run step loop).

Sends real parsed features through the real ModelRunner (and a few through
``python -m behave``) and prints everything that is observable: verdict,
statuses of the whole tree, the sequence of hook / formatter / reporter calls,
printed output (line numbers and addresses normalised).
"""
from __future__ import print_function
import sys
sys.path.insert(0, "/tmp/wtV/C01")

import io
import os
import re
import shutil
import subprocess
import tempfile

from behave.configuration import Configuration
from behave.runner import ModelRunner
from behave.parser import parse_feature
from behave.step_registry import StepRegistry
from behave.formatter.base import Formatter, StreamOpener
from behave.reporter.base import Reporter
from behave.api.pending_step import StepNotImplementedError

TWIN_FOCUS = "Scenario.run"
LOG = []
SEEN_MATCHES = []   # -- Match objects passed to formatters (identity check).


def log(*parts):
    LOG.append(u" ".join(u"%s" % (p,) for p in parts))


def normalize(text):
    text = re.sub(r"line \d+", "line N", text)
    text = re.sub(r"0x[0-9a-fA-F]+", "0xX", text)
    text = re.sub(r"\d+m\d+\.\d+s", "TIME", text)
    text = re.sub(r"\d+\.\d+s", "TIME", text)
    # -- py3.11+ caret lines in tracebacks are position dependent only on text.
    return text


# ---------------------------------------------------------------------------
# STEPS
# ---------------------------------------------------------------------------
def make_registry():
    registry = StepRegistry()

    def step_pass(context):
        log("    STEP-BODY pass")

    def step_pass_n(context, n):
        log("    STEP-BODY pass", n)

    def step_fail(context):
        log("    STEP-BODY fail")
        assert False, "boom"

    def step_fail_nomsg(context):
        log("    STEP-BODY fail-nomsg")
        raise AssertionError()

    def step_error(context):
        log("    STEP-BODY error")
        raise RuntimeError("kaput")

    def step_pending(context):
        log("    STEP-BODY pending")
        raise StepNotImplementedError("todo")

    def step_pending_nomsg(context):
        log("    STEP-BODY pending-nomsg")
        raise StepNotImplementedError()

    def step_skip(context):
        log("    STEP-BODY skip-scenario")
        context.scenario.skip("by step")

    def step_interrupt(context):
        log("    STEP-BODY interrupt")
        raise KeyboardInterrupt()

    def step_abort(context):
        log("    STEP-BODY abort")
        context.abort()

    def step_bad_cleanup(context):
        log("    STEP-BODY add failing cleanup")
        def bad_cleanup():
            log("    CLEANUP bad_cleanup")
            raise ValueError("cleanup broke")
        def good_cleanup():
            log("    CLEANUP good_cleanup")
        context.add_cleanup(good_cleanup)
        context.add_cleanup(bad_cleanup)

    def step_print(context):
        log("    STEP-BODY print")
        print("hello from step")

    def step_print_fail(context):
        log("    STEP-BODY print-fail")
        print("output before failure")
        assert 1 == 2, "after output"

    def step_nested(context, what):
        log("    STEP-BODY nested", what)
        context.execute_steps(u"Given a %s step" % what)

    def step_with_text(context):
        log("    STEP-BODY text=%r table=%r" % (
            context.text, context.table and context.table.headings))

    add = registry.add_step_definition
    add("step", u"a passing step", step_pass)
    add("step", u"passes {n:d}", step_pass_n)
    add("step", u"a failing step", step_fail)
    add("step", u"a failing step without message", step_fail_nomsg)
    add("step", u"an erroring step", step_error)
    add("step", u"a pending step", step_pending)
    add("step", u"a pending step without message", step_pending_nomsg)
    add("step", u"a step that skips the scenario", step_skip)
    add("step", u"a step that interrupts", step_interrupt)
    add("step", u"a step that aborts", step_abort)
    add("step", u"a step that adds a failing cleanup", step_bad_cleanup)
    add("step", u"a printing step", step_print)
    add("step", u"a printing and failing step", step_print_fail)
    add("step", u"nested \"{what}\"", step_nested)
    add("step", u"a step with data", step_with_text)
    return registry


# ---------------------------------------------------------------------------
# FORMATTER / REPORTER
# ---------------------------------------------------------------------------
class RecFormatter(Formatter):
    name = "rec"

    def uri(self, uri):
        log("  FMT uri", uri)

    def feature(self, feature):
        log("  FMT feature", feature.name)

    def rule(self, rule):
        log("  FMT rule", rule.name)

    def rule_finished(self):
        log("  FMT rule_finished")

    def background(self, background):
        log("  FMT background", background.name)

    def scenario(self, scenario):
        log("  FMT scenario", scenario.name)

    def step(self, step):
        log("  FMT step", step.keyword, step.name)

    def match(self, match):
        func = getattr(match, "func", None)
        seen_before = any(match is other for other in SEEN_MATCHES)
        SEEN_MATCHES.append(match)
        log("  FMT match", match.__class__.__name__,
            getattr(func, "__name__", None), "seen_before=%s" % seen_before)

    def result(self, step):
        log("  FMT result", step.name, step.status.name,
            "hook_failed=%s" % step.hook_failed,
            "error=%r" % normalize(step.error_message or u""))

    def eof(self):
        log("  FMT eof")

    def close(self):
        log("  FMT close")


class RecReporter(Reporter):
    def feature(self, feature):
        log("  REP feature", feature.name, feature.status.name)

    def end(self):
        log("  REP end")


HOOK_NAMES = ["before_all", "after_all", "before_feature", "after_feature",
              "before_rule", "after_rule", "before_scenario", "after_scenario",
              "before_step", "after_step", "before_tag", "after_tag"]


def make_hooks(raising=None, raise_on=None, exc=RuntimeError, special=None):
    """raising: hook name that raises. raise_on: only if arg name/tag matches."""
    hooks = {}
    def make(name):
        def hook(context, *args):
            arg = args[0] if args else None
            arg_name = getattr(arg, "name", arg)
            log("  HOOK", name, arg_name)
            if special:
                special(name, context, arg)
            if name == raising and (raise_on is None or raise_on == arg_name):
                raise exc("hook %s broke" % name)
        hook.__name__ = name
        return hook
    for name in HOOK_NAMES:
        hooks[name] = make(name)
    return hooks


# ---------------------------------------------------------------------------
# FEATURES
# ---------------------------------------------------------------------------
F_PASS = u"""
Feature: all-pass
  Scenario: P1
    Given a passing step
    When passes 1
    Then passes 2
  Scenario: P2
    Given a printing step
"""

F_FAIL = u"""
@ftag
Feature: one-fail
  Background: bg
    Given passes 0
  Scenario: F1
    Given a passing step
    When a failing step
    Then passes 3
    And an unknown step
  @stag
  Scenario: F2
    Given a passing step
"""

F_MIX = u"""
Feature: mix
  Scenario: M-error
    Given an erroring step
    Then a passing step
  Scenario: M-pending
    Given a pending step
    Then a passing step
  @wip
  Scenario: M-pending-wip
    Given a pending step
    And a pending step without message
    Then a passing step
  Scenario: M-undefined
    Given an unknown step
    Then a passing step
    And another unknown step
  Scenario: M-skip
    Given a step that skips the scenario
    Then a failing step
  Scenario: M-nomsg
    Given a failing step without message
  Scenario: M-print-fail
    Given a printing and failing step
  Scenario: M-nested-fail
    Given nested "failing"
  Scenario: M-nested-pass
    Given nested "passing"
  Scenario: M-data
    Given a step with data
      '''
      some text
      '''
    And a step with data
      | a | b |
      | 1 | 2 |
  Scenario: M-empty
""".replace("'''", '"""')

F_RULES = u"""
@feat
Feature: rules-and-outlines
  Background: fbg
    Given passes 10

  Scenario: R0
    Given a passing step

  @rule1
  Rule: first rule
    Background: rbg
      Given passes 11
    Scenario: R1-a
      Given a passing step
    @slow
    Scenario Outline: R1-o <name>
      Given a <kind> step
      Then passes <n>
      @ex1
      Examples: E1
        | name | kind    | n |
        | one  | passing | 1 |
        | two  | failing | 2 |
      @ex2
      Examples: E2
        | name  | kind    | n |
        | three | passing | 3 |
        | four  | pending | 4 |

  Rule: second rule
    Scenario: R2-a
      Given a passing step
    Scenario: R2-b
      Given an erroring step

  Rule: empty rule
"""

F_INTERRUPT = u"""
Feature: interrupt
  Scenario: I1
    Given a passing step
  Scenario: I2
    Given a step that interrupts
    Then a passing step
  Scenario: I3
    Given a passing step
"""

F_ABORT = u"""
Feature: abort-by-step
  Scenario: A1
    Given a step that aborts
    Then a passing step
  Scenario: A2
    Given a passing step
"""

F_CLEANUP = u"""
Feature: cleanup
  Scenario: C1
    Given a step that adds a failing cleanup
    Then a passing step
  Scenario: C2
    Given a passing step
"""

F_EMPTY = u"""
Feature: empty
"""

F_SKIPPED_BY_TAG = u"""
@skipme
Feature: skipped-by-tag
  Scenario: S1
    Given a failing step
  Scenario: S2
    Given an unknown step
"""

F_OUTLINE_ONLY = u"""
Feature: outline-only
  Scenario Outline: O <kind>
    Given a <kind> step
    Examples:
      | kind     |
      | passing  |
      | failing  |
      | passing  |
      | erroring |
  Scenario Outline: Empty <x>
    Given a passing step
    Examples:
      | x |
"""

FEATURES = {
    "pass": F_PASS, "fail": F_FAIL, "mix": F_MIX, "rules": F_RULES,
    "interrupt": F_INTERRUPT, "abort": F_ABORT, "cleanup": F_CLEANUP,
    "empty": F_EMPTY, "bytag": F_SKIPPED_BY_TAG, "outline": F_OUTLINE_ONLY,
}


def parse(names):
    features = []
    for name in names:
        feature = parse_feature(FEATURES[name].lstrip(),
                                filename="%s.feature" % name)
        features.append(feature)
    return features


def dump_tree(features):
    def dump_scenario(scenario, indent):
        log(indent + "scenario %r status=%s hook_failed=%s should_skip=%s" % (
            scenario.name, scenario.status.name, scenario.hook_failed,
            scenario.should_skip))
        for step in scenario.all_steps:
            log(indent + "  step %r status=%s hook_failed=%s error=%r" % (
                step.name, step.status.name, step.hook_failed,
                normalize(step.error_message or u"")))

    def dump_container(container, indent):
        log(indent + "%s %r status=%s hook_failed=%s error=%r" % (
            container.type, container.name, container.status.name,
            container.hook_failed, normalize(container.error_message or u"")))
        for item in container.run_items:
            if item.type == "rule":
                dump_container(item, indent + "  ")
            elif item.type == "scenario_outline":
                log(indent + "  outline %r status=%s" % (item.name,
                                                         item.status.name))
                for scenario in item._scenarios:
                    dump_scenario(scenario, indent + "    ")
            else:
                dump_scenario(item, indent + "  ")
    for feature in features:
        dump_container(feature, "  TREE ")


def run_case(title, feature_names, args=None, hooks=None, rerun=False,
             features_as_iterator=False, prepare=None):
    del LOG[:]
    del SEEN_MATCHES[:]
    print("=" * 70)
    print("CASE: %s  features=%s args=%s" % (title, feature_names, args))
    config = Configuration(command_args=list(args or []), load_config=False)
    config.reporters = [RecReporter(config)]
    features = parse(feature_names)
    run_features = features
    if features_as_iterator:
        run_features = iter(features)
    runner = ModelRunner(config, run_features, step_registry=make_registry())
    runner.formatters = [RecFormatter(StreamOpener(stream=io.StringIO()), config),
                         RecFormatter(StreamOpener(stream=io.StringIO()), config)]
    runner.hooks = hooks or {}
    if prepare:
        prepare(runner, features)
    captured_out = io.StringIO()
    captured_err = io.StringIO()
    real_stdout = sys.stdout
    real_stderr = sys.stderr
    outcome = None
    sys.stdout = captured_out
    sys.stderr = captured_err
    try:
        try:
            outcome = "returned %r" % (runner.run(),)
            if rerun:
                log("  -- RERUN run_model()")
                outcome += " / rerun returned %r" % (runner.run_model(features),)
        except BaseException as e:  # pylint: disable=broad-except
            outcome = "raised %s: %s" % (e.__class__.__name__, e)
    finally:
        sys.stdout = real_stdout
        sys.stderr = real_stderr
    print("OUTCOME:", outcome)
    print("aborted=%r hook_failures=%r undefined=%r" % (
        runner.aborted, runner.hook_failures,
        [step.name for step in runner.undefined_steps]))
    print("context.failed=%r cleanup_errors=%r" % (
        runner.context._root.get("failed"),
        runner.context._root.get("cleanup_errors")))
    dump_tree(features)
    for line in LOG:
        print(line)
    print("-- STDOUT:")
    print(normalize(captured_out.getvalue()))
    print("-- STDERR:")
    print(normalize(captured_err.getvalue()))


# ---------------------------------------------------------------------------
# SUBPROCESS: python -m behave
# ---------------------------------------------------------------------------
STEPS_PY = u'''
from behave import step
from behave.api.pending_step import StepNotImplementedError

@step(u"a passing step")
def step_pass(context):
    pass

@step(u"a failing step")
def step_fail(context):
    assert False, "boom"

@step(u"an erroring step")
def step_error(context):
    raise RuntimeError("kaput")

@step(u"a pending step")
def step_pending(context):
    raise StepNotImplementedError("todo")

@step(u"a step that interrupts")
def step_interrupt(context):
    raise KeyboardInterrupt()
'''


def run_behave_subprocess(title, feature_files, environment=None, args=None):
    print("=" * 70)
    print("SUBPROCESS: %s args=%s" % (title, args))
    workdir = tempfile.mkdtemp(prefix="c01twin")
    try:
        steps_dir = os.path.join(workdir, "features", "steps")
        os.makedirs(steps_dir)
        with io.open(os.path.join(steps_dir, "steps.py"), "w",
                     encoding="utf-8") as f:
            f.write(STEPS_PY)
        for filename, text in sorted(feature_files.items()):
            with io.open(os.path.join(workdir, "features", filename), "w",
                         encoding="utf-8") as f:
                f.write(text.lstrip())
        if environment:
            with io.open(os.path.join(workdir, "features", "environment.py"),
                         "w", encoding="utf-8") as f:
                f.write(environment)
        env = dict(os.environ)
        env["PYTHONPATH"] = "/tmp/wtV/C01"
        env["PYTHONDONTWRITEBYTECODE"] = "1"
        env.pop("COLUMNS", None)
        command = [sys.executable, "-m", "behave", "--no-color", "-f", "plain"]
        command += list(args or [])
        proc = subprocess.Popen(command, cwd=workdir, env=env,
                                stdout=subprocess.PIPE, stderr=subprocess.STDOUT)
        output = proc.communicate()[0].decode("utf-8", "replace")
        output = output.replace(workdir, "<WORKDIR>")
        print("EXIT-CODE:", proc.returncode)
        print(normalize(output))
    finally:
        shutil.rmtree(workdir, ignore_errors=True)


def subprocess_cases():
    run_behave_subprocess("all pass", {"a.feature": F_PASS_SUB})
    run_behave_subprocess("one fail, three features",
                          {"a.feature": F_PASS_SUB, "b.feature": F_FAIL_SUB,
                           "c.feature": F_PASS_SUB})
    run_behave_subprocess("one fail, three features, --stop",
                          {"a.feature": F_PASS_SUB, "b.feature": F_FAIL_SUB,
                           "c.feature": F_PASS_SUB}, args=["--stop"])
    run_behave_subprocess("undefined", {"a.feature": F_UNDEF_SUB})
    run_behave_subprocess("undefined dry-run", {"a.feature": F_UNDEF_SUB},
                          args=["--dry-run"])
    run_behave_subprocess("fail dry-run", {"a.feature": F_FAIL_SUB},
                          args=["--dry-run"])
    run_behave_subprocess("pending", {"a.feature": F_PENDING_SUB})
    run_behave_subprocess("pending --wip", {"a.feature": F_PENDING_SUB},
                          args=["--wip"])
    run_behave_subprocess("interrupt",
                          {"a.feature": F_INTERRUPT_SUB, "b.feature": F_PASS_SUB})
    run_behave_subprocess("tags exclude failing", {"a.feature": F_FAIL_SUB,
                                                   "b.feature": F_PASS_SUB},
                          args=["--tags=not @bad"])
    run_behave_subprocess("before_all raises", {"a.feature": F_PASS_SUB},
                          environment=u"def before_all(context):\n"
                                      u"    raise RuntimeError('no start')\n")
    run_behave_subprocess("after_all raises", {"a.feature": F_PASS_SUB},
                          environment=u"def after_all(context):\n"
                                      u"    raise RuntimeError('no end')\n")
    run_behave_subprocess("testrun cleanup raises", {"a.feature": F_PASS_SUB},
                          environment=u"def bad():\n"
                                      u"    raise RuntimeError('bad cleanup')\n"
                                      u"def before_all(context):\n"
                                      u"    context.add_cleanup(bad)\n")
    run_behave_subprocess("after_scenario raises", {"a.feature": F_PASS_SUB},
                          environment=u"def after_scenario(context, scenario):\n"
                                      u"    raise RuntimeError('oops')\n")
    run_behave_subprocess("parse error", {"a.feature": u"Feature: x\n  Scenario: y\n    Bogus line\n"})
    run_behave_subprocess("no features", {}, args=["nowhere"])


F_PASS_SUB = u"""
Feature: pass
  Scenario: p1
    Given a passing step
  Scenario: p2
    Given a passing step
"""
F_FAIL_SUB = u"""
Feature: fail
  Scenario: f0
    Given a passing step
  @bad
  Scenario: f1
    Given a failing step
    Then a passing step
  @bad
  Scenario: f2
    Given an erroring step
"""
F_UNDEF_SUB = u"""
Feature: undef
  Scenario: u1
    Given a passing step
    When an unknown step
    Then a passing step
"""
F_PENDING_SUB = u"""
Feature: pending
  @wip
  Scenario: w1
    Given a pending step
    Then a passing step
"""
F_INTERRUPT_SUB = u"""
Feature: interrupt
  Scenario: i1
    Given a step that interrupts
  Scenario: i2
    Given a passing step
"""


# ---------------------------------------------------------------------------
# CASES
# ---------------------------------------------------------------------------
def common_cases():
    run_case("no features", [])
    run_case("single pass", ["pass"])
    run_case("single pass with hooks", ["pass"], hooks=make_hooks())
    run_case("pass fail pass", ["pass", "fail", "pass"])
    run_case("pass fail pass --stop", ["pass", "fail", "pass"], args=["--stop"])
    run_case("pass fail pass --stop hooks", ["pass", "fail", "pass"],
             args=["--stop"], hooks=make_hooks())
    run_case("fail first --stop", ["fail", "pass", "empty"], args=["--stop"])
    run_case("mix", ["mix"])
    run_case("mix hooks", ["mix"], hooks=make_hooks())
    run_case("mix --stop", ["mix", "pass"], args=["--stop"])
    run_case("mix dry-run", ["mix", "fail"], args=["--dry-run"],
             hooks=make_hooks())
    run_case("mix --wip", ["mix", "pass"], args=["--wip"])
    run_case("mix show-skipped tags", ["mix", "fail"],
             args=["--tags=@wip or @stag", "--show-skipped"])
    run_case("mix no-skipped tags", ["mix", "fail"],
             args=["--tags=@wip or @stag", "--no-skipped"])
    run_case("rules", ["rules"], hooks=make_hooks())
    run_case("rules --stop", ["rules", "pass"], args=["--stop"])
    run_case("rules tags=ex2", ["rules"], args=["--tags=@ex2"],
             hooks=make_hooks())
    run_case("rules tags=not slow", ["rules"], args=["--tags=not @slow"])
    run_case("rules name select", ["rules", "fail"], args=["--name=R1", "--name=F2"],
             hooks=make_hooks())
    run_case("rules dry-run", ["rules"], args=["--dry-run"])
    run_case("outline", ["outline"])
    run_case("outline --stop", ["outline", "pass"], args=["--stop"])
    run_case("interrupt in step", ["pass", "interrupt", "pass"],
             hooks=make_hooks())
    run_case("abort in step", ["abort", "pass"])
    run_case("cleanup error in scenario", ["cleanup", "pass"])
    run_case("empty + bytag", ["empty", "bytag", "pass"],
             args=["--tags=not @skipme"])
    run_case("bytag only (nothing selected)", ["bytag"],
             args=["--tags=not @skipme"], hooks=make_hooks())
    run_case("features as iterator", ["pass", "fail", "pass"],
             args=["--stop"], features_as_iterator=True)
    run_case("rerun run_model: undefined", ["mix"], rerun=True)
    run_case("rerun run_model: pass", ["pass"], rerun=True, hooks=make_hooks())

    # -- ONE RAISING HOOK:
    for hook_name in HOOK_NAMES:
        run_case("raising hook %s" % hook_name, ["pass", "rules", "pass"],
                 hooks=make_hooks(raising=hook_name))
    run_case("raising before_tag stag only", ["fail"],
             hooks=make_hooks(raising="before_tag", raise_on="stag"))
    run_case("raising after_scenario F2 only --stop", ["fail", "pass"],
             args=["--stop"],
             hooks=make_hooks(raising="after_scenario", raise_on="F2"))
    run_case("raising before_feature second --stop", ["pass", "fail", "pass"],
             args=["--stop"],
             hooks=make_hooks(raising="before_feature", raise_on="one-fail"))
    run_case("raising before_scenario dry-run (hooks not called)", ["pass"],
             args=["--dry-run"], hooks=make_hooks(raising="before_scenario"))
    run_case("raising before_step verbose", ["pass"], args=["--verbose"],
             hooks=make_hooks(raising="before_step"))
    for hook_name in ("before_feature", "before_scenario", "after_scenario",
                      "before_step", "after_feature", "before_tag"):
        run_case("KeyboardInterrupt in %s" % hook_name, ["pass", "fail", "pass"],
                 hooks=make_hooks(raising=hook_name, exc=KeyboardInterrupt))
    for hook_name in ("before_all", "after_all"):
        run_case("KeyboardInterrupt in %s" % hook_name, ["pass"],
                 hooks=make_hooks(raising=hook_name, exc=KeyboardInterrupt))

    # -- HOOKS WITH SPECIAL EFFECTS:
    def skip_in_hook(name, context, arg):
        if name == "before_scenario" and arg.name in ("F1", "R1-a"):
            arg.mark_skipped()
        if name == "before_feature" and arg.name == "all-pass":
            arg.skip("feature excluded by hook")
        if name == "before_rule" and arg.name == "second rule":
            arg.mark_skipped()
    run_case("hooks skip model elements", ["pass", "fail", "rules"],
             hooks=make_hooks(special=skip_in_hook))

    def cleanup_in_hook(name, context, arg):
        def bad_cleanup():
            log("    CLEANUP bad (registered in %s)" % name)
            raise ValueError("cleanup of %s broke" % name)
        if name in ("before_all", "before_feature", "before_rule"):
            context.add_cleanup(bad_cleanup)
    run_case("failing cleanups at all levels", ["pass", "rules"],
             hooks=make_hooks(special=cleanup_in_hook))

    def cleanup_all_only(name, context, arg):
        def bad_cleanup():
            log("    CLEANUP bad testrun cleanup")
            raise ValueError("testrun cleanup broke")
        if name == "before_all":
            context.add_cleanup(bad_cleanup)
    run_case("failing testrun cleanup only", ["pass"],
             hooks=make_hooks(special=cleanup_all_only))

    def cleanup_ignored(name, context, arg):
        def bad_cleanup():
            raise ValueError("ignored cleanup error")
        if name == "before_all":
            context.fail_on_cleanup_errors = False
            context.add_cleanup(bad_cleanup)
    run_case("testrun cleanup error not failing", ["pass"],
             hooks=make_hooks(special=cleanup_ignored))

    def abort_in_hook(name, context, arg):
        if name == "after_scenario" and arg.name == "P1":
            context.abort()
    run_case("abort requested in after_scenario", ["pass", "pass"],
             hooks=make_hooks(special=abort_in_hook))

    def abort_in_before_all(name, context, arg):
        if name == "before_all":
            context.abort()
    run_case("abort requested in before_all", ["pass", "fail"],
             hooks=make_hooks(special=abort_in_before_all))


F_STEPS = u"""
Feature: step-loop
  Background: sbg
    Given passes 0

  Scenario: L-fail-then-undefined
    Given a failing step
    When an unknown step
    Then a passing step
    And another unknown step
    And a pending step

  Scenario: L-undefined-first
    Given an unknown step
    When a failing step
    Then yet another unknown step

  Scenario: L-two-failures
    Given a failing step
    When an erroring step
    Then a passing step
    And a pending step
    And an unknown step
    And a passing step

  Scenario: L-skip-then-undefined
    Given a step that skips the scenario
    When an unknown step
    Then a failing step

  @off
  Scenario: L-disabled-with-undefined
    Given an unknown step
    Then a failing step

  @wip
  Scenario: L-wip-pending-then-undefined
    Given a pending step
    When an unknown step
    Then a passing step

  Scenario Outline: L-outline <kind>
    Given a <kind> step
    Then an unknown <kind> step
    Examples:
      | kind    |
      | passing |
      | failing |
      | pending |
"""

F_BG_FAIL = u"""
Feature: background-fails
  Background: bad
    Given a passing step
    And a failing step
  Scenario: B1
    Given a passing step
    And an unknown step
  Scenario: B2
    Given an erroring step
"""


def twin_cases():
    """Scenario.run step loop: executed steps, steps after a failure
    (undefined-step discovery), dry-run protocol, disabled scenarios."""
    FEATURES["steps"] = F_STEPS
    FEATURES["bgfail"] = F_BG_FAIL

    def continue_after_failed(name, context, arg):
        if name == "before_scenario":
            arg.continue_after_failed_step = True

    def continue_for_some(name, context, arg):
        if name == "before_scenario" and "two" in arg.name:
            arg.continue_after_failed_step = True

    arg_variants = [
        [], ["--stop"], ["--dry-run"], ["--tags=not @off"],
        ["--tags=not @off", "--dry-run"], ["--tags=@off"],
        ["--tags=@off", "--show-skipped"], ["--tags=@wip", "--no-skipped"],
        ["--wip"], ["--dry-run", "--no-skipped"], ["--name=undefined"],
        ["--name=undefined", "--dry-run"], ["--no-capture"],
    ]
    for args in arg_variants:
        run_case("step loop", ["steps", "bgfail"], args=args)
        run_case("step loop with hooks", ["steps", "bgfail", "mix"], args=args,
                 hooks=make_hooks())
        run_case("step loop continue-after-failed", ["steps", "bgfail"],
                 args=args, hooks=make_hooks(special=continue_after_failed))
    run_case("step loop continue-after-failed for some", ["steps", "mix"],
             hooks=make_hooks(special=continue_for_some))
    run_case("step loop rerun", ["steps"], rerun=True)
    run_case("step loop rerun dry-run", ["steps"], args=["--dry-run"],
             rerun=True)
    for hook_name in ("before_scenario", "after_scenario", "before_step",
                      "after_step", "before_tag", "after_tag"):
        run_case("step loop raising %s" % hook_name, ["steps", "bgfail"],
                 hooks=make_hooks(raising=hook_name))
        run_case("step loop raising %s --stop" % hook_name, ["steps", "bgfail"],
                 args=["--stop"], hooks=make_hooks(raising=hook_name))
    run_case("step loop raising before_step for unknown-follow-up",
             ["steps"], hooks=make_hooks(raising="before_step",
                                         raise_on="a passing step"))

    def skip_some(name, context, arg):
        if name == "before_scenario" and "undefined" in arg.name:
            arg.skip("skipped in hook")
    run_case("step loop scenarios skipped in hook", ["steps"],
             hooks=make_hooks(special=skip_some))
    run_case("step loop scenarios skipped in hook, show-skipped", ["steps"],
             args=["--show-skipped"], hooks=make_hooks(special=skip_some))


def main():
    print("TWIN-FOCUS:", TWIN_FOCUS)
    twin_cases()
    common_cases()
    subprocess_cases()
    return 0


if __name__ == "__main__":
    sys.exit(main())
