# -*- coding: UTF-8 -*-
"""
Equivalence transcript for property C14 (summary conservation).

Runs a set of feature trees through behave's ModelRunner (in-process, with a
private step registry and hooks), feeds the resulting model to both summary
implementations (SummaryReporterV1 tables, SummaryCollector/SummaryReporterV2)
in all output formats, and prints everything that is observable:
texts, write-call logs per stream, counting tables (content and key order),
failing/errored scenario lists, exception types and messages, visitor call
logs and return values.
"""

from __future__ import absolute_import, print_function
import sys
sys.path.insert(0, "/tmp/wtU/C14")

import io
import collections
import contextlib
import traceback
from decimal import Decimal
from fractions import Fraction

import behave
from behave.configuration import Configuration
from behave.runner import ModelRunner
from behave.step_registry import StepRegistry
from behave.parser import parse_feature
from behave.model import Feature, Rule, Scenario, ScenarioOutline, Step
from behave.model_core import Status
from behave.model_visitor import ModelVisitor, IModelVisitor
from behave.exception import PendingStepError
from behave import summary as summary_module
from behave.summary import (
    SummaryCounts, SummaryCollector, StatusCounts, HookErrorCounts,
    STATUS_ORDER
)
from behave.reporter import summary as rsummary
from behave.reporter.summary import (
    SummaryReporterV1, SummaryReporterV2, SummaryReporter,
    format_summary_v1, format_summary_v2, format_summary_v3,
    format_summary_v1A, format_summary_v1B, format_summary_with_schema,
    select_format_summary_by_name, compute_summary_sum, pluralize,
)

assert behave.__file__.startswith("/tmp/wtU/C14/"), behave.__file__

OUT = []


def emit(text=""):
    OUT.append(text)


def describe_exception(e):
    return "%s: %s" % (e.__class__.__name__, e)


# ---------------------------------------------------------------------------
# RECORDING STREAM
# ---------------------------------------------------------------------------
class RecStream(object):
    def __init__(self, name, log):
        self.name = name
        self.log = log
        self.encoding = "UTF-8"

    def write(self, text):
        self.log.append((self.name, text))

    def flush(self):
        pass


# ---------------------------------------------------------------------------
# STEPS AND HOOKS
# ---------------------------------------------------------------------------
def make_registry():
    registry = StepRegistry()

    def step_passes(context):
        pass

    def step_fails(context):
        assert False, "XFAIL-STEP"

    def step_errors(context):
        raise RuntimeError("BOOM")

    def step_pending(context):
        raise PendingStepError("not yet")

    def step_aborts(context):
        raise KeyboardInterrupt()

    def step_with_value(context, value):
        if value == "bad":
            assert False, "bad value"
        elif value == "boom":
            raise ValueError("boom value")

    def step_skips(context):
        context.scenario.skip("skipped by step")

    registry.add_step_definition("step", "a passing step", step_passes)
    registry.add_step_definition("step", "a passing step HOOKED", step_passes)
    registry.add_step_definition("step", "a passing step with a bad before_step hook",
                                 step_passes)
    registry.add_step_definition("step", "a failing step", step_fails)
    registry.add_step_definition("step", "an erroring step", step_errors)
    registry.add_step_definition("step", "a pending step", step_pending)
    registry.add_step_definition("step", "an aborting step", step_aborts)
    registry.add_step_definition("step", 'a step with "{value}"', step_with_value)
    registry.add_step_definition("step", "a step that skips the scenario", step_skips)
    return registry


def make_hooks(call_log):
    def before_feature(context, feature):
        call_log.append("before_feature:%s" % feature.name)
        if "hook_error_before_feature" in feature.tags:
            raise RuntimeError("before_feature oops")

    def after_feature(context, feature):
        call_log.append("after_feature:%s:%s" % (feature.name, feature.status.name))
        if "hook_error_after_feature" in feature.tags:
            raise RuntimeError("after_feature oops")

    def before_rule(context, rule):
        call_log.append("before_rule:%s" % rule.name)
        if "hook_error_before_rule" in rule.tags:
            raise RuntimeError("before_rule oops")

    def after_rule(context, rule):
        call_log.append("after_rule:%s" % rule.name)

    def before_scenario(context, scenario):
        call_log.append("before_scenario:%s" % scenario.name)
        if "hook_error_before_scenario" in scenario.effective_tags:
            raise RuntimeError("before_scenario oops")
        if "hook_failed_before_scenario" in scenario.effective_tags:
            assert False, "before_scenario assert"

    def after_scenario(context, scenario):
        call_log.append("after_scenario:%s:%s" % (scenario.name, scenario.status.name))
        if "hook_error_after_scenario" in scenario.effective_tags:
            raise RuntimeError("after_scenario oops")

    def before_step(context, step):
        if step.name == "a passing step with a bad before_step hook":
            raise RuntimeError("before_step oops")

    def after_step(context, step):
        if "HOOKED" in step.name:
            raise RuntimeError("after_step oops")

    def before_tag(context, tag):
        if tag == "hook_error_before_tag":
            raise RuntimeError("before_tag oops")

    return dict(before_feature=before_feature, after_feature=after_feature,
                before_rule=before_rule, after_rule=after_rule,
                before_scenario=before_scenario, after_scenario=after_scenario,
                before_step=before_step, after_step=after_step,
                before_tag=before_tag)


# ---------------------------------------------------------------------------
# FEATURE TREES
# ---------------------------------------------------------------------------
FEATURE_PLAIN = u"""
Feature: Plain
  Background:
    Given a passing step

  Scenario: P1
    When a passing step
    Then a passing step

  Scenario: F1
    When a failing step
    Then a passing step

  Scenario: E1
    When an erroring step
    Then a passing step
    And a passing step

  Scenario: U1
    When an unknown step
    Then a passing step

  Scenario: N1
    When a pending step
    Then a passing step

  @skip
  Scenario: S1
    When a passing step
"""

FEATURE_OUTLINES = u"""
Feature: Outlines
  Scenario Outline: O-<v>
    Given a passing step
    When a step with "<v>"
    Then a passing step

    Examples: E1
      | v    |
      | good |
      | bad  |
      | boom |

    @skip
    Examples: E2
      | v     |
      | other |

  Scenario: After
    Given a passing step
"""

FEATURE_RULES = u"""
Feature: Rules
  Background: FB
    Given a passing step

  Scenario: Top
    When a passing step

  Rule: R1
    Background: RB
      Given a passing step

    Scenario: R1-S1
      When a passing step

    Scenario Outline: R1-O-<v>
      When a step with "<v>"

      Examples:
        | v    |
        | good |
        | bad  |

  Rule: R2
    Scenario: R2-S1
      When an erroring step
      Then a passing step

  @skip
  Rule: R3
    Scenario: R3-S1
      When a passing step

  Rule: R4-empty
"""

FEATURE_HOOKS = u"""
Feature: Hooks
  @hook_error_before_scenario
  Scenario: HB
    Given a passing step

  @hook_error_after_scenario
  Scenario: HA
    Given a passing step

  @hook_failed_before_scenario
  Scenario: HF
    Given a passing step

  @hook_error_before_tag
  Scenario: HT
    Given a passing step

  Scenario: HS
    Given a passing step HOOKED
    Then a passing step

  Scenario: HS2
    Given a passing step with a bad before_step hook
    Then a passing step

  Scenario: Fine
    Given a passing step

  @hook_error_before_rule
  Rule: HR
    Scenario: HR-S1
      Given a passing step
"""

FEATURE_HOOK_FEATURE = u"""
@hook_error_before_feature
Feature: HookFeature
  Scenario: X1
    Given a passing step
  Scenario: X2
    Given a failing step
"""

FEATURE_HOOK_AFTER_FEATURE = u"""
@hook_error_after_feature
Feature: HookAfterFeature
  Scenario: Y1
    Given a passing step
"""

FEATURE_ABORT = u"""
Feature: Abort
  Scenario: A1
    Given a passing step
  Scenario: A2
    Given an aborting step
    Then a passing step
  Scenario: A3
    Given a passing step
"""

FEATURE_SKIPPED = u"""
@skip
Feature: AllSkipped
  Scenario: K1
    Given a passing step
  Scenario Outline: K2-<v>
    Given a step with "<v>"
    Examples:
      | v |
      | a |
      | b |
"""

FEATURE_EMPTY = u"""
Feature: Empty
"""

FEATURE_SKIP_BY_STEP = u"""
Feature: SkipByStep
  Scenario: SS1
    Given a passing step
    When a step that skips the scenario
    Then a passing step
  Scenario: SS2
    Given a passing step
"""

FEATURE_ONE = u"""
Feature: One
  Scenario: Single
    Given a passing step
"""

TREES = {
    "plain": [("plain.feature", FEATURE_PLAIN)],
    "outlines": [("outlines.feature", FEATURE_OUTLINES)],
    "rules": [("rules.feature", FEATURE_RULES)],
    "hooks": [("hooks.feature", FEATURE_HOOKS)],
    "hook_feature": [("hook_feature.feature", FEATURE_HOOK_FEATURE),
                     ("hook_after_feature.feature", FEATURE_HOOK_AFTER_FEATURE),
                     ("one.feature", FEATURE_ONE)],
    "abort": [("abort.feature", FEATURE_ABORT), ("one.feature", FEATURE_ONE)],
    "skipped": [("skipped.feature", FEATURE_SKIPPED), ("empty.feature", FEATURE_EMPTY)],
    "skip_by_step": [("skip_by_step.feature", FEATURE_SKIP_BY_STEP)],
    "one": [("one.feature", FEATURE_ONE)],
    "none": [],
    "all": [("plain.feature", FEATURE_PLAIN), ("outlines.feature", FEATURE_OUTLINES),
            ("rules.feature", FEATURE_RULES), ("hooks.feature", FEATURE_HOOKS),
            ("skipped.feature", FEATURE_SKIPPED), ("empty.feature", FEATURE_EMPTY),
            ("one.feature", FEATURE_ONE)],
}

RUNS = [
    ("one", []),
    ("none", []),
    ("plain", ["--tags=not @skip"]),
    ("plain", ["--tags=not @skip", "--stop"]),
    ("plain", ["--dry-run"]),
    ("plain", ["--name=P1", "--name=U1"]),
    ("outlines", ["--tags=not @skip"]),
    ("outlines", ["--tags=not @skip", "--stop"]),
    ("outlines", ["--dry-run"]),
    ("rules", ["--tags=not @skip"]),
    ("rules", ["--tags=not @skip", "--stop"]),
    ("rules", ["--dry-run", "--tags=not @skip"]),
    ("rules", ["--name=R1"]),
    ("hooks", []),
    ("hooks", ["--stop"]),
    ("hook_feature", []),
    ("abort", []),
    ("skipped", ["--tags=not @skip"]),
    ("skip_by_step", []),
    ("all", ["--tags=not @skip"]),
    ("all", ["--tags=not @skip", "--stop"]),
    ("all", ["--dry-run"]),
]

FORMATS = ["v1", "v1A", "v1B", "v2", "v3", "passed_first", "entity_first", "bogus"]


# ---------------------------------------------------------------------------
# HELPERS
# ---------------------------------------------------------------------------
def parse_tree(tree_name):
    features = []
    for filename, text in TREES[tree_name]:
        features.append(parse_feature(text, filename=filename))
    return features


def make_config(args, userdata=None):
    command_args = ["--no-color", "--format=null"] + list(args)
    for name, value in (userdata or {}).items():
        command_args.append("-D")
        command_args.append("%s=%s" % (name, value))
    config = Configuration(command_args=command_args, load_config=False)
    config.reporters = []
    return config


def walk_scenarios(container):
    for item in container:
        if isinstance(item, Rule):
            for scenario in walk_scenarios(item):
                yield scenario
        elif isinstance(item, ScenarioOutline):
            for scenario in item.scenarios:
                yield scenario
        else:
            yield item


def walk_rules(feature):
    for item in feature:
        if isinstance(item, Rule):
            yield item


def census(features):
    counts = dict(features={}, rules={}, scenarios={}, steps={})
    failing, errored = [], []

    def bump(kind, status):
        counts[kind][status.name] = counts[kind].get(status.name, 0) + 1

    for feature in features:
        bump("features", feature.status)
        for rule in walk_rules(feature):
            bump("rules", rule.status)
        for scenario in walk_scenarios(feature):
            bump("scenarios", scenario.status)
            if scenario.status.is_failure():
                failing.append(scenario.name)
            elif scenario.status.is_error():
                errored.append(scenario.name)
            for step in scenario:
                bump("steps", step.status)
    return counts, failing, errored


def show_table(name, table):
    emit("    %s.order = %s" % (name, [str(getattr(k, "name", k)) for k in table.keys()]))
    emit("    %s.items = %s" % (name, sorted((str(getattr(k, "name", k)), v)
                                           for k, v in table.items())))


def show_log(log, indent="    "):
    for stream_name, text in log:
        emit("%s[%s] %r" % (indent, stream_name, text))


def show_reporter_v1(reporter):
    show_table("feature_summary", reporter.feature_summary)
    show_table("rule_summary", reporter.rule_summary)
    show_table("scenario_summary", reporter.scenario_summary)
    show_table("step_summary", reporter.step_summary)
    emit("    failed_scenarios = %s" % [s.name for s in reporter.failed_scenarios])
    emit("    errored_scenarios = %s" % [s.name for s in reporter.errored_scenarios])


def show_summary_counts(summary_counts):
    for name, counts in summary_counts.items():
        emit("    counts.%s = %s | all=%s | dict=%s" % (
            name, counts, counts.all, list(counts.as_dict().items())))
    emit("    counts.str = %r" % str(summary_counts))
    emit("    counts.bool = %r" % bool(summary_counts))


def show_collector(collector, exact_duration=True):
    show_summary_counts(collector.summary_counts)
    for attr in ("failed_features", "errored_features", "pending_features",
                 "failed_scenarios", "errored_scenarios", "pending_scenarios"):
        emit("    collector.%s = %s" % (attr, [x.name for x in getattr(collector, attr)]))
    if exact_duration:
        emit("    collector.duration = %r" % collector.duration)
    else:
        emit("    collector.duration >= 0: %r (%s)" % (
            collector.duration >= 0, type(collector.duration).__name__))
    emit("    collector.has_failures_or_errors = %r" % collector.has_failures_or_errors())


# ---------------------------------------------------------------------------
# PART 1: RUNS
# ---------------------------------------------------------------------------
def run_tree(tree_name, args):
    emit("=" * 78)
    emit("RUN tree=%s args=%s" % (tree_name, args))
    features = parse_tree(tree_name)
    config = make_config(args)
    call_log = []
    write_log = []
    reporter = SummaryReporterV1(config)
    reporter.stream = RecStream("run", write_log)
    reporter.show_duration = False
    reporter2 = SummaryReporterV2(config)
    reporter2.stream = RecStream("run2", write_log)
    reporter2.show_duration = False

    class EndGuard(object):
        """Reporter that keeps reporter2.end() errors from hiding others."""
        def __init__(self, inner):
            self.inner = inner
        def feature(self, feature):
            try:
                self.inner.feature(feature)
            except Exception as e:  # pylint: disable=broad-except
                emit("  reporter2.feature EXCEPTION %s" % describe_exception(e))
        def end(self):
            try:
                self.inner.end()
            except Exception as e:  # pylint: disable=broad-except
                emit("  reporter2.end EXCEPTION %s" % describe_exception(e))

    config.reporters = [reporter, EndGuard(reporter2)]
    runner = ModelRunner(config, features=features, step_registry=make_registry())
    runner.hooks = make_hooks(call_log)
    captured_stdout = io.StringIO()
    failed = None
    try:
        with contextlib.redirect_stdout(captured_stdout):
            failed = runner.run()
    except BaseException as e:  # pylint: disable=broad-except
        emit("  RUN EXCEPTION %s" % describe_exception(e))
    emit("  failed=%r aborted=%r hook_failures=%r undefined=%s" % (
        failed, runner.aborted, runner.hook_failures,
        [s.name for s in runner.undefined_steps]))
    emit("  hook calls: %s" % call_log)
    stdout_lines = [line for line in captured_stdout.getvalue().splitlines()
                    if line.startswith("HOOK-ERROR") or line.startswith("ABORTED")]
    emit("  stdout: %s" % stdout_lines)
    emit("  run reporter writes:")
    show_log(write_log)
    emit("  run reporter tables:")
    show_reporter_v1(reporter)
    emit("  run reporter2 (collector):")
    show_collector(reporter2.summary_collector, exact_duration=False)
    emit("    reporter2.failed_scenarios = %s" % [s.name for s in reporter2.failed_scenarios])
    emit("    reporter2.errored_scenarios = %s" % [s.name for s in reporter2.errored_scenarios])

    # -- CENSUS OF THE MODEL:
    counts, failing, errored = census(features)
    emit("  census:")
    for kind in ("features", "rules", "scenarios", "steps"):
        emit("    %s = %s total=%s" % (kind, sorted(counts[kind].items()),
                                       sum(counts[kind].values())))
    emit("    failing = %s" % failing)
    emit("    errored = %s" % errored)
    emit("  statuses:")
    for feature in features:
        emit("    F %s: %s hook_failed=%s" % (feature.name, feature.status.name,
                                              feature.hook_failed))
        for rule in walk_rules(feature):
            emit("      R %s: %s hook_failed=%s" % (rule.name, rule.status.name,
                                                    rule.hook_failed))
        for scenario in walk_scenarios(feature):
            emit("      S %s: %s hook_failed=%s steps=%s" % (
                scenario.name, scenario.status.name, scenario.hook_failed,
                ["%s%s" % (step.status.name, "(hook_failed)" if step.hook_failed else "")
                 for step in scenario]))

    # -- POST-HOC: All output formats, both reporters, deterministic durations.
    for feature in features:
        for scenario in walk_scenarios(feature):
            for step in scenario:
                # -- DETERMINISTIC DURATIONS (binary fractions: exact sums).
                step.duration = 0.0 if step.status.is_untested() else 0.25
    for output_format in FORMATS:
        userdata = {"behave.reporter.summary.output_format": output_format}
        for reporter_class in (SummaryReporterV1, SummaryReporterV2):
            emit("  POSTHOC %s format=%s" % (reporter_class.__name__, output_format))
            config2 = make_config(args, userdata)
            log2 = []
            stdout2 = io.StringIO()
            reporter3 = reporter_class(config2)
            reporter3.stream = RecStream("self", log2)
            reporter3.show_duration = False
            emit("    output_format=%r" % reporter3.output_format)
            with contextlib.redirect_stdout(stdout2):
                for feature in features:
                    try:
                        reporter3.feature(feature)
                    except Exception as e:  # pylint: disable=broad-except
                        emit("    feature(%s) EXCEPTION %s" % (feature.name,
                                                             describe_exception(e)))
                try:
                    reporter3.end()
                except Exception as e:  # pylint: disable=broad-except
                    emit("    end() EXCEPTION %s" % describe_exception(e))
                # -- EXPLICIT STREAM: print_summary(stream=other)
                other = RecStream("other", log2)
                try:
                    reporter3.print_summary(stream=other, with_duration=False)
                except Exception as e:  # pylint: disable=broad-except
                    emit("    print_summary(other) EXCEPTION %s" % describe_exception(e))
                try:
                    reporter3.print_problematic_scenarios(stream=other)
                except Exception as e:  # pylint: disable=broad-except
                    emit("    print_problematic_scenarios(other) EXCEPTION %s" %
                         describe_exception(e))
            show_log(log2)
            emit("    stdout=%r" % stdout2.getvalue())
            if reporter_class is SummaryReporterV1:
                show_reporter_v1(reporter3)
            else:
                show_collector(reporter3.summary_collector)

    # -- DURATION LINE (fixed duration):
    config3 = make_config(args)
    for reporter_class in (SummaryReporterV1, SummaryReporterV2):
        log3 = []
        reporter4 = reporter_class(config3)
        reporter4.stream = RecStream("self", log3)
        for feature in features:
            try:
                reporter4.feature(feature)
            except Exception as e:  # pylint: disable=broad-except
                emit("    feature(%s) EXCEPTION %s" % (feature.name, describe_exception(e)))
        reporter4.duration = 123.456
        try:
            reporter4.print_summary()
        except Exception as e:  # pylint: disable=broad-except
            emit("    print_summary EXCEPTION %s" % describe_exception(e))
        emit("  DURATION %s:" % reporter_class.__name__)
        show_log(log3)

    # -- COLLECTOR DIRECTLY:
    emit("  COLLECTOR visit_many:")
    collector = SummaryCollector()
    result = collector.visit_many(features)
    emit("    result=%r" % result)
    show_collector(collector)
    emit("  COLLECTOR call-adapter:")
    collector = SummaryCollector(SummaryCounts())
    result = collector(features)
    emit("    result(list)=%r" % result)
    result = collector(tuple(features))
    emit("    result(tuple)=%r" % result)
    for feature in features:
        emit("    result(feature)=%r" % collector(feature))
        for item in feature:
            emit("    result(%s)=%r" % (item.__class__.__name__, collector(item)))
    show_summary_counts(collector.summary_counts)
    return features


# ---------------------------------------------------------------------------
# PART 2: VISITOR PROTOCOL
# ---------------------------------------------------------------------------
class LoggingVisitor(IModelVisitor):
    """Delegation-based visitor that can cancel a visit."""
    def __init__(self, log, cancel_on=None, cancel_value=False):
        self.log = log
        self.cancel_on = cancel_on
        self.cancel_value = cancel_value

    def _on(self, kind, item):
        self.log.append("%s:%s" % (kind, item.name))
        if self.cancel_on == (kind, item.name):
            return self.cancel_value
        if self.cancel_on == (kind, None):
            return self.cancel_value
        return None

    def on_feature(self, feature):
        return self._on("feature", feature)

    def on_rule(self, rule):
        return self._on("rule", rule)

    def on_scenario_outline(self, scenario_outline):
        return self._on("outline", scenario_outline)

    def on_scenario(self, scenario):
        return self._on("scenario", scenario)

    def on_step(self, step):
        return self._on("step", step)


class TruthyVisitor(LoggingVisitor):
    def _on(self, kind, item):
        LoggingVisitor._on(self, kind, item)
        return "yes"


class InheritedVisitor(ModelVisitor):
    """Inheritance-based visitor that overrides visit methods."""
    def __init__(self, log):
        super(InheritedVisitor, self).__init__()
        self.log = log

    def on_scenario(self, scenario):
        self.log.append("on_scenario:%s" % scenario.name)

    def on_step(self, step):
        self.log.append("on_step:%s" % step.name)
        return step.name != "a failing step"

    def visit_rule(self, rule):
        self.log.append("visit_rule(override):%s" % rule.name)
        return super(InheritedVisitor, self).visit_rule(rule)

    def visit_scenario(self, scenario):
        self.log.append("visit_scenario(override):%s" % scenario.name)
        return super(InheritedVisitor, self).visit_scenario(scenario)


class MyScenario(Scenario):
    pass


class NotAVisitor(object):
    pass


def part_visitor():
    emit("=" * 78)
    emit("VISITOR PROTOCOL")
    features = parse_tree("rules") + parse_tree("outlines") + parse_tree("skipped") \
        + parse_tree("none") + [parse_feature(FEATURE_EMPTY, filename="empty.feature")]
    cancel_cases = [
        None,
        ("feature", None), ("feature", "Outlines"),
        ("rule", None), ("rule", "R2"),
        ("outline", None), ("outline", "R1-O-<v>"),
        ("scenario", None), ("scenario", "R1-S1"), ("scenario", "O-bad -- @1.2 E1"),
        ("step", None), ("step", 'a step with "bad"'),
    ]
    for cancel_on in cancel_cases:
        for cancel_value in (False, 0, "", [], True, 1):
            if cancel_on is None and cancel_value is not False:
                continue
            log = []
            visitor = ModelVisitor(LoggingVisitor(log, cancel_on, cancel_value))
            result = visitor.visit_many(features)
            emit("  cancel_on=%s value=%r -> result=%r calls=%d" % (
                cancel_on, cancel_value, result, len(log)))
            emit("    %s" % log)
            per_item = []
            for feature in features:
                per_item.append(visitor.visit(feature))
                per_item.append(visitor.visit_feature(feature))
                per_item.append(visitor.visit_items_of(feature))
                for item in feature:
                    per_item.append(visitor.visit(item))
                    per_item.append(visitor(item))
                    if isinstance(item, ScenarioOutline):
                        per_item.append(visitor.visit_scenario_outline(item))
                        for scenario in item.scenarios:
                            per_item.append(visitor.visit(scenario))
                    elif isinstance(item, Rule):
                        per_item.append(visitor.visit_rule(item))
                    else:
                        per_item.append(visitor.visit_scenario(item))
                        for step in item:
                            per_item.append(visitor.visit(step))
                            per_item.append(visitor.visit_step(step))
            emit("    per-item results=%r" % per_item)
            emit("    total calls=%d last=%s" % (len(log), log[-3:]))

    log = []
    visitor = ModelVisitor(TruthyVisitor(log))
    emit("  truthy: result=%r calls=%d" % (visitor(features), len(log)))

    log = []
    visitor = InheritedVisitor(log)
    emit("  inherited: result=%r" % visitor(parse_tree("plain") + parse_tree("rules")))
    emit("    %s" % log)

    # -- INSTANCE-LEVEL OVERRIDES of visit methods are honoured (lookup by name).
    log = []
    visitor = ModelVisitor(LoggingVisitor(log))
    visitor.visit_feature = lambda feature: log.append("patched:%s" % feature.name) or "PATCHED"
    emit("  patched visit_feature: %r %r" % (visitor.visit(features[0]),
                                            visitor.visit_many(features)))
    emit("    %s" % log)

    # -- SUBCLASSES OF MODEL CLASSES:
    feature = parse_tree("one")[0]
    scenario = feature.scenarios[0]
    my_scenario = MyScenario(scenario.filename, scenario.line, scenario.keyword,
                             u"Mine", steps=list(scenario.steps))
    log = []
    visitor = ModelVisitor(LoggingVisitor(log))
    emit("  subclass: %r %s" % (visitor.visit(my_scenario), log))

    # -- UNSUPPORTED ITEMS:
    visitor = ModelVisitor(LoggingVisitor([]))
    for bad in (None, 42, "text", object, {"a": 1}, Status.passed, Feature, 1.5):
        try:
            emit("  visit(%r) -> %r" % (bad, visitor.visit(bad)))
        except Exception as e:  # pylint: disable=broad-except
            emit("  visit(%r) EXCEPTION %s" % (bad, describe_exception(e)))
        try:
            emit("  call(%r) -> %r" % (bad, visitor(bad)))
        except Exception as e:  # pylint: disable=broad-except
            emit("  call(%r) EXCEPTION %s" % (bad, describe_exception(e)))
    for bad in ([1, 2], (None,), [features[0], 3], [], ()):
        try:
            emit("  call(seq) -> %r" % (visitor(bad),))
        except Exception as e:  # pylint: disable=broad-except
            emit("  call(seq) EXCEPTION %s" % describe_exception(e))
    for method_name in ("visit_feature", "visit_rule", "visit_scenario_outline",
                        "visit_scenario", "visit_step"):
        for bad in (None, features[0], features[0].scenarios[0]):
            try:
                value = getattr(visitor, method_name)(bad)
                emit("  %s(%s) -> %r" % (method_name, bad.__class__.__name__, value))
            except Exception as e:  # pylint: disable=broad-except
                emit("  %s(%s) EXCEPTION %s" % (method_name, bad.__class__.__name__,
                                                e.__class__.__name__))
    try:
        ModelVisitor(NotAVisitor())
        emit("  ModelVisitor(NotAVisitor) accepted")
    except AssertionError as e:
        emit("  ModelVisitor(NotAVisitor) AssertionError %s" % str(e)[:40])
    for value in (None, True, False, 0, 1, "", "x", [], [0]):
        emit("  should_continue_visit(%r) = %r" % (
            value, ModelVisitor.should_continue_visit(value)))


# ---------------------------------------------------------------------------
# PART 3: FORMAT FUNCTIONS ON HAND-MADE TABLES
# ---------------------------------------------------------------------------
class OddKeyDict(dict):
    pass


def part_formats():
    emit("=" * 78)
    emit("FORMAT FUNCTIONS")
    names = [status.name for status in STATUS_ORDER]
    tables = [
        {},
        {"all": 0},
        {"all": 7},
        {"passed": 0},
        {"passed": 1},
        {"passed": 2},
        {"passed": 1, "all": 1},
        {"passed": 1, "failed": 1},
        {"failed": 1},
        {"failed": 0, "skipped": 0},
        {"skipped": 1, "untested": 0},
        {"all": 3, "passed": 1, "failed": 1, "error": 1},
        {"all": 1, "passed": 0, "failed": 0, "error": 0, "hook_error": 0,
         "skipped": 0, "untested": 1},
        {"all": 99, "passed": 1},
        dict((name, 0) for name in names),
        dict((name, 1) for name in names),
        dict((name, index) for index, name in enumerate(names)),
        dict((name, index) for index, name in enumerate(reversed(names))),
        {"passed": 3, "cleanup_error": 2, "executing": 1, "bogus": 5},
        {"passed": 1000, "failed": 10000, "skipped": 12, "all": 11012},
        {"passed": 1.5, "failed": 0.0, "undefined": 0.0, "all": 1.5},
        {"passed": True, "failed": False, "untested": False},
        {Status.passed: 2, Status.failed: 1},
        StatusCounts(),
        StatusCounts.from_counts(passed=2, failed=1, undefined=1),
        StatusCounts.from_counts(passed=1),
        HookErrorCounts(),
        HookErrorCounts.from_counts(on_feature=1, on_step=2),
        OddKeyDict(passed=4, failed=0, error=0, skipped=2),
        {"passed": None},
        {"passed": 1, "failed": None, "untested": None},
        {"failed": float("nan"), "untested": float("nan"), "passed": 2},
        {"untested": -1, "error": -0.0, "passed": -2, "all": -3},
        {"passed": Decimal("0"), "error": Decimal("0"), "failed": Decimal("2")},
        {"passed": Fraction(0), "undefined": Fraction(0, 3), "failed": Fraction(4, 2)},
        {"passed": 0j, "error": 0j, "failed": 1j},
        {"passed": "1", "error": "0", "failed": ""},
        {"passed": [], "error": [], "failed": [0]},
        {"all": None, "passed": 2, "failed": 3},
        {"all": 0, "passed": 2, "failed": 3},
        {"all": "", "passed": 2},
        collections.OrderedDict([("untested", 1), ("passed", 1)]),
        collections.defaultdict(int, passed=1),
        collections.Counter(passed=2, failed=0, untested=0, error=1),
    ]
    format_funcs = [
        ("v1", format_summary_v1), ("v1A", format_summary_v1A),
        ("v1B", format_summary_v1B), ("v2", format_summary_v2),
        ("v3", format_summary_v3),
    ]
    for table in tables:
        emit("  TABLE %r" % (table,))
        for statement_type in ("feature", "step", "hook.errors", ""):
            for name, func in format_funcs:
                try:
                    emit("    %s(%r) -> %r" % (name, statement_type,
                                              func(statement_type, table)))
                except Exception as e:  # pylint: disable=broad-except
                    emit("    %s(%r) EXCEPTION %s" % (name, statement_type,
                                                     describe_exception(e)))
        variants = [
            dict(),
            dict(schema=""),
            dict(item_schema=""),
            dict(schema="{count}|{statement}|{suffix}|{parts}|{end}"),
            dict(item_schema="{name}={value}"),
            dict(use_passed_for_all=True),
            dict(use_passed_for_all=True, item_schema="{name}~{value}"),
            dict(use_passed_for_all=True, end=""),
            dict(end="<END>"),
            dict(schema="{missing}"),
            dict(item_schema="{missing}"),
        ]
        for kwargs in variants:
            try:
                text = format_summary_with_schema("scenario", table, **kwargs)
                emit("    with_schema(%s) -> %r" % (sorted(kwargs.items()), text))
            except Exception as e:  # pylint: disable=broad-except
                emit("    with_schema(%s) EXCEPTION %s" % (sorted(kwargs.items()),
                                                          describe_exception(e)))
        try:
            emit("    compute_summary_sum -> %r" % compute_summary_sum(table))
        except Exception as e:  # pylint: disable=broad-except
            emit("    compute_summary_sum EXCEPTION %s" % describe_exception(e))

    for bad in (None, 3, "passed", ["passed"]):
        for name, func in format_funcs:
            try:
                emit("  %s(bad=%r) -> %r" % (name, bad, func("step", bad)))
            except Exception as e:  # pylint: disable=broad-except
                emit("  %s(bad=%r) EXCEPTION %s" % (name, bad, describe_exception(e)))

    for name in ("v1", "v2", "v3", "v1A", "v1B", "", "V1", None, "bogus"):
        stdout = io.StringIO()
        with contextlib.redirect_stdout(stdout):
            func = select_format_summary_by_name(name)
        emit("  select(%r) -> %s stdout=%r" % (name, func.__name__, stdout.getvalue()))
    for word, count in (("step", 0), ("step", 1), ("step", 2), ("", 1), ("x", -1),
                        ("x", 1.0), ("x", True), ("x", None)):
        emit("  pluralize(%r, %r) -> %r" % (word, count, pluralize(word, count)))
    emit("  pluralize default -> %r %r" % (pluralize("a"), pluralize("a", 3, "es")))
    emit("  OPTIONAL_V1=%s" % [s.name for s in rsummary.OPTIONAL_STATUS_PARTS_V1])
    emit("  OPTIONAL_V2=%s" % [s.name for s in rsummary.OPTIONAL_STATUS_PARTS_V2])
    emit("  STATUS_ORDER=%s" % [s.name for s in STATUS_ORDER])
    emit("  SummaryReporter is %s" % SummaryReporter.__name__)


# ---------------------------------------------------------------------------
# PART 4: REPORTER/COLLECTOR WITH FORGED STATUSES (every status, every level)
# ---------------------------------------------------------------------------
def part_forged():
    emit("=" * 78)
    emit("FORGED STATUSES")
    all_statuses = list(Status)
    for status in all_statuses:
        for level in ("feature", "rule", "scenario", "step"):
            feature = parse_feature(FEATURE_RULES, filename="rules.feature")
            rule = list(walk_rules(feature))[0]
            scenario = rule.scenarios[0]
            step = scenario.steps[0]
            target = dict(feature=feature, rule=rule, scenario=scenario, step=step)[level]
            # -- FORGE: Status cache of the element (public test-support API).
            if level == "step":
                target.status = status
            else:
                target.set_status(status)
            if status in (Status.failed, Status.hook_error):
                target.hook_failed = True
            emit("  FORGED %s.status=%s (seen: %s)" % (level, status.name,
                                                      target.status.name))
            config = make_config([])
            log = []
            reporter = SummaryReporterV1(config)
            reporter.stream = RecStream("self", log)
            reporter.show_duration = False
            try:
                reporter.feature(feature)
            except Exception as e:  # pylint: disable=broad-except
                emit("    V1.feature EXCEPTION %s" % describe_exception(e))
            try:
                reporter.end()
            except Exception as e:  # pylint: disable=broad-except
                emit("    V1.end EXCEPTION %s" % describe_exception(e))
            show_log(log)
            show_reporter_v1(reporter)

            collector = SummaryCollector()
            try:
                emit("    collector.visit -> %r" % collector.visit(feature))
            except Exception as e:  # pylint: disable=broad-except
                emit("    collector.visit EXCEPTION %s" % describe_exception(e))
            show_collector(collector)
            for name, func in (("v1", format_summary_v1), ("v1B", format_summary_v1B),
                               ("v3", format_summary_v3)):
                for kind, counts in collector.summary_counts.items():
                    try:
                        emit("    %s(%s) -> %r" % (name, kind, func(kind, counts)))
                    except Exception as e:  # pylint: disable=broad-except
                        emit("    %s(%s) EXCEPTION %s" % (name, kind, describe_exception(e)))
                    try:
                        emit("    %s(%s.as_dict) -> %r" % (
                            name, kind, func(kind, counts.as_dict())))
                    except Exception as e:  # pylint: disable=broad-except
                        emit("    %s(%s.as_dict) EXCEPTION %s" % (
                            name, kind, describe_exception(e)))

    # -- COLLECTOR/COUNTS API:
    emit("  COUNTS API")
    counts = StatusCounts()
    for bad in ("passed", None, 11):
        try:
            counts.increment(bad)
            emit("    increment(%r) ok" % (bad,))
        except Exception as e:  # pylint: disable=broad-except
            emit("    increment(%r) EXCEPTION %s" % (bad, describe_exception(e)))
    counts.increment()
    counts.increment(Status.failed, 3)
    counts.increment(Status.executing)
    emit("    counts=%s repr=%r all=%r" % (counts, counts, counts.all))
    hook_counts = HookErrorCounts()
    for name in ("on_feature", "on_step", "on_rule", "on_scenario", "on_all", None):
        try:
            hook_counts.increment(name)
            emit("    hook increment(%r) ok -> %s" % (name, hook_counts))
        except Exception as e:  # pylint: disable=broad-except
            emit("    hook increment(%r) EXCEPTION %s" % (name, describe_exception(e)))
    collector = SummaryCollector()
    emit("    collector default counts: %r" % (collector.summary_counts,))
    emit("    collector.visitor is collector: %r" % (collector.visitor is collector))
    shared = SummaryCounts()
    collector1 = SummaryCollector(shared)
    collector2 = SummaryCollector(shared)
    features = parse_tree("plain")
    collector1.visit_many(features)
    collector2.visit_many(features)
    emit("    shared counts after two collectors: %r" % (shared,))


# ---------------------------------------------------------------------------
# PART 5: COMMAND LINE RUNS (python -m behave; default reporter = SummaryReporter)
# ---------------------------------------------------------------------------
CLI_STEPS = u"""
from behave import step
from behave.exception import PendingStepError

@step(u'a passing step')
def step_passes(context):
    pass

@step(u'a passing step HOOKED')
def step_passes2(context):
    pass

@step(u'a passing step with a bad before_step hook')
def step_passes3(context):
    pass

@step(u'a failing step')
def step_fails(context):
    assert False, "XFAIL-STEP"

@step(u'an erroring step')
def step_errors(context):
    raise RuntimeError("BOOM")

@step(u'a pending step')
def step_pending(context):
    raise PendingStepError("not yet")

@step(u'an aborting step')
def step_aborts(context):
    raise KeyboardInterrupt()

@step(u'a step with "{value}"')
def step_with_value(context, value):
    if value == "bad":
        assert False, "bad value"
    elif value == "boom":
        raise ValueError("boom value")

@step(u'a step that skips the scenario')
def step_skips(context):
    context.scenario.skip("skipped by step")
"""

CLI_ENVIRONMENT = u"""
def before_scenario(context, scenario):
    if "hook_error_before_scenario" in scenario.effective_tags:
        raise RuntimeError("before_scenario oops")
    if "hook_failed_before_scenario" in scenario.effective_tags:
        assert False, "before_scenario assert"

def after_scenario(context, scenario):
    if "hook_error_after_scenario" in scenario.effective_tags:
        raise RuntimeError("after_scenario oops")

def before_rule(context, rule):
    if "hook_error_before_rule" in rule.tags:
        raise RuntimeError("before_rule oops")

def before_feature(context, feature):
    if "hook_error_before_feature" in feature.tags:
        raise RuntimeError("before_feature oops")

def after_feature(context, feature):
    if "hook_error_after_feature" in feature.tags:
        raise RuntimeError("after_feature oops")

def before_step(context, step):
    if step.name == "a passing step with a bad before_step hook":
        raise RuntimeError("before_step oops")

def after_step(context, step):
    if "HOOKED" in step.name:
        raise RuntimeError("after_step oops")

def before_tag(context, tag):
    if tag == "hook_error_before_tag":
        raise RuntimeError("before_tag oops")
"""

CLI_RUNS = [
    ["--tags=not @skip"],
    ["--tags=not @skip", "--stop"],
    ["--dry-run"],
    ["--tags=not @skip", "features/a_one.feature", "features/f_rules.feature"],
    ["--tags=not @skip", "--name=R1", "--name=Single"],
    ["features/g_abort.feature", "features/a_one.feature"],
    ["--tags=not @skip", "--no-summary"],
]
CLI_FORMATS = ["v1", "v1A", "v1B", "v2", "v3"]


def part_cli():
    import os
    import re
    import shutil
    import subprocess
    import tempfile
    emit("=" * 78)
    emit("COMMAND LINE RUNS")
    workdir = tempfile.mkdtemp(prefix="c14_equiv_")
    try:
        os.makedirs(os.path.join(workdir, "features", "steps"))
        files = {
            "a_one.feature": FEATURE_ONE,
            "b_plain.feature": FEATURE_PLAIN,
            "c_outlines.feature": FEATURE_OUTLINES,
            "d_hooks.feature": FEATURE_HOOKS,
            "e_skipped.feature": FEATURE_SKIPPED,
            "f_rules.feature": FEATURE_RULES,
            "g_abort.feature": FEATURE_ABORT,
            "h_hook_feature.feature": FEATURE_HOOK_FEATURE,
            "i_hook_after_feature.feature": FEATURE_HOOK_AFTER_FEATURE,
            "j_empty.feature": FEATURE_EMPTY,
            "k_one_more.feature": FEATURE_ONE.replace("One", "OneMore"),
        }
        for name, text in files.items():
            with io.open(os.path.join(workdir, "features", name), "w",
                         encoding="UTF-8") as f:
                f.write(text)
        with io.open(os.path.join(workdir, "features", "steps", "steps.py"), "w",
                     encoding="UTF-8") as f:
            f.write(CLI_STEPS)
        with io.open(os.path.join(workdir, "features", "environment.py"), "w",
                     encoding="UTF-8") as f:
            f.write(CLI_ENVIRONMENT)
        env = dict(os.environ)
        env["PYTHONPATH"] = "/tmp/wtU/C14"
        env["PYTHONHASHSEED"] = "0"
        env.pop("BEHAVE_ARGS", None)
        for args in CLI_RUNS:
            for output_format in CLI_FORMATS:
                command = [sys.executable, "-m", "behave", "--no-color",
                           "--format=null",
                           "-D", "behave.reporter.summary.output_format=%s" % output_format]
                command += args
                process = subprocess.Popen(command, cwd=workdir, env=env,
                                           stdout=subprocess.PIPE,
                                           stderr=subprocess.STDOUT)
                output, _ = process.communicate()
                output = output.decode("UTF-8", "replace")
                output = re.sub(r"Took \d+m\d+\.\d+s", "Took <DURATION>", output)
                output = output.replace(workdir, "<WORKDIR>")
                emit("  CLI args=%s format=%s -> exit=%s" % (args, output_format,
                                                           process.returncode))
                for line in output.splitlines():
                    if line.startswith("  File ") or line.startswith("    "):
                        continue    # -- SKIP: Traceback details (if any).
                    emit("    | %s" % line)
    finally:
        shutil.rmtree(workdir, ignore_errors=True)


# ---------------------------------------------------------------------------
# PART 6: SummaryReporterV1 API DETAILS
# ---------------------------------------------------------------------------
def part_reporter_v1_api():
    emit("=" * 78)
    emit("REPORTER V1 API")
    config = make_config([])
    reporter = SummaryReporterV1(config)
    emit("  fresh tables:")
    show_reporter_v1(reporter)
    tables = [reporter.feature_summary, reporter.rule_summary,
              reporter.scenario_summary, reporter.step_summary]
    emit("  table types: %s" % [type(t).__name__ for t in tables])
    emit("  tables distinct: %r" % (len(set(id(t) for t in tables)) == 4))
    reporter.feature_summary["passed"] += 5
    reporter.step_summary["undefined"] += 2
    emit("  after mutation of two tables:")
    show_reporter_v1(reporter)
    reporter2 = SummaryReporterV1(config)
    emit("  other instance unaffected: %r" % (
        sorted(reporter2.feature_summary.items()),))

    # -- compute_summary_sums: Recomputed, idempotent, uses the current tables.
    reporter.compute_summary_sums()
    reporter.compute_summary_sums()
    show_reporter_v1(reporter)
    reporter.rule_summary = {"passed": 2, "bogus": 40, "all": 1000}
    reporter.scenario_summary = collections.OrderedDict([("failed", 1), ("passed", 1)])
    reporter.compute_summary_sums()
    show_reporter_v1(reporter)

    for show_rules in (True, False, 0, 1):
        for output_format in ("v1", "v1A", "v1B", "v2", "v3", "nope"):
            log = []
            stdout = io.StringIO()
            reporter.stream = RecStream("self", log)
            reporter.show_rules = show_rules
            reporter.output_format = output_format
            reporter.duration = 75.5
            with contextlib.redirect_stdout(stdout):
                reporter.print_summary()
                reporter.print_summary(RecStream("other", log), False)
                reporter.print_summary(stream=RecStream("other2", log), with_duration=True)
            emit("  show_rules=%r format=%s stdout=%r" % (show_rules, output_format,
                                                       stdout.getvalue()))
            show_log(log)

    # -- BROKEN TABLES: Exceptions pass through at the same point.
    for broken_name in ("feature_summary", "rule_summary", "scenario_summary",
                        "step_summary"):
        for broken_value in (None, {"passed": "x"}, {"all": 1, "passed": None},
                             {"passed": float("nan")}, {"passed": float("inf")}):
            reporter3 = SummaryReporterV1(config)
            log = []
            reporter3.stream = RecStream("self", log)
            reporter3.rule_summary["passed"] = 1
            setattr(reporter3, broken_name, broken_value)
            try:
                reporter3.print_summary(RecStream("other", log), False)
                emit("  broken %s=%r ok" % (broken_name, broken_value))
            except Exception as e:  # pylint: disable=broad-except
                emit("  broken %s=%r EXCEPTION %s" % (broken_name, broken_value,
                                                     describe_exception(e)))
            show_log(log)
            show_table("feature_summary", reporter3.feature_summary or {})
            show_table("step_summary", reporter3.step_summary or {})

    # -- FAILING STREAM: Which writes happen before the error.
    class FailingStream(RecStream):
        def __init__(self, name, log, fail_at):
            RecStream.__init__(self, name, log)
            self.fail_at = fail_at
            self.count = 0
        def write(self, text):
            self.count += 1
            if self.count == self.fail_at:
                raise IOError("stream %s broken at %d" % (self.name, self.count))
            RecStream.write(self, text)

    for fail_at in (1, 2, 3, 4):
        reporter4 = SummaryReporterV1(config)
        reporter4.rule_summary["failed"] = 2
        log = []
        reporter4.stream = RecStream("self", log)
        try:
            reporter4.print_summary(FailingStream("other", log, fail_at), True)
            emit("  failing stream at %d: ok" % fail_at)
        except Exception as e:  # pylint: disable=broad-except
            emit("  failing stream at %d: EXCEPTION %s" % (fail_at, describe_exception(e)))
        show_log(log)


def main():
    for tree_name, args in RUNS:
        try:
            run_tree(tree_name, args)
        except Exception:  # pylint: disable=broad-except
            emit("HARNESS-ERROR in run_tree(%s, %s):\n%s" % (
                tree_name, args, traceback.format_exc()))
    for part in (part_visitor, part_formats, part_forged,
                 part_reporter_v1_api, part_cli):
        try:
            part()
        except Exception:  # pylint: disable=broad-except
            emit("HARNESS-ERROR in %s:\n%s" % (part.__name__, traceback.format_exc()))
    sys.stdout.write("\n".join(OUT) + "\n")


if __name__ == "__main__":
    main()
