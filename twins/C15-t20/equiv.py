# -*- coding: utf-8 -*-
# Common part (copied verbatim into every equiv.py): builds a feature tree
# and runs "python -m behave" from the worktree as a subprocess.
from __future__ import print_function, unicode_literals
import io, json, os, re, shutil, subprocess, sys, tempfile

WORKTREE = "/tmp/wtW/C15"
sys.path.insert(0, WORKTREE)
PYTHON = "/venv/bin/python"

FEATURES = {
"features/alpha.feature": u'''
@feat
Feature: Alpha with feature background
  Some description line one.
  Second description line.

  Background: Common setup
    Given a passing step
    And a table step
      | name  | value |
      | Zoë   | 1     |
      | a\\|b  | long cell text |

  Scenario: All pass
    When I add 2 and 3
    Then the result is 5

  @wip
  Scenario: Failing in the middle
    When a failing step
    Then a passing step

  Scenario: With doc-string
    Given a doc-string step
      """
      Line one with ünïcödé
        indented line two
      \\"\\"\\" inner quotes
      """
    Then a passing step

  Scenario: Undefined step here
    Given a passing step
    When this step is not defined anywhere
    Then a passing step

  @skip_me
  Scenario: Skipped by tag
    Given a passing step

  Scenario Outline: Outline <name>
    Given a passing step
    When I add <a> and <b>
    Then the result is <c>

    Examples: Good
      | name | a | b | c |
      | one  | 1 | 1 | 2 |
      | two  | 2 | 2 | 5 |

    @skip_me
    Examples: Skipped ones
      | name  | a | b | c |
      | three | 3 | 3 | 6 |
''',
"features/beta.feature": u'''
Feature: Beta with rules

  Background:
    Given a passing step

  Scenario: Before the rules
    Then a passing step

  Rule: First rule
    Background: Rule setup
      Given a table step
        | k |
        | v |

    Scenario: R1 one
      When an erroring step
      Then a passing step

    Scenario: R1 two
      When word "hello" and number 42 and float 1.5
      Then a passing step

  Rule: Second rule without background

    Scenario: R2 one
      Given a doc-string step
        """
        single line
        """

    Scenario Outline: R2 outline <x>
      When I add <x> and <x>
      Then a passing step

      Examples:
        | x |
        | 7 |
        | 8 |
''',
"features/gamma.feature": u'''
@skip_me
Feature: Gamma entirely skipped
  Scenario: Never runs
    Given a passing step
''',
"features/delta.feature": u'''
Feature: Delta empty feature
''',
"features/epsilon.feature": u'''
Feature: Epsilon background fails

  Background: Broken
    Given a failing step

  Scenario: E one
    Then a passing step

  Scenario: E two
    Then a passing step
''',
"features/steps/steps.py": u'''
# -*- coding: utf-8 -*-
from __future__ import unicode_literals
from behave import given, when, then, step

@step(u'a passing step')
def step_pass(context):
    pass

@step(u'a failing step')
def step_fail(context):
    assert False, u"XFAIL: expected fäilure\\nsecond line of message"

@step(u'an erroring step')
def step_error(context):
    raise ValueError(u"boom ünicode")

@step(u'a table step')
def step_table(context):
    assert context.table is not None
    context.table_rows = [row.cells for row in context.table]

@step(u'a doc-string step')
def step_text(context):
    assert context.text

@when(u'I add {a:d} and {b:d}')
def step_add(context, a, b):
    context.result = a + b
    if getattr(context, "do_attach", False):
        context.attach("text/plain", ("%d+%d" % (a, b)).encode("utf-8"))
        context.attach("image/png", b"\\x00\\x01\\xff")

@then(u'the result is {c:d}')
def step_result(context, c):
    assert context.result == c, "%r != %r" % (context.result, c)

@when(u'word "{w:w}" and number {n:d} and float {f:f}')
def step_typed(context, w, n, f):
    pass
''',
"features/environment.py": u'''
import os
def before_all(context):
    context.do_attach = bool(os.environ.get("TWIN_ATTACH"))
''',
}


def make_tree():
    root = tempfile.mkdtemp(prefix="twin_C15_")
    for name, text in FEATURES.items():
        path = os.path.join(root, name)
        if not os.path.isdir(os.path.dirname(path)):
            os.makedirs(os.path.dirname(path))
        with io.open(path, "w", encoding="utf-8") as f:
            f.write(text.lstrip("\n"))
    return root


_DURATION = re.compile(r'("duration":\s*)[0-9.e+-]+')
_TIMING = re.compile(r"\b\d+\.\d{3}s\b")
_TOOK = re.compile(r"Took \d+m\d+\.\d+s")
_LINENO = re.compile(r'(File "[^"]*", line )\d+')
_XMLTIME = re.compile(r'\b(time|timestamp|hostname)="[^"]*"')


def normalize(text, root):
    text = text.replace(root, "<ROOT>")
    text = _DURATION.sub(r"\g<1>0", text)
    text = _TIMING.sub("N.NNNs", text)
    text = _TOOK.sub("Took <T>", text)
    text = _LINENO.sub(r"\g<1>N", text)
    text = _XMLTIME.sub(r'\g<1>="<X>"', text)
    return text


def run_behave(root, args, env_extra=None):
    env = dict(os.environ)
    env["PYTHONPATH"] = WORKTREE
    env["PYTHONIOENCODING"] = "utf-8"
    env["PYTHONHASHSEED"] = "0"
    env.pop("TWIN_ATTACH", None)
    if env_extra:
        env.update(env_extra)
    proc = subprocess.Popen([PYTHON, "-m", "behave"] + list(args), cwd=root,
                            env=env, stdout=subprocess.PIPE,
                            stderr=subprocess.PIPE)
    out, err = proc.communicate()
    return (proc.returncode, normalize(out.decode("utf-8", "replace"), root),
            normalize(err.decode("utf-8", "replace"), root))


def show_run(root, args, env_extra=None, outfiles=()):
    print("=" * 78)
    print("RUN: behave %s %s" % (" ".join(args), sorted((env_extra or {}).items())))
    for name in outfiles:
        path = os.path.join(root, name)
        if os.path.exists(path):
            os.remove(path)
    code, out, err = run_behave(root, args, env_extra)
    print("returncode:", code)
    print("--- stdout")
    print(out)
    print("--- stderr")
    print(err)
    for name in outfiles:
        path = os.path.join(root, name)
        print("--- file %s" % name)
        if os.path.exists(path):
            with io.open(path, encoding="utf-8") as f:
                print(normalize(f.read(), root))
        else:
            print("<missing>")


# ---------------------------------------------------------------------------
# SPECIFIC PART (C15-t20): PlainFormatter indentation / result()
# ---------------------------------------------------------------------------
TWIN_FORMATTERS = u'''
from behave.formatter.plain import PlainFormatter

class AlignedPlain(PlainFormatter):
    name = "plain.aligned"
    SHOW_ALIGNED_KEYWORDS = True
    SHOW_TAGS = True

class WidePlain(PlainFormatter):
    name = "plain.wide"
    DEFAULT_INDENT_SIZE = 4
    SHOW_TAGS = True

class NoBackgroundPlain(PlainFormatter):
    name = "plain.nobg"
    SHOW_BACKGROUNDS = False
    DEFAULT_INDENT_SIZE = 0
'''


class FakeStream(object):
    closed = False
    encoding = "utf-8"

    def __init__(self):
        self.chunks = []

    def write(self, text):
        self.chunks.append(text)

    def flush(self):
        pass

    def close(self):
        self.closed = True


def scripted():
    from behave.formatter.plain import PlainFormatter, Plain0Formatter
    from behave.formatter.steps_code import StepWithCodeFormatter
    from behave.formatter.base import StreamOpener
    from behave.configuration import Configuration
    from behave.model import Feature, Rule, Scenario, Background, Step, Table
    from behave.model_core import Status

    class Aligned(PlainFormatter):
        SHOW_ALIGNED_KEYWORDS = True
        SHOW_TAGS = True

    class Wide(PlainFormatter):
        DEFAULT_INDENT_SIZE = 3

    class NoBackground(Plain0Formatter):
        SHOW_BACKGROUNDS = False

    class TruthyRule(object):
        keyword = u"Rule"
        name = u"fake"
        tags = []

    def make_step(line, keyword, name, status, **kwargs):
        step = Step(u"f.feature", line, keyword, keyword.lower(), name)
        step.status = status
        step.duration = 0.12345
        for key, value in kwargs.items():
            setattr(step, key, value)
        return step

    for formatter_class in (PlainFormatter, Plain0Formatter, Aligned, Wide, NoBackground):
        for args in ([], ["--no-timings"], ["--no-multiline"]):
            print("-" * 78)
            print("SCRIPTED: %s %r" % (formatter_class.__name__, args))
            config = Configuration(command_args=args, load_config=False)
            stream = FakeStream()
            formatter = formatter_class(StreamOpener(stream=stream), config)
            print("multiline_indentation (initial): %r" % formatter.multiline_indentation)
            steps = [
                make_step(3, u"Given", u"a thing", Status.passed),
                make_step(4, u"And", u"a table", Status.passed,
                          table=Table([u"a", u"bb"], rows=[[u"1", u"2"]])),
                make_step(5, u"When", u"text", Status.failed,
                          text=u"line 1\n  line 2", error_message=u"Assertion Failed: x\ny"),
                make_step(6, u"Then", u"ünicode", Status.undefined),
                make_step(7, u"But", u"both", Status.skipped, text=u"t",
                          table=Table([u"h"])),
                make_step(8, u"*", u"star", Status.untested),
            ]
            background = Background(u"f.feature", 2, u"Background", u"BG", steps[:1])
            scenario = Scenario(u"f.feature", 5, u"Scenario", u"S1",
                                tags=[u"t1", u"t2"], steps=steps[1:])
            rule = Rule(u"f.feature", 10, u"Rule", u"R1", tags=[u"r"])
            feature = Feature(u"f.feature", 1, u"Feature", u"F", tags=[u"ft"],
                              scenarios=[scenario], background=background)

            def play(label):
                formatter.background(background)
                print("%s: after background: steps=%d indentation=%r" % (
                    label, len(formatter.steps), formatter.multiline_indentation))
                formatter.scenario(scenario)
                for step in steps:
                    formatter.step(step)
                print("%s: queued=%d" % (label, len(formatter.steps)))
                for step in steps:
                    formatter.match(None)
                    formatter.result(step)
                print("%s: queued=%d indentation=%r" % (
                    label, len(formatter.steps), formatter.multiline_indentation))
                try:
                    formatter.result(steps[0])
                except Exception as e:  # pylint: disable=broad-except
                    print("%s: result on empty queue raised %s %s" % (
                        label, type(e).__name__, e))

            formatter.uri(u"f.feature")
            formatter.feature(feature)
            play("feature-level")
            formatter.rule(rule)
            print("current_rule is rule:", formatter.current_rule is rule)
            play("rule-level")
            formatter.current_rule = TruthyRule()
            play("fake-rule")
            formatter.current_rule = 0
            play("falsy-rule")
            # -- THE QUEUE DECIDES WHICH STEP IS SHOWN (not the argument):
            formatter.scenario(scenario)
            formatter.step(steps[2])
            formatter.result(steps[0])
            formatter.eof()
            formatter.feature(feature)
            print("after 2nd feature: current_rule=%r indentation=%r" % (
                formatter.current_rule, formatter.multiline_indentation))
            formatter.indent_size = 5
            print("indent_size=5: indentation=%r" % formatter.multiline_indentation)
            formatter.scenario(scenario)
            formatter.step(steps[1])
            formatter.result(steps[1])
            formatter.eof()
            formatter.close()
            print("OUTPUT:")
            print(u"".join(stream.chunks))
            print("chunks:", len(stream.chunks))


def main():
    scripted()
    root = make_tree()
    with io.open(os.path.join(root, "twin_formatters.py"), "w", encoding="utf-8") as f:
        f.write(TWIN_FORMATTERS)
    try:
        show_run(root, ["--no-color", "-f", "plain"])
        show_run(root, ["--no-color", "-f", "plain", "--no-timings", "--no-multiline",
                        "--tags=-skip_me", "--show-skipped"])
        show_run(root, ["--no-color", "-f", "plain", "--no-timings", "--no-skipped",
                        "--tags=-skip_me"])
        show_run(root, ["--no-color", "-f", "plain", "--dry-run"])
        show_run(root, ["--no-color", "-f", "behave.formatter.plain:Plain0Formatter",
                        "--no-timings"])
        show_run(root, ["--no-color", "--no-timings",
                        "-f", "twin_formatters:AlignedPlain", "-o", "aligned.txt",
                        "-f", "twin_formatters:WidePlain", "-o", "wide.txt",
                        "-f", "twin_formatters:NoBackgroundPlain", "-o", "nobg.txt",
                        "-f", "steps.code", "-o", "code.txt",
                        "-f", "plain", "-o", "plain.txt",
                        "-f", "progress2"],
                 outfiles=["aligned.txt", "wide.txt", "nobg.txt", "code.txt", "plain.txt"])
        show_run(root, ["--no-color", "-f", "plain", "--stop", "features/beta.feature"])
        show_run(root, ["--no-color", "-f", "plain", "--no-timings",
                        "--name", "R1", "features/beta.feature"])
    finally:
        shutil.rmtree(root)


if __name__ == "__main__":
    main()
