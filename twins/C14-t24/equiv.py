# -*- coding: UTF-8 -*-
"""
Equivalence transcript for the C14 twins (summary conservation).

Exercises, through public behaviour only:
  1. format_summary_* / format_summary_with_schema / select_format_summary_by_name
  2. SummaryReporterV1 / SummaryReporterV2 on parsed models with assigned outcomes
  3. ModelVisitor traversal (delegation + cancellation + bad items)
  4. SummaryCollector + value objects
  5. `python -m behave` end-to-end runs (all summary formats, --stop, --dry-run, tags, hook errors)
and prints a canonical transcript (durations masked).
"""
from __future__ import absolute_import, print_function
import sys
sys.path.insert(0, "/tmp/wtX/C14")

import io
import os
import re
import random
import shutil
import subprocess
import tempfile
import contextlib

import behave
assert behave.__file__.startswith("/tmp/wtX/C14/"), behave.__file__

from behave.model_core import Status
from behave.model import Feature, Rule, ScenarioOutline, Scenario, Step
from behave.parser import parse_feature
from behave.configuration import Configuration
from behave.model_visitor import ModelVisitor, IModelVisitor
from behave import summary as summary_module
from behave.summary import (
    StatusCounts, HookErrorCounts, SummaryCounts, SummaryCollector, STATUS_ORDER
)
from behave.reporter import summary as rsummary
from behave.reporter.summary import (
    SummaryReporterV1, SummaryReporterV2, SummaryReporter,
    format_summary_with_schema, select_format_summary_by_name,
    compute_summary_sum, pluralize,
)

PYTHON = "/venv/bin/python"
FORMATS = ["v1", "v1A", "v1B", "v2", "v3"]
TOOK = re.compile(r"Took \d+m[\d.]+s")
OUT = []


def emit(*parts):
    OUT.append(" ".join(str(p) for p in parts))


def mask(text):
    return TOOK.sub("Took <T>", text)


@contextlib.contextmanager
def captured_stdout():
    old = sys.stdout
    sys.stdout = buf = io.StringIO()
    try:
        yield buf
    finally:
        sys.stdout = old


def attempt(label, func, *args, **kwargs):
    with captured_stdout() as buf:
        try:
            result = func(*args, **kwargs)
            outcome = "-> %r" % (result,)
        except Exception as e:  # pylint: disable=broad-except
            outcome = "!! %s: %s" % (type(e).__name__, e)
    printed = buf.getvalue()
    emit(label, outcome)
    if printed:
        emit("   printed:", repr(printed))


# ---------------------------------------------------------------------------
# PART 1: format functions
# ---------------------------------------------------------------------------
def part1_formats():
    emit("== PART 1: format functions")
    zero = {"all": 0, "passed": 0, "failed": 0, "error": 0, "hook_error": 0,
            "skipped": 0, "untested": 0}
    dicts = [
        ("zero", dict(zero)),
        ("empty", {}),
        ("one-passed", dict(zero, passed=1, all=1)),
        ("mixed", dict(zero, passed=3, failed=1, error=2, skipped=4, untested=5,
                       hook_error=1, all=16)),
        ("no-all", {"passed": 2, "failed": 0, "skipped": 1}),
        ("no-all-single", {"passed": 0, "failed": 1}),
        ("all-inconsistent", {"all": 7, "passed": 1, "failed": 1}),
        ("steps", dict(zero, undefined=2, untested_undefined=1, pending=1,
                       pending_warn=3, untested_pending=1, passed=10, all=18)),
        ("only-optional", {"undefined": 1, "untested": 0, "error": 0}),
        ("unknown-keys", {"passed": 1, "xfailed": 3, "cleanup_error": 2, "all": 6}),
        ("big", dict(zero, passed=12345, failed=1, all=12346)),
    ]
    objects = [
        ("SC()", StatusCounts()),
        ("SC(p3,f1)", StatusCounts.from_counts(passed=3, failed=1)),
        ("SC(all kinds)", StatusCounts.from_counts(
            passed=1, failed=2, error=3, skipped=4, untested=5, pending=6,
            pending_warn=7, untested_pending=8, undefined=9,
            untested_undefined=10, hook_error=11, cleanup_error=12)),
        ("SC(p1)", StatusCounts.from_counts(passed=1)),
        ("HEC()", HookErrorCounts()),
        ("HEC(f1,s2)", HookErrorCounts.from_counts(on_feature=1, on_scenario=2)),
    ]
    names = FORMATS + ["vX", "", None]
    for fmt in names:
        with captured_stdout() as buf:
            func = select_format_summary_by_name(fmt)
        emit("-- format", repr(fmt), "->", func.__name__,
             "printed:", repr(buf.getvalue()))
        for kind in ("feature", "rule", "scenario", "step", "hook.errors"):
            for label, data in dicts + objects:
                attempt("  %s %s %s" % (fmt, kind, label), func, kind, data)

    emit("-- format_summary_with_schema variants")
    for label, data in dicts + objects:
        for kwargs in (
            {},
            {"schema": None, "item_schema": None, "use_passed_for_all": True},
            {"item_schema": "<{name}={value}>"},
            {"item_schema": "<{name}={value}>", "use_passed_for_all": True},
            {"schema": "{count}|{statement}|{suffix}|{parts}|{end}", "end": ""},
            {"schema": "", "end": "!"},
            {"schema": "{missing}"},
        ):
            attempt("  schema %s %r" % (label, sorted(kwargs.items(), key=str)),
                    format_summary_with_schema, "item", data, **kwargs)

    emit("-- helpers")
    for data in [d for _, d in dicts]:
        attempt("  compute_summary_sum %r" % sorted(data.items()),
                compute_summary_sum, data)
    for count in (0, 1, 2, -1):
        attempt("  pluralize %s" % count, pluralize, "step", count)
    emit("  STATUS_ORDER", [s.name for s in STATUS_ORDER])
    emit("  OPTIONAL_V1", [s.name for s in rsummary.OPTIONAL_STATUS_PARTS_V1])
    emit("  OPTIONAL_V2", [s.name for s in rsummary.OPTIONAL_STATUS_PARTS_V2])
    emit("  FORMAT_MAP", sorted((k, v.__name__)
                                for k, v in rsummary.OUTPUT_FORMAT_MAP.items()))


# ---------------------------------------------------------------------------
# PART 2: model building
# ---------------------------------------------------------------------------
FEATURE_TEXTS = [
    (u"features/plain.feature", u"""
Feature: Plain
  Background:
    Given a background step
  Scenario: P1
    Given step one
    When step two
    Then step three
  Scenario: P2
    Given step one
  Scenario: P3 (no steps besides background)
"""),
    (u"features/outline.feature", u"""
Feature: Outlines
  Scenario Outline: O-<name>
    Given a step with <name>
    Then another step
    Examples: A
      | name |
      | a1   |
      | a2   |
    Examples: B
      | name |
      | b1   |
  Scenario: After outline
    Given step one
"""),
    (u"features/rules.feature", u"""
Feature: Rules
  Background:
    Given feature background
  Scenario: Before rules
    Given step one
  Rule: R1
    Background:
      Given rule background
    Scenario: R1-S1
      Given step one
      Then step two
    Scenario Outline: R1-O-<x>
      Given a step with <x>
      Examples:
        | x |
        | 1 |
        | 2 |
        | 3 |
  Rule: R2 (empty)
  Rule: R3
    Scenario: R3-S1
      When step one
"""),
    (u"features/empty.feature", u"""
Feature: Empty
"""),
    (u"features/single.feature", u"""
Feature: Single
  Scenario: Only
    Given one
    And two
    And three
    And four
"""),
]

STEP_STATUSES = [
    Status.passed, Status.passed, Status.passed, Status.failed, Status.error,
    Status.skipped, Status.untested, Status.undefined, Status.pending,
    Status.pending_warn, Status.untested_pending, Status.untested_undefined,
    Status.hook_error,
]


def build_features():
    return [parse_feature(text.lstrip(), filename=filename)
            for filename, text in FEATURE_TEXTS]


def iter_scenarios(container):
    for item in container:
        if isinstance(item, Rule):
            for scenario in iter_scenarios(item):
                yield scenario
        elif isinstance(item, ScenarioOutline):
            for scenario in item.scenarios:
                yield scenario
        else:
            yield item


def iter_rules(feature):
    for item in feature:
        if isinstance(item, Rule):
            yield item


def assign_outcomes(features, mode, seed):
    """Assign final step/scenario outcomes the way a run would leave them."""
    rng = random.Random(seed)
    for feature in features:
        for scenario in iter_scenarios(feature):
            steps = list(scenario)
            if mode == "all-passed":
                for step in steps:
                    step.set_status(Status.passed)
            elif mode == "untouched":
                pass
            elif mode == "all-skipped":
                for step in steps:
                    step.set_status(Status.skipped)
                scenario.set_status(Status.skipped)
            elif mode == "random":
                # -- A scenario runs until the first non-passing step;
                #    the remainder stays untested/skipped.
                choice = rng.random()
                if choice < 0.15:
                    scenario.set_status(Status.skipped)
                    for step in steps:
                        step.set_status(Status.skipped)
                    continue
                if choice < 0.25:
                    continue    # untested
                broken = False
                for step in steps:
                    if broken:
                        step.set_status(rng.choice(
                            [Status.skipped, Status.untested]))
                        continue
                    status = rng.choice(STEP_STATUSES)
                    step.set_status(status)
                    if status.has_failed():
                        broken = True
                if rng.random() < 0.15:
                    scenario.hook_failed = True
                    scenario.set_status(Status.hook_error)
            elif mode == "stop-after-first-failure":
                pass
        if mode == "random":
            for rule in iter_rules(feature):
                if rng.random() < 0.3:
                    rule.hook_failed = True
            if rng.random() < 0.2:
                feature.hook_failed = True
    if mode == "stop-after-first-failure":
        stopped = False
        for feature in features:
            for scenario in iter_scenarios(feature):
                steps = list(scenario)
                if stopped:
                    continue
                for index, step in enumerate(steps):
                    if index == len(steps) - 1 and scenario.name.startswith("R1-S1"):
                        step.set_status(Status.failed)
                        stopped = True
                    else:
                        step.set_status(Status.passed)


def census(features):
    """Direct census of the model: kind -> status-name -> count."""
    counts = {"features": {}, "rules": {}, "scenarios": {}, "steps": {}}

    def bump(kind, status):
        counts[kind][status.name] = counts[kind].get(status.name, 0) + 1

    for feature in features:
        bump("features", feature.status)
        for rule in iter_rules(feature):
            bump("rules", rule.status)
        for scenario in iter_scenarios(feature):
            bump("scenarios", scenario.status)
            for step in scenario:
                bump("steps", step.status)
    return dict((kind, sorted(table.items())) for kind, table in counts.items())


def make_config(output_format=None):
    config = Configuration(command_args=[], load_config=False)
    if output_format is not None:
        config.userdata["behave.reporter.summary.output_format"] = output_format
    return config


def describe_scenarios(scenarios):
    return ["%s|%s|%s" % (s.location, s.name, s.status.name) for s in scenarios]


def run_reporter(reporter_class, features, output_format, **attrs):
    config = make_config(output_format)
    reporter = reporter_class(config)
    stream = io.StringIO()
    reporter.stream = stream
    for name, value in attrs.items():
        setattr(reporter, name, value)
    emit("  reporter", reporter_class.__name__, "format", repr(output_format),
         "effective", repr(reporter.output_format), sorted(attrs.items()))
    with captured_stdout() as buf:
        try:
            for feature in features:
                reporter.feature(feature)
            reporter.end()
            outcome = "ok"
        except Exception as e:  # pylint: disable=broad-except
            outcome = "!! %s: %s" % (type(e).__name__, e)
    emit("    outcome:", outcome)
    if buf.getvalue():
        emit("    stdout:", repr(mask(buf.getvalue())))
    for line in mask(stream.getvalue()).splitlines():
        emit("    |" + line)
    emit("    failed :", describe_scenarios(reporter.failed_scenarios))
    emit("    errored:", describe_scenarios(reporter.errored_scenarios))
    if isinstance(reporter, SummaryReporterV1):
        for name in ("feature_summary", "rule_summary", "scenario_summary",
                     "step_summary"):
            emit("    %s: %r" % (name, sorted(getattr(reporter, name).items())))
    else:
        emit("    counts:", [(name, list(obj.as_dict().items()))
                             for name, obj in reporter.summary_counts.items()])
        emit("    failed_features :", [f.name for f in reporter.failed_features])
        emit("    errored_features:", [f.name for f in reporter.errored_features])
        emit("    collector.duration:", reporter.summary_collector.duration)
    emit("    testrun_start_time set:", reporter.testrun_start_time != 0,
         "end set:", reporter.testrun_end_time is not None,
         "_duration is float:", isinstance(reporter._duration, float))
    return reporter


def part2_reporters():
    emit("== PART 2: reporters on models")
    emit("  SummaryReporter is", SummaryReporter.__name__)
    scenarios = [("all-passed", 0), ("untouched", 0), ("all-skipped", 0),
                 ("stop-after-first-failure", 0)]
    scenarios += [("random", seed) for seed in range(1, 13)]
    for mode, seed in scenarios:
        emit("-- model", mode, seed)
        features = build_features()
        assign_outcomes(features, mode, seed)
        emit("  census:", sorted(census(features).items()))
        formats = FORMATS if seed in (0, 1, 2) else ["v1", "v3"]
        for reporter_class in (SummaryReporterV1, SummaryReporterV2):
            for fmt in [None] + formats:
                run_reporter(reporter_class, features, fmt)
    emit("-- reporter options")
    features = build_features()
    assign_outcomes(features, "random", 3)
    for reporter_class in (SummaryReporterV1, SummaryReporterV2):
        run_reporter(reporter_class, features, "passed_first")
        run_reporter(reporter_class, features, "entity_first")
        run_reporter(reporter_class, features, "bogus")
        run_reporter(reporter_class, features, "v2", show_rules=False)
        run_reporter(reporter_class, features, "v2", show_failed_scenarios=False)
        run_reporter(reporter_class, features, "v2", show_duration=False)
        run_reporter(reporter_class, [], "v2")
        run_reporter(reporter_class, features[3:4], "v1")

    emit("-- explicit stream / with_duration arguments")
    for reporter_class in (SummaryReporterV1, SummaryReporterV2):
        for with_duration in (None, True, False):
            reporter = reporter_class(make_config("v3"))
            reporter.stream = io.StringIO()
            other = io.StringIO()
            for feature in features:
                reporter.feature(feature)
            try:
                reporter.print_summary(stream=other, with_duration=with_duration)
                outcome = "ok"
            except Exception as e:  # pylint: disable=broad-except
                outcome = "!! %s: %s" % (type(e).__name__, e)
            emit("  ", reporter_class.__name__, with_duration, outcome)
            emit("    own  :", repr(mask(reporter.stream.getvalue())))
            emit("    other:", repr(mask(other.getvalue())))
            other2 = io.StringIO()
            reporter.print_problematic_scenarios(stream=other2)
            reporter.print_failing_scenarios()
            reporter.print_errored_scenarios(stream=None)
            emit("    problems other:", repr(other2.getvalue()))
            emit("    problems own  :", repr(mask(reporter.stream.getvalue())))
            reporter.duration = 125
            emit("    duration:", reporter.duration)

    emit("-- step/scenario status missing from the v1 tables")
    for status in (Status.cleanup_error, Status.xfailed, Status.executing):
        features = build_features()
        assign_outcomes(features, "all-passed", 0)
        list(features[4])[0].steps[2].set_status(status)
        for reporter_class in (SummaryReporterV1, SummaryReporterV2):
            run_reporter(reporter_class, features, "v2")
    for status in (Status.cleanup_error, Status.xpassed, Status.undefined):
        features = build_features()
        assign_outcomes(features, "all-passed", 0)
        list(features[0])[1].set_status(status)
        for reporter_class in (SummaryReporterV1, SummaryReporterV2):
            run_reporter(reporter_class, features, "v1")

    emit("-- the same feature reported twice")
    features = build_features()
    assign_outcomes(features, "random", 5)
    for reporter_class in (SummaryReporterV1, SummaryReporterV2):
        run_reporter(reporter_class, features + features[:2], "v1A")


# ---------------------------------------------------------------------------
# PART 3: ModelVisitor
# ---------------------------------------------------------------------------
class Recorder(IModelVisitor):
    def __init__(self, log, answers=None):
        self.log = log
        self.answers = answers or {}

    def _on(self, kind, item):
        name = getattr(item, "name", None)
        self.log.append("%s:%s" % (kind, name))
        return self.answers.get((kind, name), self.answers.get(kind))

    def on_feature(self, feature):
        return self._on("feature", feature)

    def on_rule(self, rule):
        return self._on("rule", rule)

    def on_scenario_outline(self, scenario_outline):
        return self._on("outline", scenario_outline)

    def on_scenario(self, scenario):
        return self._on("scenario", scenario)

    def on_step(self, step):
        return self._on("step", step)


class InheritingVisitor(ModelVisitor):
    def __init__(self, log):
        super(InheritingVisitor, self).__init__()
        self.log = log

    def on_scenario(self, scenario):
        self.log.append("S:" + scenario.name)
        if scenario.name.startswith("R1-O"):
            return False

    def on_step(self, step):
        self.log.append("s:" + step.name)
        if step.name == "step two":
            return 0


def part3_visitor():
    emit("== PART 3: ModelVisitor")
    features = build_features()
    rules_feature = features[2]
    rule1 = list(iter_rules(rules_feature))[0]
    outline = [x for x in features[1] if isinstance(x, ScenarioOutline)][0]
    scenario = list(features[0])[0]
    step = scenario.steps[0]

    answer_sets = [
        ("none", {}),
        ("all-true", {"feature": True, "rule": True, "outline": True,
                      "scenario": True, "step": True}),
        ("feature-false", {"feature": False}),
        ("rule-false", {"rule": False}),
        ("R1-zero", {("rule", "R1"): 0}),
        ("outline-false", {"outline": False}),
        ("outline-empty-string", {"outline": ""}),
        ("scenario-false", {"scenario": False}),
        ("one-scenario-false", {("scenario", "R1-S1"): False}),
        ("row-false", {("scenario", "R1-O-2 -- @1.2 "): False}),
        ("step-false", {"step": False}),
        ("one-step-empty-list", {("step", "step two"): []}),
        ("step-truthy", {"step": "yes"}),
        ("scenario-truthy-object", {"scenario": 42}),
    ]
    targets = [
        ("features(list)", features),
        ("features(tuple)", tuple(features)),
        ("rules-feature", rules_feature),
        ("rule1", rule1),
        ("outline", outline),
        ("scenario", scenario),
        ("step", step),
        ("empty-list", []),
    ]
    for answers_label, answers in answer_sets:
        for target_label, target in targets:
            log = []
            visitor = ModelVisitor(Recorder(log, answers))
            try:
                result = visitor(target)
                outcome = "-> %r" % (result,)
            except Exception as e:  # pylint: disable=broad-except
                outcome = "!! %s: %s" % (type(e).__name__, e)
            emit("  call[%s][%s]" % (answers_label, target_label), outcome,
                 "n=%d" % len(log))
            emit("    log:", log)

    emit("-- unsupported items / generators / custom visit_func")
    for bad in (None, 3, "text", object, {"a": 1}, [1], (None,)):
        log = []
        visitor = ModelVisitor(Recorder(log))
        for label, func in (("call", visitor), ("visit", visitor.visit)):
            try:
                result = func(bad)
                outcome = "-> %r" % (result,)
            except Exception as e:  # pylint: disable=broad-except
                outcome = "!! %s: %s" % (type(e).__name__, e)
            emit("  %s(%r)" % (label, bad), outcome, log)
    log = []
    visitor = ModelVisitor(Recorder(log, {("feature", "Outlines"): False}))
    emit("  visit_many(generator):", visitor.visit_many(f for f in features), log)
    log = []
    visitor = ModelVisitor(Recorder(log))
    seen = []

    def visit_func(item):
        seen.append(type(item).__name__)
        return len(seen) < 3
    emit("  visit_many(custom):", visitor.visit_many(features, visit_func), seen, log)
    seen[:] = []
    emit("  visit_items_of(custom):",
         visitor.visit_items_of(rules_feature, visit_func=visit_func), seen, log)
    emit("  visit_items_of(default):", visitor.visit_items_of(rule1), log)
    for value in (None, True, False, 0, 1, "", "x", [], [0]):
        emit("  should_continue_visit(%r):" % (value,),
             ModelVisitor.should_continue_visit(value))
    try:
        ModelVisitor(visitor=object())
        emit("  ModelVisitor(object()) ok")
    except AssertionError as e:
        emit("  ModelVisitor(object()) !! AssertionError", str(e)[:40])
    for method_name, item in (("visit_feature", rule1), ("visit_rule", scenario),
                              ("visit_scenario_outline", scenario),
                              ("visit_scenario", step), ("visit_step", scenario)):
        log = []
        visitor = ModelVisitor(Recorder(log))
        try:
            getattr(visitor, method_name)(item)
            emit("  %s(wrong type) ok" % method_name, log)
        except AssertionError as e:
            emit("  %s(wrong type) !! AssertionError %r" % (method_name, str(e)), log)

    emit("-- inheritance based visitor")
    log = []
    visitor = InheritingVisitor(log)
    emit("  result:", visitor(features), "visitor is self:", visitor.visitor is visitor)
    emit("  log:", log)
    log = []
    visitor = InheritingVisitor(log)
    emit("  result:", visitor.visit(features[0]))
    emit("  log:", log)
    emit("  null visitor:", ModelVisitor()(features))


# ---------------------------------------------------------------------------
# PART 4: SummaryCollector and value objects
# ---------------------------------------------------------------------------
def show_collector(collector):
    counts = collector.summary_counts
    emit("    counts:", [(name, list(obj.as_dict().items()))
                         for name, obj in counts.items()])
    emit("    all:", [(name, obj.all) for name, obj in counts])
    emit("    str:", repr(str(counts)))
    emit("    repr:", repr(counts))
    emit("    bool:", bool(counts), "len:", len(counts))
    emit("    as_dict(nested):", [(k, list(v.items()))
                                  for k, v in counts.as_dict(nested=True).items()])
    emit("    failed_features :", [f.name for f in collector.failed_features])
    emit("    errored_features:", [f.name for f in collector.errored_features])
    emit("    failed_scenarios :", describe_scenarios(collector.failed_scenarios))
    emit("    errored_scenarios:", describe_scenarios(collector.errored_scenarios))
    emit("    pending:", collector.pending_features, collector.pending_scenarios)
    emit("    has_failures_or_errors:", collector.has_failures_or_errors())
    emit("    duration:", collector.duration)


def part4_collector():
    emit("== PART 4: SummaryCollector")
    for mode, seed in [("untouched", 0), ("all-passed", 0), ("all-skipped", 0),
                       ("stop-after-first-failure", 0)] + \
                      [("random", seed) for seed in range(20, 30)]:
        emit("-- model", mode, seed)
        features = build_features()
        assign_outcomes(features, mode, seed)
        for index, feature in enumerate(features):
            for scenario in iter_scenarios(feature):
                for step in scenario:
                    step.duration = 0.125 * (index + 1)
        emit("  census:", sorted(census(features).items()))
        collector = SummaryCollector()
        emit("  visit_many ->", collector.visit_many(features))
        show_collector(collector)
        counts = SummaryCounts()
        collector2 = SummaryCollector(counts)
        emit("  same counts object:", collector2.summary_counts is counts)
        for feature in features:
            collector2.visit_feature(feature)
        emit("  equal to first:", counts == collector.summary_counts,
             counts != collector.summary_counts,
             counts == collector.summary_counts.as_dict())
        collector3 = SummaryCollector()
        rule_result = [collector3.visit(item) for item in features[2]]
        emit("  items of rules feature ->", rule_result)
        show_collector(collector3)
        try:
            collector.reset()
            emit("  reset ok")
        except Exception as e:  # pylint: disable=broad-except
            emit("  reset !! %s: %s" % (type(e).__name__, e))
        emit("  after reset lists:", collector.failed_features,
             collector.failed_scenarios, collector.errored_features,
             collector.errored_scenarios, collector.duration)

    emit("-- collector with odd elements")
    features = build_features()
    assign_outcomes(features, "all-passed", 0)
    collector = SummaryCollector()

    class FakeStatus(object):
        name = "passed"

        def is_failure(self):
            return False

        def is_error(self):
            return False

    class Fake(object):
        status = FakeStatus()
        hook_failed = True
        duration = 1.5
        name = "fake"
        location = "nowhere:0"

    for method_name in ("on_feature", "on_rule", "on_scenario", "on_step"):
        try:
            result = getattr(collector, method_name)(Fake())
            emit("  %s(fake) -> %r" % (method_name, result))
        except Exception as e:  # pylint: disable=broad-except
            emit("  %s(fake) !! %s: %s" % (method_name, type(e).__name__,
                                           str(e)[:60].split(" object at")[0]))
    show_collector(collector)

    emit("-- value objects")
    counts = StatusCounts()
    for status in (Status.passed, Status.passed, Status.failed, Status.xfailed):
        counts.increment(status)
    counts.increment(Status.skipped, 5)
    emit("  ", repr(counts), list(counts.as_dict().items()), counts.all,
         counts["all"], counts.get("all"), counts.get(Status.passed),
         counts.get("passed"), counts[Status.failed], bool(counts))
    for bad in ("passed", None, 3):
        try:
            counts.increment(bad)
            emit("  increment(%r) ok" % (bad,))
        except Exception as e:  # pylint: disable=broad-except
            emit("  increment(%r) !! %s: %s" % (bad, type(e).__name__, e))
    counts.reset()
    emit("  after reset:", repr(counts), bool(counts))
    attempt("  SC(dict names)", lambda: repr(StatusCounts({"passed": 2, "failed": 1})))
    attempt("  SC(kwargs)", lambda: repr(StatusCounts(passed=2, skipped=1)))
    attempt("  SC(bad name)", lambda: repr(StatusCounts({"nope": 2})))
    attempt("  SC(bad key)", lambda: repr(StatusCounts({3: 2})))
    attempt("  SC.from_dict", lambda: repr(StatusCounts.from_dict({"passed": 1})))
    attempt("  SC eq", lambda: (StatusCounts(passed=1) == StatusCounts(passed=1),
                                StatusCounts(passed=1) != StatusCounts(passed=2)))
    attempt("  SC eq bad", lambda: StatusCounts() == 3)
    hooks = HookErrorCounts()
    hooks.increment("on_step")
    hooks.increment("on_rule", 2)
    emit("  ", repr(hooks), list(hooks.items()), hooks.all, hooks["all"],
         hooks.get("all"), list(hooks.as_dict().items()), bool(hooks),
         list(hooks), hooks == {"on_step": 1}, hooks == HookErrorCounts(on_step=1, on_rule=2),
         hooks != 3)
    attempt("  HEC.increment(bad)", hooks.increment, "on_nothing")
    attempt("  HEC(data)", lambda: repr(HookErrorCounts({"on_feature": 2, "x": 1},
                                                        on_step=3)))
    attempt("  SummaryCounts.from_counts",
            lambda: repr(SummaryCounts.from_counts(
                features=StatusCounts(passed=1), hook_errors=hooks)))
    attempt("  SummaryCounts.from_counts(bad type)",
            lambda: SummaryCounts.from_counts(features={"passed": 1}))
    attempt("  SummaryCounts.from_counts(unexpected)",
            lambda: SummaryCounts.from_counts(other=1, more=2))
    attempt("  SummaryCounts.from_dict(unexpected)",
            lambda: repr(SummaryCounts.from_dict({"other": 1})))
    attempt("  SummaryCounts +=",
            lambda: repr(SummaryCounts.from_counts(steps=StatusCounts(passed=1)).__iadd__(
                SummaryCounts.from_counts(steps=StatusCounts(passed=2, failed=1)))))
    attempt("  SummaryCounts.get", lambda: SummaryCounts().get("all"))
    attempt("  SummaryCounts[]", lambda: SummaryCounts()["features"])
    attempt("  SummaryCounts eq other", lambda: (SummaryCounts() == 3,
                                                 SummaryCounts() == SummaryCounts(),
                                                 bool(SummaryCounts())))


# ---------------------------------------------------------------------------
# PART 5: end-to-end runs
# ---------------------------------------------------------------------------
E2E_FILES = {
    "features/steps/steps.py": u'''
from behave import given, when, then, step
from behave.api.pending_step import StepNotImplementedError

@step(u'a step passes')
def step_passes(ctx):
    pass

@step(u'a step passes with {name}')
def step_passes_with(ctx, name):
    if name == "bad":
        assert False, "XFAIL-ROW: %s" % name
    if name == "boom":
        raise RuntimeError("BOOM-ROW")

@step(u'a step fails')
def step_fails(ctx):
    assert False, "XFAIL"

@step(u'a step raises an error')
def step_errors(ctx):
    raise ValueError("OOPS")

@step(u'a step is pending')
def step_pending(ctx):
    raise StepNotImplementedError("later")
''',
    "features/environment.py": u'''
def before_feature(ctx, feature):
    if "bad_before_feature" in feature.tags:
        raise RuntimeError("HOOK before_feature")

def before_rule(ctx, rule):
    if "bad_before_rule" in rule.tags:
        raise RuntimeError("HOOK before_rule")

def before_scenario(ctx, scenario):
    if "bad_before_scenario" in scenario.tags:
        raise RuntimeError("HOOK before_scenario")
    if "skip_me" in scenario.tags:
        scenario.skip("by hook")

def after_scenario(ctx, scenario):
    if "bad_after_scenario" in scenario.tags:
        assert False, "HOOK after_scenario"

def before_step(ctx, step):
    if step.name == "a step passes with hookfail":
        raise RuntimeError("HOOK before_step")
''',
    "features/a_basic.feature": u'''
Feature: Basic
  Background:
    Given a step passes
  Scenario: B1 passes
    When a step passes
    Then a step passes
  @wip
  Scenario: B2 fails in the middle
    When a step fails
    Then a step passes
  Scenario: B3 errors
    When a step raises an error
    Then a step passes
  Scenario: B4 undefined
    When a step is not defined anywhere
    Then a step passes
  Scenario: B5 pending
    When a step is pending
    Then a step passes
  @skip_me
  Scenario: B6 skipped by hook
    When a step passes
''',
    "features/b_outline.feature": u'''
Feature: Outline
  Scenario Outline: O <name>
    Given a step passes with <name>
    Then a step passes
    Examples: first
      | name |
      | good |
      | bad  |
    @wip
    Examples: second
      | name |
      | boom |
      | fine |
''',
    "features/c_rules.feature": u'''
Feature: With rules
  Background:
    Given a step passes
  Scenario: C0 before rules
    Then a step passes
  Rule: Good rule
    Background:
      Given a step passes
    Scenario: C1
      Then a step passes
    @wip
    Scenario Outline: C2 <name>
      Then a step passes with <name>
      Examples:
        | name     |
        | one      |
        | bad      |
        | hookfail |
  @bad_before_rule
  Rule: Rule with broken hook
    Scenario: C3
      Then a step passes
    Scenario: C4
      Then a step passes
  Rule: Rule with scenario hook problems
    @bad_before_scenario
    Scenario: C5
      Then a step passes
    @bad_after_scenario
    Scenario: C6
      Then a step passes
    Scenario: C7
      Then a step passes
''',
    "features/d_hook.feature": u'''
@bad_before_feature
Feature: Broken feature hook
  Scenario: D1
    Then a step passes
  Scenario: D2
    Then a step passes
''',
    "features/e_empty.feature": u'''
Feature: No scenarios
''',
    "features/f_last.feature": u'''
Feature: Last
  Scenario: F1
    Then a step passes
  Rule: F-Rule
    Scenario: F2
      Then a step passes
''',
}


def part5_end_to_end():
    emit("== PART 5: end-to-end")
    workdir = tempfile.mkdtemp(prefix="c14_equiv_")
    try:
        for relname, text in E2E_FILES.items():
            path = os.path.join(workdir, relname)
            if not os.path.isdir(os.path.dirname(path)):
                os.makedirs(os.path.dirname(path))
            with io.open(path, "w", encoding="utf-8") as f:
                f.write(text.lstrip())
        env = dict(os.environ)
        env["PYTHONPATH"] = "/tmp/wtX/C14"
        env["PYTHONDONTWRITEBYTECODE"] = "1"
        env.pop("BEHAVE_ARGS", None)
        base = [PYTHON, "-m", "behave", "--no-color", "-f", "null"]
        runs = []
        for fmt in [None] + FORMATS + ["entity_first", "bogus"]:
            args = []
            if fmt is not None:
                args = ["-D", "behave.reporter.summary.output_format=" + fmt]
            runs.append(args)
        fmt3 = ["-D", "behave.reporter.summary.output_format=v3"]
        fmt1 = ["-D", "behave.reporter.summary.output_format=v1"]
        for fmt_args in (fmt1, fmt3):
            runs.append(fmt_args + ["--stop"])
            runs.append(fmt_args + ["--dry-run"])
            runs.append(fmt_args + ["--tags=wip"])
            runs.append(fmt_args + ["--tags=not wip"])
            runs.append(fmt_args + ["--tags=wip", "--stop"])
            runs.append(fmt_args + ["-n", "C2"])
            runs.append(fmt_args + ["features/c_rules.feature:14"])
            runs.append(fmt_args + ["features/e_empty.feature"])
            runs.append(fmt_args + ["features/f_last.feature",
                                    "features/a_basic.feature"])
            runs.append(fmt_args + ["--no-summary"])
            runs.append(fmt_args + ["features/b_outline.feature", "--stop"])
        for args in runs:
            proc = subprocess.Popen(base + args, cwd=workdir, env=env,
                                    stdout=subprocess.PIPE,
                                    stderr=subprocess.STDOUT)
            output, _ = proc.communicate()
            output = output.decode("utf-8", "replace").replace(workdir, "<W>")
            emit("-- behave", " ".join(args), "rc=%s" % proc.returncode)
            keep = False
            for line in mask(output).splitlines():
                # -- KEEP: problem-scenario lists, summary lines, hook diagnostics.
                if (line.startswith(("Failing scenarios", "Errored scenarios",
                                     "HOOK-ERROR", "UNKNOWN", "ABORTED", "Took"))
                        or re.match(r"^\s*\d+ \w", line)
                        or line.startswith("  features/")):
                    emit("  |" + line)
    finally:
        shutil.rmtree(workdir, ignore_errors=True)


def main():
    part1_formats()
    part2_reporters()
    part3_visitor()
    part4_collector()
    part5_end_to_end()
    text = "\n".join(OUT) + "\n"
    if sys.version_info[0] == 2:
        text = text.encode("utf-8")
    sys.stdout.write(text)


if __name__ == "__main__":
    main()
