# -*- coding: UTF-8 -*-
"""Equivalence transcript for property C13 (context scoping and cleanups).

Prints a canonical transcript (no timings, no line numbers, no tmp paths) of:
  A. Context scoping: visibility, shadowing, deletion, __contains__, warnings
  B. Cleanups: LIFO, exactly-once, named layers, raising cleanups, error handler
  C. Fixtures: generator/plain fixtures, setup errors, multi-yield fixtures
  D. execute_steps: text/table restore (in-process, via a real feature)
  E. Complete "python -m behave" runs (subprocess) with hooks, rules, cleanups
"""
from __future__ import print_function
import sys
WORKTREE = "/tmp/wtT/C13"
sys.path.insert(0, WORKTREE)

import io
import os
import re
import shutil
import subprocess
import tempfile
import warnings
import contextlib

import behave
from behave.runner import (Context, ContextMaskWarning, ContextMode,
                           ModelRunner, scoped_context_layer)
from behave.configuration import Configuration
from behave.fixture import (fixture, use_fixture, use_fixture_by_tag,
                            use_composite_fixture_with, fixture_call_params,
                            InvalidFixtureError)

assert os.path.abspath(behave.__file__).startswith(WORKTREE), behave.__file__

LINE_RE = re.compile(r"line \d+")
TOOK_RE = re.compile(r"Took \d+m[\d.]+s")
ADDR_RE = re.compile(r"0x[0-9a-fA-F]+")


def canon(text, tmpdir=None):
    if tmpdir:
        text = text.replace(os.path.realpath(tmpdir), "<TMP>")
        text = text.replace(tmpdir, "<TMP>")
    text = LINE_RE.sub("line N", text)
    text = TOOK_RE.sub("Took T", text)
    text = ADDR_RE.sub("0xADDR", text)
    # -- traceback source lines of behave internals may legitimately move;
    #    keep only "File ..., line N, in func" rows plus the messages.
    return text


def emit(*args):
    print(canon(u" ".join(u"%s" % (a,) for a in args)))


def section(title):
    print()
    print("=" * 8, title)


@contextlib.contextmanager
def captured_stdout():
    old = sys.stdout
    sys.stdout = buf = io.StringIO()
    try:
        yield buf
    finally:
        sys.stdout = old


def strip_traceback_sources(text):
    """Drop traceback code lines (the line after each 'File ...' row)."""
    out = []
    skip_next = False
    for line in text.splitlines():
        if skip_next and line.startswith("    "):
            skip_next = False
            continue
        skip_next = False
        if line.strip() and not line.strip().strip("^~ "):
            continue    # -- caret/underline rows of Python 3.11+ tracebacks
        if line.lstrip().startswith('File "'):
            # keep only the function name, the file basename
            m = re.match(r'\s*File "(.*)", line (?:\d+|N), in (.*)', line)
            if m:
                line = "  File %s in %s" % (os.path.basename(m.group(1)), m.group(2))
            skip_next = True
        out.append(line)
    return "\n".join(out)


def make_context(verbose=False):
    config = Configuration(command_args=[], load_config=False)
    config.verbose = verbose
    runner = ModelRunner(config)
    context = Context(runner)
    runner.context = context
    return runner, context


def probe(context, names):
    row = []
    for name in names:
        row.append("%s=%r/%s/%s" % (name, getattr(context, name, "<none>"),
                                    name in context, hasattr(context, name)))
    emit("   probe:", ", ".join(row), "| depth", len(context._stack))


# ---------------------------------------------------------------------------
section("A. scoping")
runner, context = make_context()
NAMES = ["a", "b", "c", "feature", "text", "table", "failed", "aborted",
         "config_missing", "_stack", "_nope", "@cleanups", "@layer"]
probe(context, NAMES)
with warnings.catch_warnings(record=True) as wlist:
    warnings.simplefilter("always")
    with context.use_with_user_mode():
        context.a = "root-a"
    probe(context, NAMES)
    context._push("feature")
    probe(context, NAMES)
    with context.use_with_user_mode():
        context.b = "feature-b"
        context.a = "feature-a"      # shadows root value, user masks user
    probe(context, NAMES)
    context._push("rule")
    context._push("scenario")
    context.a = "scenario-a (by behave)"    # behave masks user attribute
    with context.use_with_user_mode():
        context.c = "scenario-c"
        context.feature = "user-feature"    # user masks behave attribute
    probe(context, NAMES)
    emit("   layers:", [f.get("@layer") for f in context._stack])
    for name in ["b", "zzz", "a", "a"]:
        try:
            delattr(context, name)
            emit("   del", name, "OK")
        except AttributeError as e:
            emit("   del", name, "AttributeError:", e)
    probe(context, NAMES)
    context._pop()
    probe(context, NAMES)
    context._pop()
    context._pop()
    probe(context, NAMES)
    for name in ["zzz", "_zzz"]:
        try:
            getattr(context, name)
        except AttributeError as e:
            emit("   get", name, "AttributeError:", e)
    emit("   contains-private:", "_stack" in context, "_mode" in context,
         "_zzz" in context)
    try:
        "" in context
    except Exception as e:
        emit("   contains-empty:", e.__class__.__name__, e)
    try:
        [] in context
    except Exception as e:
        emit("   contains-unhashable:", e.__class__.__name__, e)
    emit("   contains-nonstr:", (1,) in context)
    context._set_root_attribute("failed", True)
    context.abort()
    probe(context, ["failed", "aborted"])
    emit("   use_or_assign:", context.use_or_assign_param("p1", 1),
         context.use_or_assign_param("p1", 2),
         context.use_or_create_param("p2", dict, x=1),
         context.use_or_create_param("p2", dict, x=2))
for w in wlist:
    emit("   warning:", w.category.__name__, w.message)

# -- verbose mode + root attribute masking
runner, context = make_context(verbose=True)
with warnings.catch_warnings(record=True) as wlist:
    warnings.simplefilter("always")
    with context.use_with_user_mode():
        context.v = 1
        context._push()
        context.v = 2
        try:
            context.failed = "user-failed"
        except KeyError as e:
            emit("   masking unrecorded root attr: KeyError", e)
        context._set_root_attribute("v", "root-v-by-user")
        context._mode = ContextMode.BEHAVE
        context._set_root_attribute("v", "root-v-by-behave")
        context._set_root_attribute("failed", True)
        context._mode = ContextMode.USER
        probe(context, ["v", "failed"])
        context._pop()
        probe(context, ["v", "failed"])
for w in wlist:
    emit("   warning:", w.category.__name__, w.message)


# ---------------------------------------------------------------------------
section("B. cleanups")
calls = []


def make_cleanup(name, error=None):
    def cleanup(*args, **kwargs):
        calls.append((name, args, sorted(kwargs.items())))
        if error:
            raise error
    cleanup.__name__ = "cleanup_" + name
    return cleanup


class CallableObj(object):
    def __init__(self, name, error=None):
        self.name = name
        self.error = error

    def __call__(self):
        calls.append((self.name, "obj"))
        if self.error:
            raise self.error

    def __repr__(self):
        return "<CallableObj %s>" % self.name


def run_case(title, body, fail_on_cleanup_errors=None, handler=None,
             pop_layers=None):
    del calls[:]
    runner, context = make_context()
    if fail_on_cleanup_errors is not None:
        context.fail_on_cleanup_errors = fail_on_cleanup_errors
    if handler is not None:
        context.on_cleanup_error = handler
    emit("--", title)
    with captured_stdout() as out:
        outcome = []
        try:
            body(context)
        except Exception as e:  # noqa
            outcome.append("body raised %s: %s" % (e.__class__.__name__, e))
        while len(context._stack) > 1:
            layer = context._stack[0].get("@layer")
            try:
                context._pop()
                outcome.append("pop %s ok" % layer)
            except Exception as e:
                outcome.append("pop %s raised %s: %s" % (layer, e.__class__.__name__, e))
            outcome.append("calls-so-far=%d depth=%d" % (len(calls), len(context._stack)))
        # -- testrun layer
        try:
            context._do_cleanups()
            outcome.append("testrun cleanups ok")
        except Exception as e:
            outcome.append("testrun cleanups raised %s: %s" % (e.__class__.__name__, e))
    for line in outcome:
        emit("   ", line)
    emit("    calls:", calls)
    emit("    cleanup_errors:", context.cleanup_errors)
    printed = strip_traceback_sources(out.getvalue())
    for line in printed.splitlines():
        emit("    | " + line)


def body_lifo(context):
    context.add_cleanup(make_cleanup("t1"))
    context._push("feature")
    context.add_cleanup(make_cleanup("f1"))
    context.add_cleanup(make_cleanup("f2"), 1, 2, k="v")
    context._push("scenario")
    context.add_cleanup(make_cleanup("s1"))
    context.add_cleanup(make_cleanup("s2"), "arg")
    context.add_cleanup(make_cleanup("s3"), key="value")
    context.add_cleanup(make_cleanup("f3-from-scenario"), layer="feature")
    context.add_cleanup(make_cleanup("t2-from-scenario"), 7, layer="testrun")


def body_duplicates(context):
    same = make_cleanup("dup")
    context._push("scenario")
    context.add_cleanup(same)
    context.add_cleanup(same)
    context.add_cleanup(same, 1)
    context.add_cleanup(same, 1)
    obj = CallableObj("obj1")
    context.add_cleanup(obj)
    context.add_cleanup(obj)


def body_errors(context):
    context._push("feature")
    context.add_cleanup(make_cleanup("f1"))
    context._push("scenario")
    context.add_cleanup(make_cleanup("s1"))
    context.add_cleanup(make_cleanup("s2-bad", ValueError("s2 broke")))
    context.add_cleanup(make_cleanup("s3"))
    context.add_cleanup(make_cleanup("s4-bad", KeyError("s4 broke")), 1)
    context.add_cleanup(CallableObj("s5-bad-obj", RuntimeError("s5 broke")))
    context.add_cleanup(make_cleanup("s6"))


def body_unknown_layer(context):
    context._push("scenario")
    context.add_cleanup(make_cleanup("s1"))
    context.add_cleanup(make_cleanup("r1"), layer="rule")


def body_unnamed_layer(context):
    context._push()
    context.add_cleanup(make_cleanup("anon1"))
    with scoped_context_layer(context, "scenario"):
        context.add_cleanup(make_cleanup("inner1"))
        context.add_cleanup(make_cleanup("inner2-bad", IOError("inner2")))
    context.add_cleanup(make_cleanup("anon2"))


def body_not_callable(context):
    context.add_cleanup("not-callable")


def body_nested_registration(context):
    context._push("scenario")

    def registers_more():
        calls.append(("registers_more",))
        context.add_cleanup(make_cleanup("late"))
    context.add_cleanup(make_cleanup("first"))
    context.add_cleanup(registers_more)
    context.add_cleanup(make_cleanup("last"))


def body_empty(context):
    context._push("feature")
    context._push("scenario")


def body_no_cleanups_key(context):
    context._push("scenario")
    del context._stack[0]["@cleanups"]


def recording_handler(context, cleanup_func, exception):
    name = getattr(cleanup_func, "__name__", repr(cleanup_func))
    print("HANDLER: %s -> %s: %s" % (name, exception.__class__.__name__, exception))


def raising_handler(context, cleanup_func, exception):
    print("RAISING-HANDLER called for %s" % exception)
    raise LookupError("handler broke on %s" % exception)


run_case("lifo + layers", body_lifo)
run_case("duplicates", body_duplicates)
run_case("errors (default handler, fail on errors)", body_errors)
run_case("errors (fail_on_cleanup_errors=False)", body_errors,
         fail_on_cleanup_errors=False)
run_case("errors (recording handler)", body_errors, handler=recording_handler)
run_case("errors (ignore handler)", body_errors,
         handler=Context.ignore_cleanup_error)
run_case("errors (raising handler)", body_errors, handler=raising_handler)
run_case("unknown layer", body_unknown_layer)
run_case("unnamed layer + scoped_context_layer", body_unnamed_layer)
run_case("not callable", body_not_callable)
run_case("cleanup registering a cleanup", body_nested_registration)
run_case("empty layers", body_empty)
run_case("frame without @cleanups", body_no_cleanups_key)


# ---------------------------------------------------------------------------
section("C. fixtures")


@fixture
def gen_fixture(context, name="gen", *args, **kwargs):
    calls.append(("setup", name, args, sorted(kwargs.items())))
    setattr(context, name, "value-of-" + name)
    yield "result-" + name
    calls.append(("teardown", name, name in context))


@fixture
def plain_fixture(context, name="plain"):
    calls.append(("setup-only", name))
    return "plain-" + name


@fixture
def bad_setup_fixture(context, name="bad_setup"):
    calls.append(("setup-start", name))
    raise RuntimeError("setup of %s failed" % name)
    yield name      # pylint: disable=unreachable


@fixture
def bad_teardown_fixture(context, name="bad_teardown"):
    calls.append(("setup", name))
    yield name
    calls.append(("teardown-start", name))
    raise RuntimeError("teardown of %s failed" % name)


@fixture
def half_setup_fixture(context, name="half"):
    calls.append(("setup-part1", name))
    try:
        raise ValueError("half way")
        yield name  # pylint: disable=unreachable
    finally:
        calls.append(("finally", name))


@fixture
def two_yields_fixture(context):
    calls.append(("setup", "two"))
    yield 1
    calls.append(("between", "two"))
    yield 2
    calls.append(("never", "two"))


@fixture
def no_yield_generator(context):
    calls.append(("setup", "noyield"))
    return
    yield None  # pylint: disable=unreachable


@fixture
def composite(context):
    calls.append(("setup", "composite"))
    return use_composite_fixture_with(context, [
        fixture_call_params(gen_fixture, name="c1"),
        fixture_call_params(bad_teardown_fixture, name="c2"),
        fixture_call_params(gen_fixture, name="c3"),
    ])


def fx_basic(context):
    context._push("feature")
    emit("    use gen(f):", use_fixture(gen_fixture, context, "gf", 1, k=2))
    context._push("scenario")
    emit("    use gen(s1):", use_fixture(gen_fixture, context, name="gs1"))
    emit("    use plain:", use_fixture(plain_fixture, context))
    emit("    use gen(s2):", use_fixture(gen_fixture, context, name="gs2"))
    context.add_cleanup(make_cleanup("after-fixtures"))
    emit("    visible:", context.gf, context.gs1, context.gs2)


def fx_setup_error(context):
    context._push("scenario")
    use_fixture(gen_fixture, context, name="ok1")
    use_fixture(bad_setup_fixture, context)


def fx_half_setup(context):
    context._push("scenario")
    use_fixture(gen_fixture, context, name="ok1")
    use_fixture(half_setup_fixture, context)


def fx_teardown_error(context):
    context._push("scenario")
    use_fixture(gen_fixture, context, name="ok1")
    use_fixture(bad_teardown_fixture, context)
    use_fixture(gen_fixture, context, name="ok2")


def fx_two_yields(context):
    context._push("scenario")
    emit("    use two:", use_fixture(two_yields_fixture, context))
    use_fixture(gen_fixture, context, name="ok1")


def fx_no_yield(context):
    context._push("scenario")
    use_fixture(no_yield_generator, context)


def fx_composite(context):
    context._push("scenario")
    emit("    use composite:", use_fixture(composite, context))


def fx_by_tag(context):
    registry = {
        "fixture.gen": gen_fixture,
        "fixture.gen2": (gen_fixture, ("tagged",), {"extra": 1}),
        "fixture.plain": fixture_call_params(plain_fixture, name="via-tag"),
        "fixture.bogus": 42,
    }
    context._push("scenario")
    for tag in ["fixture.gen", "fixture.gen2", "fixture.plain",
                "fixture.unknown", "fixture.bogus"]:
        try:
            emit("    tag", tag, "->", use_fixture_by_tag(tag, context, registry))
        except Exception as e:
            emit("    tag", tag, "raised", e.__class__.__name__, e)


def fx_same_fixture_twice(context):
    context._push("scenario")
    use_fixture(gen_fixture, context, name="twice")
    use_fixture(gen_fixture, context, name="twice")


for title, body in [("basic", fx_basic), ("setup error", fx_setup_error),
                    ("half setup", fx_half_setup),
                    ("teardown error", fx_teardown_error),
                    ("two yields", fx_two_yields), ("no yield", fx_no_yield),
                    ("composite", fx_composite), ("by tag", fx_by_tag),
                    ("same fixture twice", fx_same_fixture_twice)]:
    run_case("fixture: " + title, body)


# ---------------------------------------------------------------------------
section("D+E. complete runs (python -m behave)")

ENVIRONMENT = u'''
from __future__ import print_function
import os
from behave.fixture import fixture, use_fixture

LOG = os.environ["C13_LOG"]
MODE = os.environ.get("C13_MODE", "")

def log(*args):
    with open(LOG, "a") as f:
        f.write(u" ".join(u"%s" % (a,) for a in args) + u"\\n")

def cleanup(context, name, error=None):
    layers = [frame.get("@layer") for frame in context._stack]
    log("CLEANUP", name, "layers=%s" % ",".join(str(x) for x in layers))
    if error:
        raise RuntimeError("cleanup %s failed" % name)

@fixture
def resource(context, name="res"):
    log("FIXTURE-SETUP", name)
    setattr(context, name, "resource:" + name)
    yield name
    log("FIXTURE-TEARDOWN", name, "visible=%s" % (name in context))

@fixture
def broken_resource(context, name="broken"):
    log("FIXTURE-SETUP", name)
    yield name
    log("FIXTURE-TEARDOWN", name)
    raise RuntimeError("teardown %s failed" % name)

@fixture
def broken_setup(context):
    log("FIXTURE-SETUP broken_setup")
    raise RuntimeError("setup failed")
    yield

def before_all(context):
    context.log = log
    context.make_cleanup = cleanup
    context.root_value = "root"
    context.shadowed = "root-shadowed"
    context.add_cleanup(cleanup, context, "all-1")
    context.add_cleanup(cleanup, context, "all-2", error=(MODE == "testrun_error"))
    use_fixture(resource, context, name="all_res")
    log("HOOK before_all")

def before_feature(context, feature):
    log("HOOK before_feature", feature.name, "root_value=%s" % context.root_value,
        "s_attr=%s" % ("s_attr" in context))
    context.f_attr = "feature:" + feature.name
    context.add_cleanup(cleanup, context, "feature-1:" + feature.name)
    context.add_cleanup(cleanup, context, "feature-2:" + feature.name,
                        error=("feature_cleanup_error" in feature.tags))

def before_rule(context, rule):
    log("HOOK before_rule", rule.name, "f_attr=%s" % context.f_attr)
    context.r_attr = "rule:" + rule.name
    context.add_cleanup(cleanup, context, "rule-1:" + rule.name,
                        error=("rule_cleanup_error" in rule.tags))

def before_tag(context, tag):
    if tag == "fixture.resource":
        use_fixture(resource, context, name="tag_res")
    elif tag == "fixture.broken_resource":
        use_fixture(broken_resource, context)
    elif tag == "fixture.broken_setup":
        use_fixture(broken_setup, context)

def before_scenario(context, scenario):
    log("HOOK before_scenario", scenario.name,
        "s_attr=%s" % ("s_attr" in context),
        "r_attr=%s" % getattr(context, "r_attr", None),
        "shadowed=%s" % context.shadowed)
    context.add_cleanup(cleanup, context, "scenario-hook:" + scenario.name)
    if "hook_error" in scenario.tags:
        raise RuntimeError("before_scenario failed")

def after_scenario(context, scenario):
    log("HOOK after_scenario", scenario.name, "status=%s" % scenario.status.name,
        "s_attr=%s" % getattr(context, "s_attr", None))
    if "after_hook_error" in scenario.tags:
        raise RuntimeError("after_scenario failed")

def after_rule(context, rule):
    log("HOOK after_rule", rule.name, "status=%s" % rule.status.name,
        "s_attr=%s" % ("s_attr" in context))

def after_feature(context, feature):
    log("HOOK after_feature", feature.name, "status=%s" % feature.status.name,
        "s_attr=%s" % ("s_attr" in context), "r_attr=%s" % ("r_attr" in context),
        "shadowed=%s" % context.shadowed)

def after_all(context):
    log("HOOK after_all", "failed=%s" % context.failed,
        "cleanup_errors=%s" % context.cleanup_errors,
        "f_attr=%s" % ("f_attr" in context), "shadowed=%s" % context.shadowed)
'''

STEPS = u'''
from __future__ import print_function
from behave import given, when, then, step

@given(u'I set "{name}" to "{value}"')
def step_set(context, name, value):
    setattr(context, name, value)
    context.log("STEP set", name, value)

@then(u'"{name}" is "{value}"')
def step_is(context, name, value):
    actual = getattr(context, name)
    context.log("STEP is", name, actual)
    assert actual == value, "%r != %r" % (actual, value)

@then(u'"{name}" is missing')
def step_missing(context, name):
    context.log("STEP missing", name, name in context, hasattr(context, name))
    assert name not in context
    assert not hasattr(context, name)

@when(u'I try to delete "{name}"')
def step_delete(context, name):
    try:
        delattr(context, name)
        context.log("STEP delete", name, "OK")
    except AttributeError as e:
        context.log("STEP delete", name, "AttributeError: %s" % e)

@given(u'a cleanup "{name}"')
def step_cleanup(context, name):
    context.add_cleanup(context.make_cleanup, context, name)

@given(u'a bad cleanup "{name}"')
def step_bad_cleanup(context, name):
    context.add_cleanup(context.make_cleanup, context, name, error=True)

@given(u'a layered cleanup "{name}" at "{layer}"')
def step_layer_cleanup(context, name, layer):
    context.add_cleanup(context.make_cleanup, context, name, layer=layer)

@given(u'a bad layered cleanup "{name}" at "{layer}"')
def step_bad_layer_cleanup(context, name, layer):
    context.add_cleanup(context.make_cleanup, context, name, error=True, layer=layer)

@step(u'a failing step')
def step_fails(context):
    context.log("STEP failing")
    assert False, "XFAIL-STEP"

@step(u'a step that raises')
def step_raises(context):
    context.log("STEP raising")
    raise RuntimeError("XRAISE-STEP")

@step(u'a passing step')
def step_passes(context):
    context.log("STEP passing")

def describe(context):
    table = getattr(context, "table", None)
    if table is not None:
        table = [list(table.headings)] + [list(row.cells) for row in table.rows]
    return "text=%r table=%r" % (getattr(context, "text", None), table)

@step(u'a step with data')
def step_with_data(context):
    context.log("STEP with data:", describe(context))

@when(u'I run substeps')
def step_substeps(context):
    context.log("STEP substeps before:", describe(context))
    result = context.execute_steps(u"""
        Given a passing step
        And a step with data
          \\"\\"\\"
          inner text
          \\"\\"\\"
        And a step with data
          | inner | table |
          | 1     | 2     |
        And I set "sub_attr" to "from-substep"
        And a cleanup "from-substep"
    """)
    context.log("STEP substeps result:", result)
    context.log("STEP substeps after:", describe(context))
    context.log("STEP substeps attr:", context.sub_attr)

@when(u'I run nested substeps')
def step_nested_substeps(context):
    context.log("STEP nested before:", describe(context))
    context.execute_steps(u"""
        When I run substeps
          | mid | table |
          | a   | b     |
        Then a step with data
    """)
    context.log("STEP nested after:", describe(context))

@when(u'I run {kind} substeps and catch the error')
def step_failing_substeps(context, kind):
    steps = {
        u"failing": u"Given a step with data\\n  | x |\\n  | y |\\nAnd a failing step\\nAnd a passing step",
        u"raising": u"Given a step that raises",
        u"undefined": u"Given an unknown step for sure",
    }[kind]
    context.log("STEP catch before:", describe(context))
    try:
        context.execute_steps(steps)
        context.log("STEP catch: no error")
    except AssertionError as e:
        lines = [line for line in (u"%s" % e).splitlines()
                 if not line.startswith("  ")]
        context.log("STEP catch AssertionError:", " // ".join(lines))
    context.log("STEP catch after:", describe(context))

@when(u'I run failing substeps uncaught')
def step_failing_substeps_uncaught(context):
    context.execute_steps(u"Given a failing step")
'''

FEATURE_SCOPES = u'''
Feature: Scopes
  Background:
    Given I set "bg_attr" to "bg"

  Scenario: S1 sets attributes
    Given I set "s_attr" to "scenario1"
    And I set "shadowed" to "s1-shadow"
    Then "s_attr" is "scenario1"
    And "shadowed" is "s1-shadow"
    And "f_attr" is "feature:Scopes"
    And "root_value" is "root"
    And "all_res" is "resource:all_res"

  Scenario: S2 does not see S1 attributes
    Then "s_attr" is missing
    And "shadowed" is "root-shadowed"
    And "bg_attr" is "bg"
    When I try to delete "f_attr"
    And I try to delete "bg_attr"
    And I try to delete "nothing"
    Then "bg_attr" is missing
    And "f_attr" is "feature:Scopes"

  Rule: R1
    Scenario: S3 in rule
      Given I set "s_attr" to "scenario3"
      Then "r_attr" is "rule:R1"
      And "f_attr" is "feature:Scopes"

    Scenario: S4 in rule
      Then "s_attr" is missing
      And "r_attr" is "rule:R1"

  Rule: R2
    Scenario: S5 in other rule
      Then "r_attr" is "rule:R2"
'''

FEATURE_CLEANUPS = u'''
Feature: Cleanups
  Scenario: C1 lifo
    Given a cleanup "c1-a"
    And a cleanup "c1-b"
    And a layered cleanup "c1-feature" at "feature"
    And a layered cleanup "c1-testrun" at "testrun"
    And a cleanup "c1-c"

  Scenario: C2 cleanup after failing step
    Given a cleanup "c2-a"
    And a failing step
    And a cleanup "c2-never"

  Scenario: C3 cleanup after raising step
    Given a cleanup "c3-a"
    And a step that raises

  Scenario: C4 bad cleanup
    Given a cleanup "c4-a"
    And a bad cleanup "c4-bad"
    And a cleanup "c4-c"
    And a bad cleanup "c4-bad2"
    And a passing step

  @hook_error
  Scenario: C5 hook error
    Given a cleanup "c5-never"

  @after_hook_error
  Scenario: C6 after hook error
    Given a cleanup "c6-a"

  @fixture.resource
  Scenario: C7 fixture by tag
    Then "tag_res" is "resource:tag_res"
    Given a cleanup "c7-a"

  @fixture.broken_resource
  Scenario: C8 broken fixture teardown
    Given a passing step

  @fixture.broken_setup
  Scenario: C9 broken fixture setup
    Given a passing step

  Scenario: C10 after fixtures
    Then "tag_res" is missing

  Scenario Outline: C11 outline <name>
    Given a cleanup "c11-<name>"
    And a <kind> step

    Examples:
      | name | kind    |
      | x    | passing |
      | y    | failing |
'''

FEATURE_LAYER_ERRORS = u'''
@feature_cleanup_error
Feature: Layer errors
  Scenario: L1 passes
    Given a passing step

  @rule_cleanup_error
  Rule: LR1 bad rule cleanup
    Scenario: L2 passes
      Given a passing step
      And a bad layered cleanup "l2-rule-bad" at "rule"

  Rule: LR2 fine
    Scenario: L3 passes
      Given a passing step
    Scenario: L4 unknown layer
      Given a layered cleanup "l4" at "nolayer"
'''

FEATURE_RULE_ERROR_ONLY = u'''
Feature: Rule error only
  Rule: RE1
    Scenario: RE-S1
      Given a bad layered cleanup "re1-rule-bad" at "rule"
      And a layered cleanup "re1-rule-ok" at "rule"
  Rule: RE2
    Scenario: RE-S2
      Given a passing step
'''

FEATURE_SUBSTEPS = u'''
Feature: Substeps
  Scenario: X1 substeps restore text
    When I run substeps
      """
      outer text
      """
    Then "sub_attr" is "from-substep"

  Scenario: X2 substeps restore table
    When I run substeps
      | outer | table |
      | o1    | o2    |

  Scenario: X3 substeps without data
    When I run substeps

  Scenario: X4 nested substeps
    When I run nested substeps
      """
      outermost
      """

  Scenario: X5 failing substeps caught
    When I run failing substeps and catch the error
      """
      keep me
      """
    And I run raising substeps and catch the error
      | keep | me |
      | 1    | 2  |
    And I run undefined substeps and catch the error
    Then a passing step

  Scenario: X6 failing substeps uncaught
    Given a cleanup "x6"
    When I run failing substeps uncaught
    Then a passing step
'''

EMPTY_FEATURE = u'''
Feature: Empty
'''


def write(path, text):
    dirname = os.path.dirname(path)
    if not os.path.isdir(dirname):
        os.makedirs(dirname)
    with io.open(path, "w", encoding="utf-8") as f:
        f.write(text)


def run_behave(tmpdir, args, mode=""):
    log = os.path.join(tmpdir, "hooks.log")
    if os.path.exists(log):
        os.remove(log)
    env = dict(os.environ)
    env["PYTHONPATH"] = WORKTREE
    env["C13_LOG"] = log
    env["C13_MODE"] = mode
    env["PYTHONDONTWRITEBYTECODE"] = "1"
    env.pop("BEHAVE_ARGS", None)
    cmd = [sys.executable, "-m", "behave", "--no-timings", "--no-color"] + args
    proc = subprocess.Popen(cmd, cwd=tmpdir, env=env, stdout=subprocess.PIPE,
                            stderr=subprocess.STDOUT)
    output = proc.communicate()[0].decode("utf-8", "replace")
    emit("-- behave", " ".join(args), "mode=%s" % mode)
    emit("   exit code:", proc.returncode)
    output = strip_traceback_sources(canon(output, tmpdir))
    for line in output.splitlines():
        emit("   | " + line.rstrip())
    emit("   hook/step log:")
    if os.path.exists(log):
        with io.open(log, encoding="utf-8") as f:
            for line in f:
                emit("   > " + canon(line.rstrip(), tmpdir))


tmpdir = tempfile.mkdtemp(prefix="c13equiv")
try:
    write(os.path.join(tmpdir, "features", "environment.py"), ENVIRONMENT)
    write(os.path.join(tmpdir, "features", "steps", "steps.py"), STEPS)
    write(os.path.join(tmpdir, "features", "scopes.feature"), FEATURE_SCOPES)
    write(os.path.join(tmpdir, "features", "cleanups.feature"), FEATURE_CLEANUPS)
    write(os.path.join(tmpdir, "features", "layer_errors.feature"), FEATURE_LAYER_ERRORS)
    write(os.path.join(tmpdir, "features", "rule_error_only.feature"), FEATURE_RULE_ERROR_ONLY)
    write(os.path.join(tmpdir, "features", "substeps.feature"), FEATURE_SUBSTEPS)
    write(os.path.join(tmpdir, "features", "empty.feature"), EMPTY_FEATURE)
    run_behave(tmpdir, ["-f", "plain", "features/scopes.feature"])
    run_behave(tmpdir, ["-f", "plain", "features/cleanups.feature"])
    run_behave(tmpdir, ["-f", "plain", "--no-capture", "features/cleanups.feature",
                        "-n", "C4"])
    run_behave(tmpdir, ["-f", "plain", "features/layer_errors.feature"])
    run_behave(tmpdir, ["-f", "plain", "features/rule_error_only.feature"])
    run_behave(tmpdir, ["-f", "plain", "features/substeps.feature"])
    run_behave(tmpdir, ["-f", "plain", "features/empty.feature",
                        "features/scopes.feature"], mode="testrun_error")
    run_behave(tmpdir, ["-f", "progress", "--stop", "features/cleanups.feature",
                        "features/scopes.feature"])
    run_behave(tmpdir, ["-f", "plain", "--dry-run", "features/cleanups.feature"])
    run_behave(tmpdir, ["-f", "pretty", "--tags=-fixture.broken_setup", "--show-skipped",
                        "features/cleanups.feature"])
finally:
    shutil.rmtree(tmpdir, ignore_errors=True)
