# -*- coding: UTF-8 -*-
"""Equivalence transcript for property C05 (parser error discipline).

Prints a canonical transcript of what the Gherkin parser does for a corpus of
valid, invalid and generated texts: the parsed model or the raised exception
(type, message, line, filename, line_text) and the log records emitted.
"""
from __future__ import print_function, unicode_literals
import sys
sys.path.insert(0, "/tmp/wtT/C05")

import logging
import random

from behave import parser as bparser
from behave import model
from behave.parser import Parser, ParserError, State


# -- LOG CAPTURE: "Malformed table row" warnings are observable output.
class _ListHandler(logging.Handler):
    def __init__(self):
        logging.Handler.__init__(self)
        self.records = []

    def emit(self, record):
        self.records.append("%s:%s" % (record.levelname, record.getMessage()))


LOG = _ListHandler()
_logger = logging.getLogger("behave")
_logger.addHandler(LOG)
_logger.setLevel(logging.DEBUG)
_logger.propagate = False


def show_table(table, indent):
    if table is None:
        return
    print("%stable line=%s headings=%r" % (indent, table.line, list(table.headings)))
    for row in table.rows:
        print("%s  row line=%s cells=%r" % (indent, row.line, list(row.cells)))


def show_tags(tags):
    return [(u"%s" % tag, getattr(tag, "line", None)) for tag in tags]


def show_step(step, indent):
    print("%sstep %r type=%r name=%r line=%s file=%r" % (
        indent, step.keyword, step.step_type, step.name, step.line, step.filename))
    if step.text is not None:
        print("%s  text=%r line=%s" % (indent, u"%s" % step.text,
                                       getattr(step.text, "line", None)))
    show_table(step.table, indent + "  ")


def show_background(background, indent):
    if background is None:
        return
    print("%sbackground %r name=%r line=%s descr=%r" % (
        indent, background.keyword, background.name, background.line,
        list(background.description)))
    for step in background.steps:
        show_step(step, indent + "  ")


def show_scenario(scenario, indent):
    kind = type(scenario).__name__
    print("%s%s %r name=%r line=%s tags=%r descr=%r" % (
        indent, kind, scenario.keyword, scenario.name, scenario.line,
        show_tags(scenario.tags), list(scenario.description)))
    for step in scenario.steps:
        show_step(step, indent + "  ")
    if isinstance(scenario, model.ScenarioOutline):
        for examples in scenario.examples:
            print("%s  examples %r name=%r line=%s tags=%r" % (
                indent, examples.keyword, examples.name, examples.line,
                show_tags(examples.tags)))
            show_table(examples.table, indent + "    ")


def show_rule(rule, indent):
    print("%srule %r name=%r line=%s tags=%r descr=%r" % (
        indent, rule.keyword, rule.name, rule.line, show_tags(rule.tags),
        list(rule.description)))
    show_background(rule.background, indent + "  ")
    for scenario in rule.scenarios:
        show_scenario(scenario, indent + "  ")


def show_feature(feature, indent):
    print("%sfeature %r name=%r line=%s file=%r lang=%r tags=%r descr=%r" % (
        indent, feature.keyword, feature.name, feature.line, feature.filename,
        feature.language, show_tags(feature.tags), list(feature.description)))
    show_background(feature.background, indent + "  ")
    for scenario in feature.scenarios:
        show_scenario(scenario, indent + "  ")
    for rule in feature.rules:
        show_rule(rule, indent + "  ")


def show_result(result, indent="  "):
    if result is None:
        print("%sRESULT None" % indent)
    elif isinstance(result, model.Feature):
        show_feature(result, indent)
        the_parser = getattr(result, "parser", None)
        if the_parser is not None:
            print("%sparser state=%s line=%s language=%r tags=%r" % (
                indent, the_parser.state.name, the_parser.line,
                the_parser.language, show_tags(the_parser.tags)))
    elif isinstance(result, model.Rule):
        show_rule(result, indent)
    elif isinstance(result, (model.Scenario, model.ScenarioOutline)):
        show_scenario(result, indent)
    elif isinstance(result, model.Step):
        show_step(result, indent)
    elif isinstance(result, list):
        print("%slist len=%d" % (indent, len(result)))
        for item in result:
            if isinstance(item, model.Step):
                show_step(item, indent + "  ")
            else:
                print("%s  item %r line=%s" % (indent, u"%s" % item,
                                               getattr(item, "line", None)))
    else:
        print("%sRESULT %r" % (indent, result))


def observe(label, func, *args, **kwargs):
    print("== %s" % label)
    del LOG.records[:]
    try:
        result = func(*args, **kwargs)
    except ParserError as e:
        print("  ParserError line=%r filename=%r line_text=%r" % (
            e.line, e.filename, e.line_text))
        print("  args=%r" % (e.args,))
        print("  str=%r" % (u"%s" % e))
    except Exception as e:   # pylint: disable=broad-except
        print("  INTERNAL %s: %s" % (type(e).__name__, e))
    else:
        show_result(result)
    for record in LOG.records:
        print("  LOG %s" % record)


VALID_FEATURE = u"""\
@f1 @f2
Feature: Alice
  A description line.

  Background: Common
    Given a background step

  @s1
  Scenario: First
    Given a step
    When another step
      | name | size |
      | a    | 1    |
      | b\\|c | 2    |
    Then a result
      \"\"\"
      doc line 1
        doc line 2
      \"\"\"
    And one more
    But not this

  @o1 @o2   # comment
  Scenario Outline: Templ <x>
    Given a <x>
    * a star step

    @e1
    Examples: Ex1
      | x |
      | 1 |
      | 2 |

    Examples: Ex2
      | x |
      | 3 |

  Rule: R1
    Rule description.

    Background: RB
      When rule background

    Example: In rule
      And inherits when
"""


def inject(text, lineno, new_line, replace=False):
    """Insert (or replace) a line at 1-based lineno."""
    lines = text.splitlines()
    if replace:
        lines[lineno - 1] = new_line
    else:
        lines.insert(lineno - 1, new_line)
    return u"\n".join(lines) + u"\n"


FEATURE_CASES = [
    ("empty", u""),
    ("blank-lines", u"\n\n   \n"),
    ("comment-only", u"# just a comment\n"),
    ("valid", VALID_FEATURE),
    ("lang-de", u"# language: de\nFunktionalität: X\n  Szenario: Y\n    Angenommen a\n    Und b\n"),
    ("lang-unknown", u"# language: xx-nope\nFeature: X\n"),
    ("lang-after-tags", u"@t\n# language: de\nFeature: X\n"),
    ("no-feature-text", u"Some prose\n"),
    ("scenario-before-feature", u"Scenario: X\n  Given a\n"),
    ("outline-before-feature", u"Scenario Outline: X\n"),
    ("rule-before-feature", u"Rule: X\n"),
    ("background-before-feature", u"Background: X\n"),
    ("tags-then-garbage", u"@t1\nnonsense\n"),
    ("tags-then-background", u"Feature: F\n@t1\nBackground: B\n"),
    ("second-feature", inject(VALID_FEATURE, 13, u"Feature: Second")),
    ("second-feature-at-end", VALID_FEATURE + u"Feature: Second\n"),
    ("prose-after-steps", inject(VALID_FEATURE, 12, u"    some prose here")),
    ("examples-outside-outline", inject(VALID_FEATURE, 12, u"    Examples: Bad")),
    ("examples-in-feature", u"Feature: F\n  Examples: Bad\n   | x |\n"),
    ("tagged-examples-outside", u"Feature: F\n Scenario: S\n  Given a\n  @t\n  Examples: Bad\n"),
    ("and-without-predecessor", u"Feature: F\n Scenario: S\n  And a\n"),
    ("but-without-predecessor", u"Feature: F\n Scenario: S\n  Given x\n Scenario: T\n  But a\n"),
    ("and-with-background", u"Feature: F\n Background:\n  Given b\n Scenario: S\n  And a\n"),
    ("and-with-empty-background", u"Feature: F\n Background: B\n Scenario: S\n  And a\n"),
    ("star-first", u"Feature: F\n Scenario: S\n  * a\n  When b\n  * c\n"),
    ("table-bad-cells-more", inject(VALID_FEATURE, 14, u"      | c | 3 | extra |")),
    ("table-bad-cells-less", inject(VALID_FEATURE, 14, u"      | c |")),
    ("table-bad-cells-examples", inject(VALID_FEATURE, 32, u"      | 1 | 2 |")),
    ("table-malformed-row", u"Feature: F\n Scenario: S\n  Given a\n   | a | b\n   | 1 | 2 |\n"),
    ("table-single-pipe", u"Feature: F\n Scenario: S\n  Given a\n   |\n   |\n"),
    ("table-at-eof", u"Feature: F\n Scenario: S\n  Given a\n   | a |\n   | 1 |"),
    ("table-before-step", u"Feature: F\n Scenario: S\n  desc\n  @t\n  Scenario: T\n"),
    ("table-start-without-step", u"Feature: F\n Scenario Outline: S\n  Given a\n  Examples: E\n    | x |\n Scenario: T\n"),
    ("table-then-prose", u"Feature: F\n Scenario: S\n  Given a\n   | a |\n  prose\n"),
    ("table-then-scenario", u"Feature: F\n Scenario: S\n  Given a:\n   | a |\n Scenario: T\n  Given b\n"),
    ("examples-no-table-then-scenario", u"Feature: F\n Scenario Outline: S\n  Given a\n  Examples: E\n Scenario: T\n"),
    ("examples-no-table-then-prose", u"Feature: F\n Scenario Outline: S\n  Given a\n  Examples: E\n  prose\n"),
    ("bad-tag", inject(VALID_FEATURE, 8, u"  @s0 nonsense")),
    ("bad-tag-initial", u"@ok bad\nFeature: F\n"),
    ("tag-with-comment", u"@ok #bad stuff @x\nFeature: F\n"),
    ("tag-empty-at", u"@ @x\nFeature: F\n"),
    ("background-with-tags", u"Feature: F\n @t\n Background: B\n"),
    ("second-background", u"Feature: F\n Background: A\n  Given a\n Background: B\n"),
    ("second-background-no-steps", u"Feature: F\n Background: A\n Background: B\n  Given b\n"),
    ("background-after-scenario", u"Feature: F\n Scenario: S\n  Given a\n Background: B\n"),
    ("background-after-scenario-descr", u"Feature: F\n Scenario: S\n Background: B\n"),
    ("second-background-in-rule", u"Feature: F\n Rule: R\n  Background: A\n   Given a\n  Background: B\n"),
    ("docstring-before-step", u"Feature: F\n Scenario Outline: S\n  Given a\n  Examples: E\n   | x |\n   | 1 |\n  \"\"\"\n"),
    ("docstring-unterminated", u"Feature: F\n Scenario: S\n  Given a\n   \"\"\"\n   text\n"),
    ("docstring-bad-indent", u"Feature: F\n Scenario: S\n  Given a\n     \"\"\"\n   text\n     \"\"\"\n"),
    ("docstring-single-quotes", u"Feature: F\n Scenario: S\n  Given a:\n   '''\n   text\n\n   # not comment\n   '''\n  Then b\n"),
    ("docstring-mixed-quotes", u"Feature: F\n Scenario: S\n  Given a\n   '''\n   \"\"\"\n   '''\n"),
    ("feature-in-steps", u"Feature: F\n Scenario: S\n  Given a\n  Feature: G\n"),
    ("rule-in-steps", u"Feature: F\n Scenario: S\n  Given a\n  Rule: G\n  Scenario: T\n"),
    ("background-in-steps", u"Feature: F\n Scenario: S\n  Given a\n  Background: G\n"),
    ("background-in-steps-tagged", u"Feature: F\n Scenario: S\n  Given a\n  @t\n  Background: G\n"),
    ("outline-keyword-in-taggable", u"Feature: F\n @t\n @u\n Scenario Template: G\n  Given <a>\n Examples:\n  | a |\n"),
    ("garbage-after-tags-in-feature", u"Feature: F\n @t\n garbage\n"),
    ("feature-after-tags-in-feature", u"Feature: F\n @t\n Feature: G\n"),
    ("lowercase-step-keywords", u"Feature: F\n Scenario: S\n  given a\n  WHEN b\n  and c\n"),
    ("crlf", u"Feature: F\r\n Scenario: S\r\n  Given a\r\n   \"\"\"\r\n   t  \r\n   \"\"\"\r\n"),
    ("comment-lines-everywhere", u"# c\nFeature: F\n # c\n Scenario: S\n  # c\n  Given a\n   | a |\n   # c\n   | 1 |\n"),
    ("weird-unicode", u"\ufeffFeature: F\n"),
    ("only-tags", u"@a @b\n"),
    ("feature-only-tags-at-end", u"Feature: F\n @a\n"),
]

LINE_POOL = [
    u"Feature: F", u"Rule: R", u"Background: B", u"Scenario: S", u"Example: E",
    u"Scenario Outline: O", u"Scenario Template: T", u"Examples: X", u"Scenarios: Y",
    u"Given a", u"When b", u"Then c", u"And d", u"But e", u"* f", u"given g:",
    u"| a | b |", u"| 1 | 2 |", u"| 1 |", u"| x | y | z |", u"|", u"| open",
    u"@t1", u"@t1 @t2 # c", u"@t1 oops", u"\"\"\"", u"'''", u"  \"\"\"", u"x \"\"\"",
    u"some prose", u"# comment", u"# language: fr", u"# language: zz", u"",
    u"   ", u"Feature", u"Scenario:", u":", u"@", u"Fonctionnalité: G", u"Soit h",
]


def generated_texts(count, seed):
    rng = random.Random(seed)
    for index in range(count):
        length = rng.randint(1, 9)
        lines = []
        for _ in range(length):
            indent = u" " * rng.choice((0, 0, 2, 4))
            lines.append(indent + rng.choice(LINE_POOL))
        if rng.random() < 0.6:
            lines.insert(0, u"Feature: Gen%d" % index)
        if rng.random() < 0.4:
            lines.insert(1, u"  Scenario: GenS")
        yield u"\n".join(lines)


def run_common():
    for name, text in FEATURE_CASES:
        observe("parse_feature[%s]" % name, bparser.parse_feature, text,
                None, "features/%s.feature" % name)
    observe("parse_feature[valid,no-filename]", bparser.parse_feature, VALID_FEATURE)
    observe("parse_feature[second-feature,no-filename]", bparser.parse_feature,
            VALID_FEATURE + u"Feature: Second\n")
    observe("parse_feature[lang=fr]", bparser.parse_feature,
            u"Fonctionnalité: F\n Scénario: S\n  Soit a\n  Et b\n  Feature: X\n", "fr", "fr.feature")
    observe("parse_feature[lang=nope]", bparser.parse_feature, u"Feature: F\n", "nope", "x.feature")
    observe("parse_feature[bytes]", bparser.parse_feature, b"Feature: F\n")

    # -- OTHER ENTRY POINTS:
    steps_cases = [
        ("ok", u"Given a\nWhen b\n  | x |\n  | 1 |\nThen c\n  \"\"\"\n  t\n  \"\"\"\n"),
        ("empty", u""),
        ("and-first", u"And a\n"),
        ("but-first", u"But a\n"),
        ("star-first", u"* a\nAnd b\n"),
        ("prose", u"Given a\nprose\n"),
        ("table-first", u"| a |\n"),
        ("docstring-first", u"\"\"\"\nabc\n\"\"\"\n"),
        ("bad-cells", u"Given a\n | a | b |\n | 1 |\n"),
        ("table-eof", u"Given a:\n | a | b |\n | 1 | 2 |"),
        ("feature-kw", u"Given a\nFeature: F\n"),
        ("scenario-kw", u"Given a\nScenario: S\nGiven b\n"),
        ("background-kw", u"Given a\nBackground: S\n"),
        ("examples-kw", u"Given a\nExamples: S\n"),
        ("tags", u"Given a\n@t\nScenario Outline: S\nGiven b\nExamples: E\n|x|\n|1|\n"),
        ("bad-tag", u"Given a\n@t oops\n"),
        ("comment", u"# language: de\nGiven a\n"),
    ]
    for name, text in steps_cases:
        observe("parse_steps[%s]" % name, bparser.parse_steps, text, None, "steps-%s.txt" % name)
    observe("parse_steps[lang=de]", bparser.parse_steps, u"Angenommen a\nUnd b\nGiven c\n", "de")
    observe("parse_steps[bytes]", bparser.parse_steps, b"Given a\n")
    observe("parse_step[one]", bparser.parse_step, u"Given a\n  | x |\n  | 1 |\n")
    observe("parse_step[two]", bparser.parse_step, u"Given a\nWhen b\n")
    observe("parse_step[bad]", bparser.parse_step, u"nonsense\n", filename="one.step")

    scenario_cases = [
        ("ok", u"@t\nScenario: S\n  descr\n  Given a\n  And b\n"),
        ("outline", u"Scenario Outline: S\n  Given <a>\n  Examples: E\n   | a |\n   | 1 |\n   | 1 | 2 |\n"),
        ("no-scenario-line", u"Given a\n"),
        ("prose-first", u"prose\n"),
        ("feature-first", u"Feature: F\n"),
        ("background-first", u"Background: B\n"),
        ("examples-first", u"Examples: E\n | a |\n"),
        ("empty", u""),
        ("and-first", u"Scenario: S\n  And a\n"),
    ]
    for name, text in scenario_cases:
        observe("parse_scenario[%s]" % name, bparser.parse_scenario, text, None, "sc-%s.txt" % name)

    rule_cases = [
        ("ok", u"@r\nRule: R\n  descr\n  Background: B\n    Given b\n  Scenario: S\n    And a\n"),
        ("no-rule-line-prose", u"prose\n"),
        ("no-rule-line-background", u"Background: B\n"),
        ("no-rule-line-scenario", u"Scenario: S\n Given a\n"),
        ("rule-twice", u"Rule: R\nRule: Q\n"),
        ("feature", u"Rule: R\n Scenario: S\n  Given a\n Feature: F\n"),
        ("empty", u""),
    ]
    for name, text in rule_cases:
        observe("parse_rule[%s]" % name, bparser.parse_rule, text, None, "rule-%s.txt" % name)

    tags_cases = [u"", u"@a", u"@a @b\n@c", u"@a # @b", u"@a b", u"#x", u"   ", u"@a\n\n b"]
    for text in tags_cases:
        observe("parse_tags[%r]" % text, bparser.parse_tags, text)

    # -- GENERATED TEXTS: all entry points.
    for index, text in enumerate(generated_texts(400, 20240501)):
        observe("gen-feature[%d] %r" % (index, text), bparser.parse_feature, text, None, "gen.feature")
    for index, text in enumerate(generated_texts(150, 77)):
        observe("gen-steps[%d] %r" % (index, text), bparser.parse_steps, text, None, "gen.steps")
    for index, text in enumerate(generated_texts(100, 78)):
        observe("gen-scenario[%d] %r" % (index, text), bparser.parse_scenario, text)
    for index, text in enumerate(generated_texts(100, 79)):
        observe("gen-rule[%d] %r" % (index, text), bparser.parse_rule, text)


def run_specific():
    """Focus: Parser.ask_parse_failure_oracle() in many parser situations."""
    probe_lines = [u"Feature: X", u"Rule: X", u"Background: X", u"Scenario: X",
                   u"Example: X", u"Scenario Outline: X", u"Scenario Template: X",
                   u"Examples: X", u"prose", u"", u"Feature", u"Feature:Rule:",
                   u"Funktionalität: X", u"Szenario: X"]
    setups = [
        ("fresh-feature-variant", None, u"", None),
        ("after-feature", None, u"Feature: F\n", None),
        ("after-scenario", None, u"Feature: F\n Scenario: S\n  Given a\n", None),
        ("after-tags", None, u"Feature: F\n @t\n", None),
        ("after-rule", None, u"Feature: F\n Rule: R\n", None),
        ("german", "de", u"Funktionalität: F\n Szenario: S\n", None),
        ("steps-variant", None, u"Given a\n", "steps"),
        ("scenario-variant", None, u"", "scenario"),
        ("rule-variant", None, u"", "rule"),
        ("tags-variant-no-keywords", None, None, "tags"),
    ]
    for name, language, text, variant in setups:
        the_parser = Parser(language, variant=variant)
        if text is not None:
            if variant == "steps":
                the_parser.parse_steps(text)
            elif variant == "scenario":
                the_parser.parse_scenario(text)
            elif variant == "rule":
                the_parser.parse_rule(text)
            else:
                the_parser.parse(text)
        for line in probe_lines:
            reason = the_parser.ask_parse_failure_oracle(line)
            print("oracle[%s] %r -> %r (language=%r)" % (
                name, line, reason, the_parser.language))


if __name__ == "__main__":
    run_specific()
    run_common()
