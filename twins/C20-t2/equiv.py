# -*- coding: UTF-8 -*-
"""Equivalence transcript for C20-t2 (behave/configuration.py: format_outfiles_coupling)."""
from __future__ import print_function
import sys
sys.path.insert(0, "/tmp/wtT/C20")
import os
import tempfile

from behave import configuration
from behave.configuration import (
    Configuration, format_outfiles_coupling, read_configuration,
)

WORKDIR = os.path.realpath(tempfile.mkdtemp(prefix="c20t2_"))


def norm(value):
    """Replace the random workdir in values by a stable token."""
    if isinstance(value, str):
        return value.replace(WORKDIR, "<WORKDIR>")
    if isinstance(value, list):
        return [norm(x) for x in value]
    if isinstance(value, tuple):
        return tuple(norm(x) for x in value)
    if isinstance(value, dict):
        return dict((k, norm(v)) for k, v in value.items())
    return value


def show_dict(label, data):
    print(label)
    for key in sorted(data):
        print("    %s = %r" % (key, norm(data[key])))


# -- PART 1: direct calls, including aliasing/mutation observations.
print("== PART 1: format_outfiles_coupling(direct)")
CASES = [
    {},
    {"format": []},
    {"format": ["plain"]},
    {"format": ["plain", "json", "pretty"]},
    {"format": ["plain", "json", "pretty"], "outfiles": ["a.txt"]},
    {"format": ["plain", "json"], "outfiles": ["a.txt", "b.txt"]},
    {"format": ["plain"], "outfiles": ["a.txt", "b.txt", "c.txt"]},
    {"format": [], "outfiles": ["a.txt"]},
    {"outfiles": ["a.txt", "/abs/b.txt", "../up.txt"]},
    {"paths": ["features", "/abs/features", "./x/../y", ""]},
    {"format": ["plain", "json"], "outfiles": ["/abs/o.txt"], "paths": ["f1", "f2"]},
    {"format": ["my.module:Formatter", u"ünï"], "paths": []},
    {"format": ["plain"], "outfiles": []},
]
for config_dir in ("", ".", "etc/conf", "/abs/dir", "../rel"):
    for case in CASES:
        data = dict((k, list(v)) for k, v in case.items())
        orig_outfiles = data.get("outfiles")
        orig_format = data.get("format")
        orig_paths = data.get("paths")
        format_outfiles_coupling(data, config_dir)
        show_dict("dir=%r case=%r" % (config_dir, case), data)
        # -- MUTATION of the objects that were handed in:
        print("    original outfiles object now: %r" % (orig_outfiles,))
        print("    original format object now:   %r" % (orig_format,))
        print("    original paths object now:    %r" % (orig_paths,))

# -- PART 2: through config files (ini + toml), relative to the file.
print("== PART 2: read_configuration(file)")
os.chdir(WORKDIR)
os.makedirs("sub/conf")

INI_FILES = {
    "one.ini": "[behave]\nformat = plain\n",
    "two.ini": "[behave]\nformat = plain\n  json\n  pretty\noutfiles = out/plain.txt\n",
    "three.ini": "[behave]\nformat = plain\noutfiles = a.txt\n  b.txt\n  c.txt\n",
    "four.ini": "[behave]\npaths = features\n  ../other\n  /abs/feat\noutfiles = o1.txt\n",
    "five.ini": "[behave]\nformat = json\n   plain\noutfiles = /abs/j.json\n  rel/p.txt\npaths = f\n",
    "six.ini": "[behave]\nshow_timings = false\n",
}
TOML_FILES = {
    "one/pyproject.toml": '[tool.behave]\nformat = ["plain"]\n',
    "two/pyproject.toml": '[tool.behave]\nformat = ["plain", "json", "pretty"]\noutfiles = ["out/plain.txt"]\n',
    "three/pyproject.toml": '[tool.behave]\nformat = ["plain"]\noutfiles = ["a.txt", "b.txt", "c.txt"]\n',
    "four/pyproject.toml": '[tool.behave]\npaths = ["features", "../other", "/abs/feat"]\noutfiles = ["o1.txt"]\n',
    "bad/pyproject.toml": '[tool.behave]\nformat = "plain"\n',
    "bad2/pyproject.toml": '[tool.behave]\nformat = ["plain"]\noutfiles = "x.txt"\n',
}
for basedir in ("", "sub/conf"):
    for name, content in sorted(INI_FILES.items()) + sorted(TOML_FILES.items()):
        filename = os.path.join(basedir, name)
        dirname = os.path.dirname(filename)
        if dirname and not os.path.isdir(dirname):
            os.makedirs(dirname)
        with open(filename, "w") as f:
            f.write(content)
        for path in (filename, os.path.join(WORKDIR, filename)):
            try:
                data = read_configuration(path)
                show_dict("FILE %s" % norm(path), data)
            except Exception as e:  # noqa
                print("FILE %s !! %s: %s" % (norm(path), e.__class__.__name__, norm(str(e))))

# -- PART 3: whole Configuration: command line over file over defaults.
print("== PART 3: Configuration")
project = os.path.join(WORKDIR, "project")
os.makedirs(project)
os.chdir(project)
with open("behave.ini", "w") as f:
    f.write("[behave]\nformat = plain\n  json\noutfiles = reports/plain.txt\npaths = features\n  more\n"
            "stdout_capture = false\n")
for args in ([], ["-f", "pretty"], ["-f", "pretty", "-o", "cmd.txt"], ["other_dir"],
             ["-o", "only_out.txt"], ["--capture"]):
    config = Configuration(command_args=list(args))
    print("ARGS %r" % (args,))
    print("    format  = %r" % (config.format,))
    print("    outfiles= %r" % (norm(config.outfiles),))
    print("    paths   = %r" % (norm(config.paths),))
    print("    outputs = %r" % ([norm(o.name) for o in config.outputs],))
    print("    stdout_capture = %r, stderr_capture = %r" % (config.stdout_capture, config.stderr_capture))
