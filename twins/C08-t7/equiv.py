# -*- coding: utf-8 -*-
"""
Equivalence transcript for property C08 (v1 tag expressions / dialect auto-detection).
Prints a canonical transcript of everything observable through
make_tag_expression(...).check(...), the v1 TagExpression API and the
auto-detection helpers. Run on the clean and on the patched tree; compare.
"""
from __future__ import print_function
import sys
sys.path.insert(0, "/tmp/wtU/C08")
import itertools
import re
try:
    import builtins
except ImportError:  # pragma: no cover (py2)
    import __builtin__ as builtins


def print(*args):  # noqa -- canonical output: no memory addresses
    text = " ".join(str(a) for a in args)
    builtins.print(re.sub(r"0x[0-9a-fA-F]+", "0x?", text))


from behave.tag_expression import builder
from behave.tag_expression.builder import (
    make_tag_expression, TagExpressionProtocol, TagExpressionError)
from behave.tag_expression.v1 import TagExpression as TagExpressionV1

assert builder.__file__.startswith("/tmp/wtU/C08/"), builder.__file__

UNIVERSE = ["a", "b", "fork", "or", "not"]
SUBSETS = [list(c) for n in range(len(UNIVERSE) + 1)
           for c in itertools.combinations(UNIVERSE, n)]
PROTOCOLS = [TagExpressionProtocol.V1, TagExpressionProtocol.AUTO_DETECT,
             TagExpressionProtocol.V2]


def describe_exception(e):
    return "RAISED %s: %s | args=%r" % (type(e).__name__, e, e.args)


def truth_table(expr):
    bits = []
    for subset in SUBSETS:
        try:
            bits.append("1" if expr.check(subset) else "0")
        except Exception as e:  # noqa
            bits.append("E(%s)" % type(e).__name__)
    return "".join(bits)


def observe(text_or_seq, protocol):
    try:
        expr = make_tag_expression(text_or_seq, protocol)
    except Exception as e:  # noqa
        return describe_exception(e)
    parts = ["type=%s" % type(expr).__name__]
    if isinstance(expr, TagExpressionV1):
        parts.append("ands=%r" % (expr.ands,))
        parts.append("limits=%r" % (sorted(expr.limits.items()),))
        parts.append("len=%d" % len(expr))
    parts.append("str=%s" % (str(expr),))
    parts.append("repr=%r" % (expr,))
    parts.append("tt=%s" % truth_table(expr))
    return " ".join(parts)


def show(text_or_seq):
    for protocol in PROTOCOLS:
        print("%-12s %r -> %s" % (protocol.name, text_or_seq,
                                   observe(text_or_seq, protocol)))


# ---------------------------------------------------------------------------
print("== SECTION 1: CNF formulas (list and string renderings)")
PREFIXES = ["", "@", "-", "~", "-@", "~@"]
NAMES = ["a", "b", "fork", "or", "not"]
ATOMS = [p + n for p in PREFIXES for n in NAMES]
ATOMS_SMALL = [p + n for p in PREFIXES for n in ["a", "or"]]
# 1 group x 1 alternative
for atom in ATOMS:
    show([atom]); show(atom)
# 1 group x 2 alternatives
for x, y in itertools.product(ATOMS_SMALL, ["b", "-b", "~@fork", "@not", "-or"]):
    show(["%s,%s" % (x, y)]); show("%s,%s" % (x, y))
# 2 groups x 1 alternative
for x, y in itertools.product(ATOMS_SMALL, ["b", "-b", "~@fork", "@not", "or", "and"]):
    show([x, y]); show("%s %s" % (x, y))
# 2 groups x 2 alternatives / 3 groups
for x, y in itertools.product(["a,b", "-a,@b", "~@a,-fork", "@or,not"],
                              ["fork,-b", "~a,~b", "@a", "-@not,or"]):
    show([x, y]); show("%s %s" % (x, y)); show((x, y, "-fork"))

print("== SECTION 2: limits")
for item in [["a:1"], ["-a:1"], ["~@a:2,b:3"], ["a:1", "a:1"], ["a:1", "-a:1"],
             ["a:1", "a:2"], ["a:1,b:2", "~b:3"], ["a:1,a:2"], ["a:x"], ["a:"],
             ["a:1:2"], ["a:1:x"], [":3"], ["-:3"], ["a:-1"], ["a: 4 "], ["a:0", "a:00"],
             "a:1 b:2", "-a:1 a:2", "a:3,b a:3", "@a:1, @b:1", "a:1.5", ["a:١"],
             ["a:1", "b:1", "a:2"], ["x:10,y:10", "-x:10", "y:11"]]:
    show(item)

print("== SECTION 3: v2 renderings / mixed / boundary")
for item in ["a and b", "a or b", "not a", "not @a", "(a or b) and not fork",
             "(a or b)and(not fork)", "a and not or", "@a and @b", "a* and b", "a*",
             "?a", "[ab]", "fork", "@fork", "-fork", "~fork", "or", "not", "and",
             "( a )", "(a)", "a b", "a  b", "a and", "and a", "a or", "a not b",
             "-a and b", "~a or b", "not -a", "not ~@a", "-a*", "~a,b*", "-a (b)",
             "a,b and c", "a, b", "a ,b", "a,", ",a", ",", ",,", "a,,b", "-", "~", "@",
             "-@", "~@", "--a", "~~a", "~-a", "-~a", "@@a", "@-a", "@~a", " -a ",
             "\t~@a\n", "a-b", "a~b", "a@b", "a-b c~d", "", " ", [], (), [""], ["", ""],
             [" "], ["a", ""], ["a b"], ["a and b"], ["a", "and", "b"], ["-a", "and", "b"],
             ["a or b", "fork"], ["not a", "b,fork"], ["-a", "b*"], ["a,b", "not"],
             ("a", "-b"), ("~a,b", "fork"), ["(a"], "a)", "((a))", "a and (b",
             u"\xe4,\xf6 -\xfc", u"@\xe4", [u"~@\xe4"], "A a", "-A,a", "Or", "NOT a",
             "a-and-b", "android", "a notb", "-not", "~or", "-and b", "- a", "~ a",
             "a - b", "a ~ b", "a , b", "a:1 and b", "a:1", "-a:1", "a:1,b",
             42, None, 4.5, [1, 2], [None], ["a", 3], {"a": 1}, set(["a"]), b"a,b",
             [b"a"], iter(["a"]), True]:
    try:
        show(item)
    except Exception as e:  # noqa
        print("SHOW-FAILED %r %s" % (item, describe_exception(e)))

print("== SECTION 4: v1 TagExpression API directly")
for tag in ["a", "@a", "-a", "~a", "-@a", "~@a", " @a ", "@ a", "- @a", "@@a", "@-a",
            "@~a", "~-a", "-~a", "~~a", "--a", "", " ", "@", "-", "~", "-@", "~@",
            "~@@", "-@-@a", "a@", "a-", "a~", "\t~@x:3\n", u"~@\xe4", u"@", "@a:1",
            "~a:1:2", "-@ a"]:
    try:
        result = TagExpressionV1.normalize_tag(tag)
        print("normalize_tag(%r) -> %r %s" % (tag, result, type(result).__name__))
    except Exception as e:  # noqa
        print("normalize_tag(%r) %s" % (tag, describe_exception(e)))
for bad in [None, 3, b"@a", ["@a"]]:
    try:
        print("normalize_tag(%r) -> %r" % (bad, TagExpressionV1.normalize_tag(bad)))
    except Exception as e:  # noqa
        print("normalize_tag(%r) %s" % (bad, describe_exception(e)))
for expr in ["a,b", " @a , ~@b ,-c", "", ",", "a,,~", "  ~a:1,@b:2  ", u"\xe4,~\xf6"]:
    gen = TagExpressionV1.normalized_tags_from_or(expr)
    print("normalized_tags_from_or(%r) -> %s %r" % (expr, type(gen).__name__, list(gen)))
for bad in [None, 3]:
    try:
        gen = TagExpressionV1.normalized_tags_from_or(bad)
        print("normalized_tags_from_or(%r) created %s" % (bad, type(gen).__name__))
        print(list(gen))
    except Exception as e:  # noqa
        print("normalized_tags_from_or(%r) %s" % (bad, describe_exception(e)))

print("-- store_and_extract_limits")
CALLS = [
    [["a", "-b"]], [[]], [["a:1", "-a:1", "b"]], [["a:1"], ["a:2"]], [["a:1", "c:5", "a:3", "d:7"]],
    [iter(["x:2", "-y:4"])], [("p", "q:1")], [["a:1:9"]], [["a:z"]], [["m:1", "n:z", "o:2"]],
    [[":1", "-:2", ""]], [["k:3"], ["-k:3", "l"], ["k:4", "zz:9"]], [[3]], [[None, "a"]],
    [["a:1", 5]], [[b"a:1"]], [None], [["--a:1", "-a:2"]], [["~a:1"]], [["a: 2", "a:2 "]],
]
for call_seq in CALLS:
    te = TagExpressionV1([])
    for arg in call_seq:
        shown = arg if not hasattr(arg, "__next__") else "<iterator>"
        try:
            r = te.store_and_extract_limits(arg)
            print("store(%r) -> %r" % (shown, r))
        except Exception as e:  # noqa
            print("store(%r) %s" % (shown, describe_exception(e)))
        print("   ands=%r limits=%r" % (te.ands, sorted(te.limits.items())))
# -- preloaded limits (shared-object mutation, unusual values)
for preload in [{"a": 1}, {"a": "1"}, {"a": None}, {"a": 1.0}, {"a": True}, {"b": 2}]:
    te = TagExpressionV1([])
    te.limits = dict(preload)
    try:
        te.store_and_extract_limits(["a:1", "-b:2"])
        print("preload %r ok" % (preload,))
    except Exception as e:  # noqa
        print("preload %r %s" % (preload, describe_exception(e)))
    print("   ands=%r limits=%r" % (te.ands, sorted(te.limits.items(), key=repr)))

print("-- check")
te = TagExpressionV1(["a,-b", "~@fork", "@or:3"])
for tags in [[], ["a"], ["a", "a", "or"], ("a", "or"), set(["or"]), frozenset(["or", "b"]),
             iter(["a", "or"]), (t for t in ["or"]), "or", "a", {"or": 1}, ["-b", "or"],
             ["@or"], [u"or"], [1, 2, "or"], [["a"]], None, 5, [None, "or"]]:
    shown = tags if not hasattr(tags, "__next__") else "<iterator>"
    if isinstance(tags, (set, frozenset)):
        shown = "%s(%r)" % (type(tags).__name__, sorted(tags))
    try:
        print("check(%r) -> %r" % (shown, te.check(tags)))
    except Exception as e:  # noqa
        print("check(%r) %s" % (shown, describe_exception(e)))
empty = TagExpressionV1([])
for tags in [[], ["a"], [["unhashable"]], None, 5]:
    try:
        print("empty.check(%r) -> %r" % (tags, empty.check(tags)))
    except Exception as e:  # noqa
        print("empty.check(%r) %s" % (tags, describe_exception(e)))
odd = TagExpressionV1([])
for ands in [[[]], [["a"], []], [["-"]], [[""]], [["-", "a"]], [["--a"]], [[3]], [["a", 3]],
             [["zz", "-a"], ["a", None]]]:
    odd.ands = ands
    for tags in [[], ["a"], ["-a"], [""]]:
        try:
            print("ands=%r check(%r) -> %r" % (ands, tags, odd.check(tags)))
        except Exception as e:  # noqa
            print("ands=%r check(%r) %s" % (ands, tags, describe_exception(e)))

print("== SECTION 5: auto-detection helpers and dispatch")
select = builder._select_tag_expression_parser4auto
for item in ["a", "@a", "-a", "~a", "a b", "a,b", "a and b", "a or", "or", "fork", "a*",
             "-a*", "~a and b", "-a not", "(a)", "-(a)", "~a)", "", [], ["a"], ["-a"],
             ["a", "b"], ["a", "or", "b"], ["-a", "or", "b"], ("a",), ("a*", "-b"),
             "a?", "a[b]", "a[", "-a[b]", "a-b", "a,b (c)", "not", "-not", "nota",
             "a,b or", "a,b*", 42, None, [1], ["a", None], b"a", u"\xe4 or \xf6",
             u"-\xe4 or \xf6", "a(b", "-a(b", "a(", "~(", "x -", "x ~y", "x,~y and"]:
    try:
        print("select(%r) -> %s" % (item, select(item).__name__))
    except Exception as e:  # noqa
        print("select(%r) %s" % (item, describe_exception(e)))

WORD_LISTS = [[], ["a"], ["and"], ["a", "or", "b"], ["fork"], ["android", "nota"],
              ["-a"], ["~a", "b"], ["a-", "b~"], ["a,b"], [","], ["a", ",b"], ["a*"],
              ["a", "b?"], ["[ab]"], ["a["], ["("], ["a", ")"], ["(a)"], [""], ["", "-"],
              [u"\xe4", u"-\xf6"], ("a", "not"), ("-x", "~y")]
KEYWORD_LISTS = [[], ["and", "or", "not", "(", ")"], [","], ["~", "-"], ("~", "-"), [""],
                 ["a"], ["or"], ["-", "a"]]
for words in WORD_LISTS:
    print("contains_wildcards(%r) -> %r" % (words, builder._any_word_contains_wildcards(words)))
    for keywords in KEYWORD_LISTS:
        print("is_keyword(%r, %r) -> %r" % (words, keywords,
              builder._any_word_is_keyword(words, keywords)))
        print("contains_keyword(%r, %r) -> %r" % (words, keywords,
              builder._any_word_contains_keyword(words, keywords)))
        print("starts_with(%r, %r) -> %r" % (words, keywords,
              builder._any_word_starts_with(words, keywords)))
for bad_words in [[1], ["a", None], None]:
    for func in [builder._any_word_contains_wildcards,
                 lambda w: builder._any_word_is_keyword(w, ["and"]),
                 lambda w: builder._any_word_contains_keyword(w, [","]),
                 lambda w: builder._any_word_starts_with(w, ["-", "~"])]:
        try:
            print("helper(%r) -> %r" % (bad_words, func(bad_words)))
        except Exception as e:  # noqa
            print("helper(%r) RAISED %s" % (bad_words, type(e).__name__))

print("-- protocol dispatch")
for member in TagExpressionProtocol:
    pf = member._parse_func
    print("member %s value=%s parse_func=%s" % (
        member.name, tuple(getattr(v, "__name__", v) for v in member.value),
        getattr(pf, "__name__", pf)))
print("aliases STRICT=%s DEFAULT=%s current=%s" % (
    TagExpressionProtocol.STRICT.name, TagExpressionProtocol.DEFAULT.name,
    TagExpressionProtocol.current().name))
print("choices=%r" % (TagExpressionProtocol.choices(),))
for name in ["v1", "V2", "auto_detect", "strict", "default", "bogus"]:
    try:
        print("from_name(%r) -> %s" % (name, TagExpressionProtocol.from_name(name).name))
    except Exception as e:  # noqa
        print("from_name(%r) %s" % (name, describe_exception(e)))
for default in ["v1", "v2", "auto_detect", "strict"]:
    TagExpressionProtocol.use(default)
    for item in ["-a", "a,b", "a and b", "a", ["a", "-b"], "-a and b"]:
        try:
            expr = make_tag_expression(item)
            print("use(%s) %r -> %s %s tt=%s" % (default, item, type(expr).__name__,
                                                 expr, truth_table(expr)))
        except Exception as e:  # noqa
            print("use(%s) %r %s" % (default, item, describe_exception(e)))
TagExpressionProtocol.use(TagExpressionProtocol.DEFAULT)
print("== DONE")
