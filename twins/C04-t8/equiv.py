# -*- coding: UTF-8 -*-
"""
Equivalence transcript for property C04 (Gherkin parsing is faithful).

Exercises behave.parser (parse_feature / parse_file / parse_steps /
parse_scenario / parse_rule / parse_tags / parse_step, Parser internals that
are reachable through the public API) and behave.model_describe on a large
number of generated and hand-written inputs and prints a canonical transcript.
Run it on the clean tree and on the patched tree; the output must be identical.
"""
from __future__ import absolute_import, print_function, unicode_literals
import sys
sys.path.insert(0, "/tmp/wtU/C04")

import io
import logging
import os
import random
import tempfile

import behave
assert behave.__file__.startswith("/tmp/wtU/C04/"), behave.__file__
from behave import i18n, model, parser
from behave.parser import Parser, ParserError, State
from behave.model_describe import ModelDescriptor, ModelPrinter


OUT = []
TWIN_ID = "C04-t8"


def emit(text=""):
    OUT.append(text)


# -----------------------------------------------------------------------------
# LOG CAPTURE (malformed table rows are reported through logging)
# -----------------------------------------------------------------------------
class ListHandler(logging.Handler):
    def __init__(self):
        logging.Handler.__init__(self)
        self.records = []

    def emit(self, record):
        self.records.append("%s:%s" % (record.levelname, record.getMessage()))


LOG = ListHandler()
_logger = logging.getLogger("behave")
_logger.addHandler(LOG)
_logger.setLevel(logging.DEBUG)
_logger.propagate = False


def flush_log():
    if LOG.records:
        for rec in LOG.records:
            emit("    LOG %s" % rec)
        del LOG.records[:]


# -----------------------------------------------------------------------------
# MODEL DUMP
# -----------------------------------------------------------------------------
def r(value):
    return repr(value)


def dump_tags(tags):
    return "[%s]" % ", ".join("%s@%s" % (r(str(t)), getattr(t, "line", "?"))
                              for t in tags)


def dump_table(table, pad):
    if table is None:
        emit("%stable=None" % pad)
        return
    emit("%stable line=%s headings=%s" % (pad, table.line, r(list(table.headings))))
    for row in table.rows:
        emit("%s  row line=%s cells=%s headings=%s" %
             (pad, row.line, r(list(row.cells)), r(list(row.headings))))


def dump_step(step, pad):
    emit("%sstep kw=%s type=%s name=%s line=%s file=%s" %
         (pad, r(step.keyword), r(step.step_type), r(step.name), step.line,
          r(step.filename)))
    if step.text is not None:
        emit("%s  text line=%s ctype=%s value=%s" %
             (pad, getattr(step.text, "line", "?"),
              r(getattr(step.text, "content_type", "?")), r(str(step.text))))
    if step.table is not None:
        dump_table(step.table, pad + "  ")


def dump_background(background, pad):
    if background is None:
        emit("%sbackground=None" % pad)
        return
    emit("%sbackground kw=%s name=%s line=%s desc=%s" %
         (pad, r(background.keyword), r(background.name), background.line,
          r(list(getattr(background, "description", [])))))
    for step in background.steps:
        dump_step(step, pad + "  ")


def dump_scenario(scenario, pad):
    emit("%s%s kw=%s name=%s line=%s tags=%s desc=%s" %
         (pad, scenario.type, r(scenario.keyword), r(scenario.name),
          scenario.line, dump_tags(scenario.tags), r(list(scenario.description))))
    for step in scenario.steps:
        dump_step(step, pad + "  ")
    if isinstance(scenario, model.ScenarioOutline):
        for examples in scenario.examples:
            emit("%s  examples kw=%s name=%s line=%s tags=%s" %
                 (pad, r(examples.keyword), r(examples.name), examples.line,
                  dump_tags(examples.tags)))
            dump_table(examples.table, pad + "    ")


def dump_rule(rule, pad):
    emit("%srule kw=%s name=%s line=%s tags=%s desc=%s" %
         (pad, r(rule.keyword), r(rule.name), rule.line, dump_tags(rule.tags),
          r(list(rule.description))))
    dump_background(rule.background, pad + "  ")
    for scenario in rule.scenarios:
        dump_scenario(scenario, pad + "  ")


def dump_feature(feature, pad="  "):
    if feature is None:
        emit("%sfeature=None" % pad)
        return
    emit("%sfeature kw=%s name=%s line=%s lang=%s file=%s tags=%s desc=%s" %
         (pad, r(feature.keyword), r(feature.name), feature.line,
          r(feature.language), r(feature.filename), dump_tags(feature.tags),
          r(list(feature.description))))
    dump_background(feature.background, pad + "  ")
    # -- run_items keeps file order of rules and scenarios.
    for item in feature.run_items:
        if isinstance(item, model.Rule):
            dump_rule(item, pad + "  ")
        else:
            dump_scenario(item, pad + "  ")
    emit("%s  counts rules=%d scenarios=%d" %
         (pad, len(feature.rules), len(feature.scenarios)))


def dump_parser_state(p, pad="    "):
    emit("%sparser state=%s line=%s last_step_type=%s tags=%s lines=%s "
         "table=%s examples=%s language=%s mstart=%s mlead=%s mterm=%s" %
         (pad, p.state.name, p.line, r(p.last_step_type), dump_tags(p.tags),
          r(p.lines), "None" if p.table is None else "set",
          "None" if p.examples is None else "set", r(p.language),
          r(p.multiline_start), r(p.multiline_leading), r(p.multiline_terminator)))


def dump_error(e, pad="  "):
    emit("%sEXC %s: %s" % (pad, type(e).__name__, r(str(e))))
    if isinstance(e, ParserError):
        emit("%s  args=%s line=%s line_text=%s filename=%s" %
             (pad, r(e.args), r(e.line), r(e.line_text), r(e.filename)))


def show_any(result, pad="  "):
    if isinstance(result, model.Feature):
        dump_feature(result, pad)
    elif isinstance(result, model.Rule):
        dump_rule(result, pad)
    elif isinstance(result, (model.Scenario, model.ScenarioOutline)):
        dump_scenario(result, pad)
    elif isinstance(result, model.Step):
        dump_step(result, pad)
    elif isinstance(result, list):
        emit("%slist len=%d" % (pad, len(result)))
        for item in result:
            if isinstance(item, model.Step):
                dump_step(item, pad + "  ")
            else:
                emit("%s  %s@%s" % (pad, r(str(item)), getattr(item, "line", "?")))
    else:
        emit("%s%s" % (pad, r(result)))


def run(label, func, *args, **kwargs):
    emit("== %s" % label)
    try:
        result = func(*args, **kwargs)
    except Exception as e:  # pylint: disable=broad-except
        dump_error(e)
    else:
        show_any(result)
    flush_log()


# -----------------------------------------------------------------------------
# ABSTRACT FEATURE TREE -> TEXT
# -----------------------------------------------------------------------------
class Aliases(object):
    """Cycles through all aliases of every keyword of one language."""
    def __init__(self, language, offset=0):
        self.keywords = i18n.languages[language]
        self.counters = {}
        self.offset = offset

    def __call__(self, name):
        aliases = self.keywords[name]
        index = self.counters.get(name, self.offset)
        self.counters[name] = index + 1
        return aliases[index % len(aliases)]

    def max_aliases(self):
        return max(len(v) for k, v in self.keywords.items()
                   if isinstance(v, list))


CELLS = ["a", "", "x\\|y", "  spaced  ", "1.5", "<name>", "\\|", "ä ö", "a\\\\b"]
WORDS = ["alpha", "beta", "a step with: colon", "gamma 'quoted'", "delta \"dq\"",
         "use <name>", "Größe", "end:"]
TAGS = ["wip", "slow", "a.b", "x=1", "fixture.foo", "ünï"]


class Renderer(object):
    def __init__(self, rnd, language, noise=True, alias_offset=0):
        self.rnd = rnd
        self.kw = Aliases(language, alias_offset)
        self.noise = noise
        self.lines = []

    def indent(self):
        if not self.noise:
            return ""
        return self.rnd.choice(["", " ", "  ", "    ", "\t", "      "])

    def add(self, text, indent=None):
        if indent is None:
            indent = self.indent()
        self.lines.append(indent + text)
        if self.noise:
            roll = self.rnd.random()
            if roll < 0.15:
                self.lines.append(self.rnd.choice(["", "   ", "\t"]))
            elif roll < 0.30:
                self.lines.append(self.indent() + "# a comment: " +
                                  self.rnd.choice(["Feature: X", "@tag", "| a |", "Given x"]))

    def add_raw(self, text):
        self.lines.append(text)

    def tags(self, count):
        rnd = self.rnd
        if not count:
            return
        tags = ["@" + rnd.choice(TAGS) + str(i) for i in range(count)]
        if count > 1 and rnd.random() < 0.5:
            cut = rnd.randint(1, count - 1)
            self.add(" ".join(tags[:cut]) +
                     rnd.choice(["", "  # trailing comment", " #c @not_a_tag"]))
            self.add("  ".join(tags[cut:]))
        else:
            self.add(" ".join(tags) + rnd.choice(["", " # comment"]))

    def description(self, count):
        for i in range(count):
            self.add("Description line %d %s" % (i, self.rnd.choice(WORDS)))

    def table(self, ncols, nrows):
        rnd = self.rnd
        indent = self.indent()
        for rowno in range(nrows + 1):
            cells = [rnd.choice(CELLS) if rowno else "h%d" % c for c in range(ncols)]
            self.add("|" + "|".join(rnd.choice([" %s ", "%s", "  %s"]) % c
                                    for c in cells) + "|", indent)

    def docstring(self, nlines):
        rnd = self.rnd
        quotes = rnd.choice(['"""', "'''"])
        indent = self.indent()
        self.add_raw(indent + quotes)
        for i in range(nlines):
            choice = rnd.random()
            if choice < 0.2:
                self.add_raw("")
            elif choice < 0.4:
                self.add_raw(indent + "   indented # not a comment %d" % i)
            elif choice < 0.5:
                self.add_raw(indent + "Given looks like a step   ")
            elif choice < 0.6:
                self.add_raw(indent + "| looks | like | table |\r")
            else:
                self.add_raw(indent + "text line %d %s" % (i, rnd.choice(WORDS)))
        self.add_raw(indent + quotes + rnd.choice(["", "  "]))

    def steps(self, count):
        rnd = self.rnd
        for i in range(count):
            if i == 0:
                step_type = rnd.choice(["given", "when", "then"])
            else:
                step_type = rnd.choice(["given", "when", "then", "and", "but", "and"])
            keyword = self.kw(step_type)
            self.add(keyword + rnd.choice(WORDS) + " %d" % i)
            roll = rnd.random()
            if roll < 0.25:
                self.docstring(rnd.randint(0, 4))
            elif roll < 0.5:
                self.table(rnd.randint(1, 4), rnd.randint(0, 3))

    def background(self):
        rnd = self.rnd
        self.add(self.kw("background") + ":" + rnd.choice(["", " Setup", "  B  "]))
        self.description(rnd.choice([0, 0, 1]))
        self.steps(rnd.randint(0, 3))

    def scenario(self):
        rnd = self.rnd
        self.tags(rnd.choice([0, 0, 1, 2, 3]))
        self.add(self.kw("scenario") + ":" + rnd.choice(["", " S", " S with: colon"]))
        self.description(rnd.choice([0, 0, 1, 2]))
        self.steps(rnd.randint(0, 5))

    def outline(self):
        rnd = self.rnd
        self.tags(rnd.choice([0, 1, 2]))
        self.add(self.kw("scenario_outline") + ": " + rnd.choice(["O", "O <name>"]))
        self.description(rnd.choice([0, 0, 1]))
        self.steps(rnd.randint(1, 4))
        for i in range(rnd.randint(0, 3)):
            self.tags(rnd.choice([0, 0, 1, 2]))
            self.add(self.kw("examples") + ":" + rnd.choice(["", " E%d" % i]))
            self.table(rnd.randint(1, 3), rnd.randint(0, 3))

    def scenarios(self, count):
        for _ in range(count):
            if self.rnd.random() < 0.4:
                self.outline()
            else:
                self.scenario()

    def feature(self, with_feature_line=True):
        rnd = self.rnd
        if with_feature_line:
            self.tags(rnd.choice([0, 1, 2]))
            self.add(self.kw("feature") + ": " + rnd.choice(["F", "Feature title", "F: x"]))
            self.description(rnd.choice([0, 1, 2]))
        if rnd.random() < 0.5:
            self.background()
        self.scenarios(rnd.randint(0, 3))
        for i in range(rnd.choice([0, 0, 1, 2, 3])):
            self.tags(rnd.choice([0, 0, 1, 2]))
            self.add(self.kw("rule") + ":" + rnd.choice(["", " R%d" % i]))
            self.description(rnd.choice([0, 1]))
            if rnd.random() < 0.5:
                self.background()
            self.scenarios(rnd.randint(0, 3))

    def text(self):
        return "\n".join(self.lines) + "\n"


def show_text(text):
    for number, line in enumerate(text.splitlines(), 1):
        emit("    %3d| %s" % (number, r(line)))


# -----------------------------------------------------------------------------
# SECTIONS
# -----------------------------------------------------------------------------
def section_all_languages():
    emit("#### SECTION A: every language, every alias")
    tmpdir = "/tmp/c04_equiv_tmp_%s" % TWIN_ID
    if not os.path.isdir(tmpdir):
        os.mkdir(tmpdir)
    for language in sorted(i18n.languages):
        rounds = Aliases(language).max_aliases()
        for offset in range(rounds):
            rnd = random.Random("A:%s:%d" % (language, offset))
            renderer = Renderer(rnd, language, noise=(offset % 2 == 1),
                                alias_offset=offset)
            renderer.feature()
            text = renderer.text()
            run("A parse_feature lang=%s offset=%d" % (language, offset),
                parser.parse_feature, text, language, "a_%s.feature" % language)
            if offset == 0:
                # -- parse_file with language header
                filename = os.path.join(tmpdir, "f.feature")
                with io.open(filename, "w", encoding="utf8") as f:
                    f.write(rnd.choice(["# language: %s\n", "#language:%s\n",
                                        "  #  LANGUAGE:  %s  \n"]) % language)
                    f.write(text)
                emit("== A parse_file lang=%s" % language)
                try:
                    feature = parser.parse_file(filename)
                except Exception as e:  # pylint: disable=broad-except
                    dump_error(e)
                else:
                    dump_feature(feature)
                    dump_parser_state(feature.parser)
                flush_log()
                os.remove(filename)
    os.rmdir(tmpdir)


def section_random_trees():
    emit("#### SECTION B: random trees with noise")
    languages = ["en", "de", "fr", "ja", "zh-CN", "ru", "ar", "en-pirate",
                 "en-lol", "ko", "he", "fi", "uz", "em"]
    for seed in range(160):
        language = languages[seed % len(languages)]
        if language not in i18n.languages:
            language = "en"
        rnd = random.Random("B:%d" % seed)
        renderer = Renderer(rnd, language, noise=True, alias_offset=seed)
        renderer.feature()
        text = renderer.text()
        emit("== B seed=%d lang=%s" % (seed, language))
        if seed < 6:
            show_text(text)
        try:
            feature = parser.parse_feature(text, language=language, filename="b.feature")
        except Exception as e:  # pylint: disable=broad-except
            dump_error(e)
        else:
            dump_feature(feature)
            if feature is not None:
                dump_parser_state(feature.parser)
        flush_log()


def section_fragments():
    emit("#### SECTION C: parse_steps / parse_scenario / parse_rule / parse_tags")
    for seed in range(60):
        language = ["en", "de", "fr", "sv", "pt"][seed % 5]
        rnd = random.Random("C:%d" % seed)
        # -- steps
        renderer = Renderer(rnd, language, noise=(seed % 2 == 0), alias_offset=seed)
        renderer.steps(rnd.randint(0, 6))
        text = renderer.text()
        run("C parse_steps seed=%d lang=%s" % (seed, language),
            parser.parse_steps, text, language, "steps.txt")
        # -- scenario / outline
        renderer = Renderer(rnd, language, noise=(seed % 2 == 1), alias_offset=seed)
        renderer.scenarios(1)
        run("C parse_scenario seed=%d lang=%s" % (seed, language),
            parser.parse_scenario, renderer.text(), language)
        # -- rule
        renderer = Renderer(rnd, language, noise=True, alias_offset=seed)
        if seed % 3 == 0:
            renderer.tags(rnd.choice([0, 1, 2]))
            renderer.add(renderer.kw("rule") + ": R")
            renderer.description(rnd.choice([0, 1]))
        if rnd.random() < 0.6:
            renderer.background()
        renderer.scenarios(rnd.randint(0, 3))
        run("C parse_rule seed=%d lang=%s" % (seed, language),
            parser.parse_rule, renderer.text(), language, "rule.txt")

    tag_texts = [
        "", "@a", "@a @b", "  @a   @b  # comment @c", "@a\n@b @c\n", "@a #x\n  @b",
        "@", "@@x", "@a b", "@a # b\nc", "#only comment", "   ", "@a\t@b", "@a=1 @b:2",
        "@ünï @x.y", "x", "@a\n\n@b", "@a #",
    ]
    for text in tag_texts:
        run("C parse_tags %r" % text, parser.parse_tags, text)

    step_texts = [
        ("en", "Given a"), ("en", "given lower"), ("en", "GIVEN upper"),
        ("en", "* star"), ("en", "And orphan"), ("en", "But orphan"),
        ("en", "Given a\nAnd b\nBut c\n* d\nWhen e\n* f\nThen g\nAnd h"),
        ("en", "* a\n* b\nAnd c"), ("en", "When w\n  | a | b |\n  | 1 | 2 |"),
        ("en", "Given a\n  \"\"\"\n  text\n  \"\"\"\nGiven b"),
        ("en", "Givenfoo"), ("en", "Given"), ("en", "Given "), ("en", "  Then   spaced   "),
        ("en", "Given a:\n  | x |"), ("en", "Given a:\n  '''\n  t\n  '''"),
        ("en", "Nothing here"), ("en", "| a |"), ("en", '"""\ntext\n"""'),
        ("en", "Given a\n@tag\nScenario: X\n  Given b"),
        ("en", "Given a\nExamples: E\n | a |"),
        ("en", "Given a\n | a | b |\n | 1 |"),
        ("en", "Given a\n | a | b \n | 1 | 2 |"),
        ("en", "Given a\n |"), ("en", "Given a\n ||"), ("en", "Given a\n | |"),
        ("en", "Given a\n | a \\| b | c\\\\|\n | 1 | 2 |"),
        ("en", "Given a\n  \"\"\"\n bad indent\n  \"\"\""),
        ("en", "Given a\n  \"\"\"\n  unterminated"),
        ("en", "Given a\n  \"\"\"\n  '''\n  inner\n  '''\n  \"\"\""),
        ("en", "Given a\n\t\"\"\"\n\ttab\n\t\t\"\"\" trailing"),
        ("de", "Angenommen x\nUnd y\nAber z\nWenn w\nDann d"),
        ("de", "angenommen klein"), ("fr", "Soit a\nEt b\nQuand c\nAlors d\nMais e"),
        ("fr", "Etant donné qu'x"), ("ja", "前提x\nかつy\nもしz\nならばw\nしかしv"),
        ("zh-CN", "假如a\n而且b\n当c\n那么d\n但是e"), ("en", "Given a\r\nWhen b\r\n"),
        (None, "Given default language"), ("xx", "Given unknown language"),
    ]
    for language, text in step_texts:
        run("C parse_steps lang=%s %r" % (language, text),
            parser.parse_steps, text, language)
        run("C parse_step  lang=%s %r" % (language, text),
            parser.parse_step, text, language)
        run("C parse_scenario(no header) lang=%s %r" % (language, text),
            parser.parse_scenario, text, language)
        run("C parse_rule(no header) lang=%s %r" % (language, text),
            parser.parse_rule, text, language)


BAD_FEATURES = [
    "",
    "\n\n",
    "# just a comment\n",
    "# language: xx\nFeature: F\n",
    "# language: de\nFunktionalität: F\n  Szenario: S\n    Angenommen a\n",
    "#language:fr\nFonctionnalité: F\n",
    "Feature: F\n# language: de\n  Scenario: S\n",
    "@t\n# language: de\nFeature: F\n",
    "Scenario: S\n  Given a\n",
    "Rule: R\n",
    "Background: B\n",
    "Scenario Outline: O\n",
    "Examples: E\n",
    "Given a step\n",
    "some text\n",
    "Feature: F\nFeature: G\n",
    "Feature: F\n  Scenario: S\n    Given a\nFeature: G\n",
    "Feature: F\n  Background: B\n    Given a\n  Background: C\n    Given b\n",
    "Feature: F\n  Background: B\n  Background: C\n    Given b\n",
    "Feature: F\n  @tag\n  Background: B\n",
    "Feature: F\n  Scenario: S\n    Given a\n  Background: B\n",
    "Feature: F\n  Scenario: S\n    Given a\n  @t\n  Background: B\n",
    "Feature: F\n  Scenario: S\n    Given a\n  Rule: R\n    Background: B\n      Given b\n    Scenario: S2\n      And c\n",
    "Feature: F\n  Background:\n    Given bg\n  Scenario: S\n    And inherits\n",
    "Feature: F\n  Background:\n    Given bg\n  Rule: R\n    Scenario: S\n      But inherits\n",
    "Feature: F\n  Background:\n    Given bg\n  Rule: R\n    Background:\n    Scenario: S\n      And inherits\n",
    "Feature: F\n  Background:\n  Scenario: S\n    And orphan\n",
    "Feature: F\n  Scenario: S\n    And orphan\n",
    "Feature: F\n  Scenario: S\n    But orphan\n",
    "Feature: F\n  Scenario: S\n    * generic\n    And after generic\n",
    "Feature: F\n  Scenario: S\n    Examples: E\n      | a |\n",
    "Feature: F\n  Scenario: S\n    Given a\n    Examples: E\n      | a |\n",
    "Feature: F\n  Scenario Outline: O\n    Given <a>\n    Examples: E\n      | a |\n      | 1 |\n    @x @y\n    Scenarios: E2\n      | a |\n      | 2 | 3 |\n",
    "Feature: F\n  Scenario Outline: O\n    Given <a>\n    Examples:\n    Examples: empty before\n      | a |\n",
    "Feature: F\n  Scenario Outline: O\n    Given <a>\n    Examples:\n    Scenario: next\n",
    "Feature: F\n  Scenario Outline: O\n    Given <a>\n    @tag\n    | a |\n",
    "Feature: F\n  @tag\n  some text\n",
    "Feature: F\n  @tag\n  Given a\n",
    "Feature: F\n  @tag @bad tag\n  Scenario: S\n",
    "@bad tag\nFeature: F\n",
    "@a\n@b # c\n\n@c\nFeature: F\n  desc\n  @d\n\n  # c\n  @e\n  Scenario: S\n",
    "Feature: F\n  Scenario: S\n    | a |\n",
    "Feature: F\n  Scenario: S\n    \"\"\"\n    text\n    \"\"\"\n",
    "Feature: F\n  Scenario: S\n    Given a\n    | a |\n    | 1 |\n    \"\"\"\n    both\n    \"\"\"\n",
    "Feature: F\n  Scenario: S\n    Given a\n    \"\"\"\n    both\n    \"\"\"\n    | a |\n    | 1 |\n",
    "Feature: F\n  Scenario: S\n    Given a\n      | a | b |\n      | 1 | 2 | 3 |\n",
    "Feature: F\n  Scenario: S\n    Given a\n      | a | b |\n      | 1 | 2 \n      garbage\n",
    "Feature: F\n  Scenario: S\n    Given a\n      | a | b |\n    garbage\n",
    "Feature: F\n  Scenario: S\n    Given a\n      | a | b |",
    "Feature: F\n  Scenario: S\n    Given a\n      \"\"\"\n      open",
    "Feature: F\n  Scenario: S\n    Given a\n      \"\"\"\n    x bad\n      \"\"\"\n",
    "Feature: F\n  Scenario: S\n    Given a\n      \"\"\"\n\n      # not comment\n\n      \"\"\"\n    Then b\n",
    "Feature: F\n  Rule: R1\n    desc\n    Example: E\n      Given a\n  Rule: R2\n    Background:\n      Given b\n    Scenario Template: T\n      When <x>\n      Examples:\n        | x |\n        | 1 |\n  @r3\n  Rule:\n",
    "Feature:\n",
    "Feature:F\n  Scenario:S\n    Givena\n",
    "feature: lower\n",
    "Feature F\n",
    "Feature: F\n  Scenario S\n    Given a\n",
    "Feature: F\n  Scenario: S\n    Given a\n  Scenario Outline : spaced\n",
    "Business Need: BN\n  Example: E\n    * a\n    * b\n  Scenario Template: T\n    Given <a>\n    Scenarios: S\n      | a |\n",
    "Ability: A\r\n  Scenario: S\r\n    Given a\r\n      \"\"\"\r\n      text\r\n      \"\"\"\r\n    Then t\r\n      | a |\r\n      | 1 |\r\n",
    "Feature: F\n  Background: B\n    desc\n    @t\n    Scenario: S\n",
    "Feature: F\n  Background: B\n    Given a\n    Examples: E\n",
    "Feature: F\n  Rule: R\n    Feature: nested\n",
    "Feature: F\n  Scenario: S\n    Given a\n    Rule: R\n      text in rule\n      Background: B\n        text in bg\n        * s\n",
]


def section_errors():
    emit("#### SECTION D: hand-written boundary and error documents")
    for index, text in enumerate(BAD_FEATURES):
        for language in (None, "en"):
            emit("== D[%d] parse_feature language=%s %s" % (index, language, r(text)))
            try:
                feature = parser.parse_feature(text, language=language,
                                               filename="d%d.feature" % index)
            except Exception as e:  # pylint: disable=broad-except
                dump_error(e)
            else:
                dump_feature(feature)
                if feature is not None:
                    dump_parser_state(feature.parser)
            flush_log()
        # -- same text through a long-lived Parser (shows leftover state)
        p = Parser()
        emit("== D[%d] Parser().parse twice" % index)
        for _ in range(2):
            try:
                feature = p.parse(text)
            except Exception as e:  # pylint: disable=broad-except
                dump_error(e)
            else:
                dump_feature(feature)
            dump_parser_state(p)
            flush_log()
    # -- non-unicode input
    run("D parse_feature bytes", parser.parse_feature, b"Feature: F")
    run("D parse_steps bytes", parser.parse_steps, b"Given a")
    run("D parse_file missing", lambda: parser.parse_file("/nonexistent/x.feature"))


def section_parser_internals():
    emit("#### SECTION E: Parser methods called directly")
    p = Parser()
    run("E parse_step without keywords", p.parse_step, "Given a")
    run("E match_keyword without keywords", p.match_keyword, "feature", "Feature: x")
    emit("    language=%s keywords_is_en=%s" % (r(p.language), p.keywords is i18n.languages["en"]))
    run("E match_keyword unknown key", p.match_keyword, "nope", "Feature: x")
    for language in ("en", "de", "fr", "ja"):
        p = Parser(language)
        keywords = i18n.languages[language]
        for key in ("feature", "rule", "background", "scenario",
                    "scenario_outline", "examples"):
            for alias in keywords[key]:
                for line in (alias + ":", alias + ": x", alias, alias + " :", " " + alias + ":",
                             alias.lower() + ":", alias.upper() + ":"):
                    emit("  match_keyword(%s, %s) -> %s" %
                         (r(key), r(line), r(p.match_keyword(key, line))))
        for key in ("given", "when", "then", "and", "but"):
            for alias in keywords[key]:
                for last in (None, "given", "when", "then"):
                    for line in (alias + "x", alias.lower() + "x", alias.upper() + "x",
                                 alias.strip(), alias.strip() + "x"):
                        p = Parser(language)
                        p.line = 7
                        p.filename = "e.feature"
                        p.last_step_type = last
                        emit("== E parse_step lang=%s key=%s last=%s line=%s" %
                             (language, key, last, r(line)))
                        try:
                            step = p.parse_step(line)
                        except Exception as e:  # pylint: disable=broad-except
                            dump_error(e)
                        else:
                            if step is None:
                                emit("  None")
                            else:
                                dump_step(step, "  ")
                        emit("  last_step_type=%s" % r(p.last_step_type))
    # -- subaction on a fresh parser in each state-relevant configuration
    lines = ["@a @b #c", "@a b", "Rule: R", "Scenario: S", "Example: E", "Scenario Outline: O",
             "Scenario Template: T", "Examples: X", "Scenarios: Y", "Background: B",
             "Feature: F", "text", "", "Given a", "| a |"]
    for with_feature in (False, True):
        for with_outline in (False, True):
            for line in lines:
                p = Parser("en")
                p.reset("sub.feature")
                p.line = 3
                if with_feature:
                    p._build_feature("Feature", "Feature: F")
                if with_outline:
                    p._build_scenario_outline_statement("Scenario Outline", "Scenario Outline: O")
                p.tags = [model.Tag("pending", 2)]
                emit("== E subaction feature=%s outline=%s line=%s" %
                     (with_feature, with_outline, r(line)))
                try:
                    result = p.subaction_detect_taggable_statement(line)
                except Exception as e:  # pylint: disable=broad-except
                    dump_error(e)
                else:
                    emit("  result=%s statement=%s" %
                         (r(result), type(p.statement).__name__))
                dump_parser_state(p)
    # -- _parse_loop directly with every initial state
    text = "@t\nScenario: S\n  Given a\n    | x |\n\n  # c\n  When b\n"
    for state in [None] + list(State):
        p = Parser("en")
        emit("== E _parse_loop initial_state=%s" % (state.name if state else None))
        try:
            p._parse_loop(text, initial_state=state, filename="loop.feature")
        except Exception as e:  # pylint: disable=broad-except
            dump_error(e)
        else:
            if p.statement is not None and not isinstance(p.statement, model.Rule):
                dump_scenario(p.statement, "  ")
        dump_parser_state(p)
        flush_log()
    run("E _parse_loop bad text type", Parser("en")._parse_loop, None)
    run("E _parse_loop bad state type", Parser("en")._parse_loop, "x", "STEPS")


class FakeTable(object):
    def __init__(self, headings, rows):
        self.headings = headings
        self.rows = rows


def section_describe():
    emit("#### SECTION F: model_describe")
    describe_table = ModelDescriptor.describe_table
    describe_docstring = ModelDescriptor.describe_docstring
    tables = []
    for seed in range(40):
        rnd = random.Random("F:%d" % seed)
        ncols = rnd.randint(1, 5)
        headings = [rnd.choice(["h", "name", "a|b", "long heading", "", "ü"]) + str(c)
                    for c in range(ncols)]
        rows = [[rnd.choice(["", "x", "a|b", "back\\slash", "new\nline", "ääää",
                             "a much longer cell value", " sp "]) for _ in range(ncols)]
                for _ in range(rnd.randint(0, 4))]
        tables.append(model.Table(headings, line=1, rows=rows))
    tables.extend([
        FakeTable([], []),
        FakeTable([], [[], []]),
        FakeTable(["a"], [["1", "extra"]]),
        FakeTable(["a", "b"], [["1"]]),
        FakeTable(["a", "b"], [["1", "2"], ["only"]]),
        FakeTable(["a"], [[1]]),
        FakeTable([None], []),
        FakeTable(("a", "b"), []),
        FakeTable(["a"], ()),
        FakeTable(["a", "bb", "ccc"], [["xxxx", "y", ""], ["", "", ""]]),
    ])
    for index, table in enumerate(tables):
        for indentation in (None, "", "    ", "\t# "):
            emit("== F describe_table[%d] indentation=%s" % (index, r(indentation)))
            try:
                text = describe_table(table, indentation)
            except Exception as e:  # pylint: disable=broad-except
                dump_error(e)
            else:
                emit("  %s %s" % (type(text).__name__, r(text)))
    # -- tables that come out of the parser, rendered and parsed again
    for seed in range(25):
        rnd = random.Random("F2:%d" % seed)
        renderer = Renderer(rnd, "en", noise=False)
        renderer.add("Given a table")
        renderer.table(rnd.randint(1, 5), rnd.randint(0, 5))
        steps = parser.parse_steps(renderer.text())
        table = steps[0].table
        text = describe_table(table, "      ")
        emit("== F roundtrip seed=%d" % seed)
        emit("  %s" % r(text))
        again = parser.parse_steps("Given a table\n" + text)[0].table
        dump_table(again, "  ")
        stream = io.StringIO()
        printer = ModelPrinter(stream)
        printer.print_table(table)
        printer.print_table(table, "  ")
        printer.print_docstring("doc %d\n\"\"\"quoted\"\"\"" % seed, " ")
        emit("  printed=%s" % r(stream.getvalue()))
    for doc in ["", "one", "a\nb", "a\n\nb\n", 'with """ quotes', "'''", "  indented\n    more"]:
        for indentation in (None, "", "  "):
            run("F describe_docstring %r indentation=%r" % (doc, indentation),
                describe_docstring, doc, indentation)
    run("F describe_docstring None", describe_docstring, None)


def main():
    section_all_languages()
    section_random_trees()
    section_fragments()
    section_errors()
    section_parser_internals()
    section_describe()
    text = "\n".join(OUT) + "\n"
    if sys.version_info[0] == 2:
        text = text.encode("utf-8")
        sys.stdout.write(text)
    else:
        sys.stdout.buffer.write(text.encode("utf-8"))


if __name__ == "__main__":
    main()
