# -*- coding: UTF-8 -*-
"""Equivalence transcript for C20-t3
(behave/configuration.py: configfile_options_iter, special config sections in
read_configparser / read_toml_config)."""
from __future__ import print_function
import sys
sys.path.insert(0, "/tmp/wtT/C20")
import os
import tempfile
from six.moves import configparser

from behave.configuration import (
    Configuration, configfile_options_iter, read_configuration,
    setup_config_file_parser, OPTIONS,
)

WORKDIR = os.path.realpath(tempfile.mkdtemp(prefix="c20t3_"))
os.chdir(WORKDIR)


def norm(value):
    if isinstance(value, str):
        return value.replace(WORKDIR, "<WORKDIR>")
    if isinstance(value, list):
        return [norm(x) for x in value]
    if isinstance(value, dict):
        return dict((k, norm(v)) for k, v in value.items())
    return value


def type_name(value_type):
    return getattr(value_type, "__name__", repr(value_type))


def show_options(label, config):
    print(label)
    try:
        for option in configfile_options_iter(config):
            print("    %s" % (tuple.__repr__(
                (option.dest, option.action, type_name(option.type))),))
            assert option._fields == ("dest", "action", "type")
    except Exception as e:  # noqa
        print("    !! %s: %s" % (e.__class__.__name__, e))


def show_dict(label, data):
    print(label)
    for key, value in data.items():     # -- KEEP: insertion order is observable.
        value = norm(value)
        if isinstance(value, dict):
            value = list(value.items())
        print("    %s = %r" % (key, value))


# -- PART 1: schema iteration.
print("== PART 1: configfile_options_iter")
options_before = repr(OPTIONS)
show_options("config=None", None)
show_options("config={}", {})
show_options("config={'behave': {}}", {"behave": {}})
show_options("config={'other': {'color': 1}}", {"other": {"color": "on"}})
show_options("config=dict with params",
             {"behave": {"color": "on", "tags": ["@a"], "no_color": True, "userdata_defines": ["x"],
                         "version": True, "stage": "s", "unknown_param": 1, "format": ["plain"],
                         "no_capture": True, "stdout_capture": False, "paths": ["p"]}})

parser = configparser.ConfigParser()
parser.optionxform = str
show_options("config=ConfigParser(empty)", parser)
parser.read_string(u"[behave]\ncolor = off\nlang = de\nstop = true\nSTOP = false\n"
                   u"no_skipped = true\nshow_skipped = false\njobs = 3\n")
show_options("config=ConfigParser(with [behave])", parser)
parser2 = configparser.ConfigParser()
parser2.read_string(u"[DEFAULT]\njunit = true\n[other]\nx = 1\n")
show_options("config=ConfigParser(DEFAULT only, no [behave])", parser2)
parser3 = configparser.ConfigParser()
parser3.read_string(u"[DEFAULT]\njunit = true\n[behave]\nwip = true\n")
show_options("config=ConfigParser(DEFAULT + [behave])", parser3)

# -- TWO INTERLEAVED ITERATORS are independent:
it1 = configfile_options_iter(None)
it2 = configfile_options_iter({"behave": {"wip": True, "jobs": 2}})
print("interleaved: %r %r %r %r" % (next(it1).dest, next(it2).dest, next(it1).dest, next(it2).dest))
print("OPTIONS unchanged: %r" % (repr(OPTIONS) == options_before,))

try:
    schema_parser = setup_config_file_parser()
    print("config-file schema dests: %r" % ([a.dest for a in schema_parser._actions],))
except Exception as e:  # noqa
    print("setup_config_file_parser() !! %s: %s" % (e.__class__.__name__, e))

# -- PART 2: config files with special sections.
print("== PART 2: read_configuration")
FILES = {
    "plain.ini": "[behave]\nstop = true\ntags = @foo\n  not @bar\nlogging_format = %(name)s\n",
    "sections.ini": ("[behave]\ncolor = off\n"
                     "[behave.userdata]\nzeta = 1\nalpha = two\nMixedCase = Yes\n"
                     "[behave.formatters]\nfmt2 = pkg.mod:Fmt2\nfmt1 = pkg.mod:Fmt1\n"
                     "[behave.runners]\nr1 = pkg.mod:Runner1\n"),
    "only_userdata.ini": "[behave.userdata]\nname = value\n",
    "empty.ini": "",
    "foreign.ini": "[tox]\nenvlist = py\n[behave.other]\nx = 1\n",
    "setup.cfg": "[metadata]\nname = x\n[behave]\njunit = true\njunit_directory = rep\n[behave.userdata]\nk = v\n",
    "a/pyproject.toml": "[build-system]\nrequires = []\n",
    "b/pyproject.toml": "[tool.other]\nx = 1\n",
    "c/pyproject.toml": "[tool.behave]\nstop = true\ntags = [\"@foo\", \"not @bar\"]\njobs = 4\n",
    "d/pyproject.toml": ("[tool.behave]\ncolor = \"off\"\n"
                         "[tool.behave.userdata]\nzeta = 1\nalpha = \"two\"\nflag = true\nratio = 1.5\n"
                         "[tool.behave.userdata.nested]\nx = 1\n"
                         "[tool.behave.formatters]\nfmt2 = \"pkg.mod:Fmt2\"\nfmt1 = \"pkg.mod:Fmt1\"\n"
                         "[tool.behave.runners]\nr1 = \"pkg.mod:Runner1\"\n"),
    "e/pyproject.toml": "[tool.behave.userdata]\nname = \"value\"\n",
    "f/pyproject.toml": "[tool.behave]\nuserdata = 3\n",
    "unknown.yaml": "behave: {}\n",
}
for name in sorted(FILES):
    dirname = os.path.dirname(name)
    if dirname and not os.path.isdir(dirname):
        os.makedirs(dirname)
    with open(name, "w") as f:
        f.write(FILES[name])
    for verbose in (False, True):
        try:
            show_dict("FILE %s (verbose=%s)" % (name, verbose), read_configuration(name, verbose=verbose))
        except Exception as e:  # noqa
            print("FILE %s !! %s: %s" % (name, e.__class__.__name__, norm(str(e))))
# -- REPEATED READ: results are independent objects.
first = read_configuration("sections.ini")
second = read_configuration("sections.ini")
first["userdata"]["injected"] = "x"
first["more_runners"]["injected"] = "x"
print("independent results: %r" % ("injected" not in second["userdata"]
                                   and "injected" not in second["more_runners"]
                                   and "injected" not in read_configuration("sections.ini")["userdata"],))
first = read_configuration("d/pyproject.toml")
first["userdata"]["injected"] = "x"
print("independent results (toml): %r" % ("injected" not in read_configuration("d/pyproject.toml")["userdata"],))

# -- PART 3: precedence through Configuration.
print("== PART 3: Configuration precedence")
ATTRS = ["color", "stop", "jobs", "tags", "config_tags", "junit", "stage", "lang", "wip",
         "show_timings", "show_skipped", "logging_format", "default_format",
         "more_formatters", "more_runners", "runner_aliases"]
SCENARIOS = [
    ("ini", "behave.ini",
     "[behave]\ncolor = off\nstop = true\njobs = 3\ntags = @file\nlang = de\nshow_timings = false\n"
     "[behave.userdata]\nfoo = file\nbar = file\n[behave.runners]\nmine = pkg:Runner\n"),
    ("toml", "pyproject.toml",
     "[tool.behave]\ncolor = \"off\"\nstop = true\njobs = 3\ntags = [\"@file\"]\nlang = \"de\"\nshow_timings = false\n"
     "[tool.behave.userdata]\nfoo = \"file\"\nbar = 2\n[tool.behave.runners]\nmine = \"pkg:Runner\"\n"),
    ("none", None, None),
]
CMDLINES = [
    [],
    ["--color=on", "--no-stop" if False else "--jobs=5"],
    ["--tags=@cmd", "--lang=fr", "-T", "-D", "foo=cmd", "-D", "new"],
    ["--show-timings", "--stage=dev"],
]
for kind, filename, content in SCENARIOS:
    project = os.path.join(WORKDIR, "project_" + kind)
    os.makedirs(project)
    os.chdir(project)
    if filename:
        with open(filename, "w") as f:
            f.write(content)
    for args in CMDLINES:
        for kwargs in ({}, {"jobs": 7, "stage": "kw"}):
            try:
                config = Configuration(command_args=list(args), **kwargs)
            except BaseException as e:  # noqa
                print("KIND %s ARGS %r KW %r !! %s: %s" % (kind, args, kwargs, e.__class__.__name__, e))
                continue
            print("KIND %s ARGS %r KW %r" % (kind, args, kwargs))
            for attr in ATTRS:
                print("    %s = %r" % (attr, getattr(config, attr, "<MISSING>")))
            print("    userdata = %r" % (list(config.userdata.items()),))
            print("    tag_expression = %s" % (config.tag_expression,))
