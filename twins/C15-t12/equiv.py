# -*- coding: utf-8 -*-
# Equivalence transcript for a behaviour-preserving refactoring (property C15).
# Self-contained: builds a feature tree in a scratch directory, runs behave as
# a subprocess (PYTHONPATH=/tmp/wtV/C15) with many formatter combinations and
# prints every report, the event log of a recording formatter and the model
# read back from the JSON report; then runs direct in-process probes.
from __future__ import print_function, unicode_literals
import sys
sys.path.insert(0, "/tmp/wtV/C15")
import io
import json
import os
import re
import shutil
import subprocess
import tempfile

WORKTREE = "/tmp/wtV/C15"
PYTHON = "/venv/bin/python"

FILES = {}
FILES["features/basic.feature"] = u'''
@feat @smoke
Feature: Basic fäature ☃
  A description line.
  Second description line.

  Background: common
    Given a passing step
    And a step with number 7

  @one
  Scenario: All pass with table and text
    Given a table step
      | name  | value |
      | Älice | 1     |
      | Bob   | a\\|b  |
    When a docstring step
      """
      first line
        indented ü line
      last "quoted" line
      """
    Then a step with number 42 and word "hello"
    And a step with custom type <3,4>

  @two
  Scenario: Failing in the middle
    Given a passing step
    When a failing step
    Then a passing step
    And an undefined step here

  Scenario: Error with traceback
    Given a step that raises an error
    Then a passing step

  Scenario: Undefined first
    Given some completely unknown step
    Then a passing step

  @skip
  Scenario: Skipped by tag
    Given a passing step
    When a failing step

  @hook_skip
  Scenario: Skipped by hook
    Given a passing step

  Scenario: Skips itself in step
    Given a passing step
    When the step skips the scenario
    Then a failing step

  Scenario: Pending step
    Given a pending step
    Then a passing step

  Scenario: Multi-line failure
    Given a step failing with multi-line message
    Then a passing step

  Scenario: Attachment
    Given a step that attaches data
    Then a passing step

  @wip
  Scenario: Wip pending
    Given a pending step
    Then a passing step

  Scenario:
    Given a passing step
'''

FILES["features/rules.feature"] = u'''
@rules
Feature: Rules and backgrounds

  Background: feature background
    Given a passing step

  Scenario: Before any rule
    When a step with number 1

  @r1
  Rule: First rule
    Some rule description.

    Background: rule one background
      Given a step with number 2

    Scenario: R1 first
      When a passing step
      Then a table step
        | a |
        | 1 |

    @two
    Scenario: R1 failing
      When a failing step
      Then a passing step

    Scenario Outline: R1 outline <word>
      When a step with number <num> and word "<word>"

      Examples: Good
        | num | word  |
        | 1   | one   |
        | 2   | zwölf |

      @skip
      Examples: Skipped
        | num | word |
        | 3   | tri  |

  Rule: Second rule without background

    Scenario: R2 first
      When a docstring step
        """
        only line
        """

    @skip
    Scenario: R2 skipped
      When a passing step

  Rule: Third rule background only

    Background:
      Given a failing step

    Scenario: R3 background fails
      When a passing step

    Scenario: R3 again
      When a passing step
'''

FILES["features/outline.feature"] = u'''
Feature: Outlines

  Scenario Outline: Compute <a> plus <b>
    Given a step with number <a>
    When a step with number <b> and word "<w>"
    Then a table step
      | col     | other |
      | <a>     | <w>   |

    @ex1
    Examples: First
      | a | b | w    |
      | 1 | 2 | x    |
      | 3 | 4 | fail |

    @ex2 @two
    Examples: Second ☃
      | a  | b  | w |
      | 10 | 20 | y |

  Scenario: After outline
    Given a passing step
'''

FILES["features/empty.feature"] = u'''
Feature: Empty feature without scenarios
  Nothing here.
'''

FILES["features/zz_all_skipped.feature"] = u'''
@skip
Feature: Everything skipped

  Background:
    Given a passing step

  Scenario: S1
    When a failing step

  Scenario: S2
    When a passing step
'''

FILES["features/steps/steps.py"] = u'''# -*- coding: utf-8 -*-
from __future__ import unicode_literals
from behave import given, when, then, step, register_type
from behave.api.pending_step import StepNotImplementedError


class Point(object):
    def __init__(self, x, y):
        self.x = x
        self.y = y


def parse_point(text):
    x, y = text.split(",")
    return Point(int(x), int(y))

register_type(Point=parse_point)


@step("a passing step")
def step_pass(ctx):
    pass

@step("a failing step")
def step_fail(ctx):
    assert False, "XFAIL: expected ä failure"

@step("a step failing with multi-line message")
def step_fail_ml(ctx):
    assert False, "line one\\nline two ☃\\nline three"

@step("a step that raises an error")
def step_error(ctx):
    raise RuntimeError("boom ü")

@step("a pending step")
def step_pending(ctx):
    raise StepNotImplementedError("not yet")

@step("a table step")
def step_table(ctx):
    assert ctx.table is not None
    if any(cell == "fail" for row in ctx.table for cell in row):
        assert False, "table asked to fail"

@step("a docstring step")
def step_text(ctx):
    assert ctx.text

@step("a step with number {n:d}")
def step_number(ctx, n):
    assert isinstance(n, int)

@step('a step with number {n:d} and word "{word}"')
def step_number_word(ctx, n, word):
    if word == "fail":
        assert False, "word asked to fail"

@step("a step with custom type <{point:Point}>")
def step_point(ctx, point):
    assert point.x == 3

@step("the step skips the scenario")
def step_skip(ctx):
    ctx.scenario.skip("skipped in step")

@step("a step that attaches data")
def step_attach(ctx):
    ctx.attach("text/plain", b"hello bytes")
    ctx.attach("image/png", b"\\x89PNG\\x00\\x01")
'''

FILES["features/environment.py"] = u'''# -*- coding: utf-8 -*-
def before_scenario(ctx, scenario):
    if "hook_skip" in scenario.effective_tags:
        scenario.skip("by hook")
'''

FILES["recfmt.py"] = u'''# -*- coding: utf-8 -*-
from __future__ import unicode_literals
from behave.formatter.base import Formatter


class Recorder(Formatter):
    """Records the formatter event stream, one line per event."""
    name = "recorder"

    def __init__(self, stream_opener, config):
        super(Recorder, self).__init__(stream_opener, config)
        self.stream = self.open()

    def _w(self, text):
        self.stream.write(text + "\\n")

    def uri(self, uri):
        self._w("uri %s" % uri)

    def feature(self, feature):
        self._w("feature %s [%s] tags=%s" % (feature.name, feature.location,
                                            ",".join(feature.tags)))

    def rule(self, rule):
        self._w("rule %s [%s]" % (rule.name, rule.location))

    def background(self, background):
        self._w("background %r [%s] steps=%d" % (background.name,
                background.location, len(background.steps)))

    def scenario(self, scenario):
        self._w("scenario %s [%s] tags=%s" % (scenario.name, scenario.location,
                                             ",".join(scenario.tags)))

    def step(self, step):
        self._w("  step %s %s [%s] status=%s text=%r table=%r" % (
            step.keyword, step.name, step.location, step.status.name,
            step.text, step.table and [step.table.headings] +
            [list(r) for r in step.table.rows]))

    def match(self, match):
        args = [(a.name, a.original, repr(a.value) if isinstance(a.value, (int, str)) else type(a.value).__name__)
                for a in (match.arguments or [])]
        self._w("  match %s loc=%s args=%r" % (type(match).__name__,
                                              match.location, args))

    def result(self, step):
        self._w("  result %s [%s] %s err=%r" % (step.name, step.location,
                step.status.name, step.error_message))

    def embedding(self, mime_type, data):
        self._w("  embedding %s %r" % (mime_type, data))

    def eof(self):
        self._w("eof")

    def close(self):
        self._w("close")
        self.close_stream()
'''


def normalize(text, workdir):
    text = text.replace(workdir, "<WORK>")
    text = re.sub(r"\b\d+\.\d{3}s\b", "N.NNNs", text)
    text = re.sub(r"\b\d+m\d+\.\d{3}s\b", "NmN.NNNs", text)
    text = re.sub(r"line \d+", "line N", text)
    text = re.sub(r'("duration": )[-+0-9.e]+', r"\g<1>0", text)
    text = re.sub(r"0x[0-9a-fA-F]+", "0xADDR", text)
    # -- Python traceback caret/underline lines differ in nothing, keep them.
    return text


def write_tree(workdir):
    for relpath, content in sorted(FILES.items()):
        path = os.path.join(workdir, relpath)
        dirname = os.path.dirname(path)
        if not os.path.isdir(dirname):
            os.makedirs(dirname)
        with io.open(path, "w", encoding="utf-8") as f:
            f.write(content.lstrip("\n"))


ALL_FORMATS = ["plain", "progress", "progress2", "progress3", "json",
               "json.pretty", "pretty", "recfmt:Recorder", "behave.formatter.plain:Plain0Formatter", "null", "steps.usage",
               "steps.doc", "tags", "rerun"]


def run_behave(workdir, title, formats, extra_args, paths=("features",)):
    print("=" * 78)
    print("RUN: %s" % title)
    print("  formats: %s" % " ".join(formats))
    print("  args   : %s" % " ".join(extra_args))
    outdir = os.path.join(workdir, "out")
    if os.path.isdir(outdir):
        shutil.rmtree(outdir)
    os.makedirs(outdir)
    cmd = [PYTHON, "-m", "behave"]
    outfiles = []
    for i, fmt in enumerate(formats):
        outfile = os.path.join("out", "%02d_%s.txt" % (i, fmt.replace(":", "_")))
        outfiles.append((fmt, outfile))
        cmd += ["-f", fmt, "-o", outfile]
    cmd += list(extra_args) + list(paths)
    env = dict(os.environ)
    env["PYTHONPATH"] = WORKTREE + os.pathsep + workdir
    env["PYTHONIOENCODING"] = "utf-8"
    env["PYTHONDONTWRITEBYTECODE"] = "1"
    env.pop("BEHAVE_ARGS", None)
    proc = subprocess.Popen(cmd, cwd=workdir, env=env, stdout=subprocess.PIPE,
                            stderr=subprocess.PIPE)
    out, err = proc.communicate()
    print("  exit   : %s" % proc.returncode)
    print("--- stdout")
    print(normalize(out.decode("utf-8", "replace"), workdir))
    print("--- stderr")
    print(normalize(err.decode("utf-8", "replace"), workdir))
    for fmt, outfile in outfiles:
        path = os.path.join(workdir, outfile)
        print("--- report[%s]" % fmt)
        if not os.path.exists(path):
            print("<MISSING>")
            continue
        with io.open(path, "r", encoding="utf-8") as f:
            content = f.read()
        print(normalize(content, workdir))
        if fmt.startswith("json"):
            describe_json(path, content)


def loc(x):
    return "%s:%s" % (x.location.filename, x.location.line)


def describe_json(path, content):
    """Load the JSON report, and read it back with behave.json_parser."""
    print("--- json structure[%s]" % os.path.basename(path))
    try:
        data = json.loads(content)
    except ValueError as e:
        print("INVALID JSON: %s" % e)
        return
    for feature in data:
        print("F %s|%s|%s|%s|%s" % (feature.get("keyword"), feature.get("name"),
              feature.get("status"), feature.get("tags"), feature.get("location")))
        for element in feature.get("elements", []):
            print(" E %s|%s|%s|%s|%s|%s" % (element.get("type"),
                  element.get("keyword"), element.get("name"),
                  element.get("status", "<none>"), element.get("tags"),
                  element.get("location")))
            for st in element["steps"]:
                result = st.get("result")
                status = result and result["status"]
                err = result and result.get("error_message")
                if isinstance(err, list):
                    err = [re.sub(r"line \d+", "line N", x) for x in err]
                elif err:
                    err = re.sub(r"line \d+", "line N", err)
                match = st.get("match")
                print("  S %s|%s|%s|%s|keys=%s" % (st["keyword"], st["name"],
                      st["step_type"], status, sorted(st.keys())))
                if match:
                    print("    match.args=%s loc?=%s" % (
                        json.dumps(match["arguments"], sort_keys=True),
                        bool(match["location"])))
                if err:
                    print("    err=%s" % json.dumps(err)[:300].replace(
                        os.path.dirname(os.path.dirname(path)), "<WORK>"))
                if "text" in st:
                    print("    text=%s" % json.dumps(st["text"]))
                if "table" in st:
                    print("    table=%s" % json.dumps(st["table"], sort_keys=True))
                if "embeddings" in st:
                    print("    embeddings=%s" % json.dumps(st["embeddings"], sort_keys=True))
    print("--- json read back with behave.json_parser")
    from behave import json_parser
    try:
        features = json_parser.parse(path)
    except Exception as e:  # pylint: disable=broad-except
        print("json_parser: %s: %s" % (type(e).__name__, e))
        return
    for feature in features:
        print("F %s|%s|%s|%s|%s|bg=%s" % (feature.keyword, feature.name,
              feature.tags, feature.description, loc(feature),
              feature.background and (feature.background.name,
                                      len(feature.background.steps))))
        for scenario in feature.scenarios:
            print(" SC %s|%s|%s|%s|%s" % (scenario.keyword, scenario.name,
                  scenario.tags, scenario.description, loc(scenario)))
            for st in scenario.steps:
                print("  ST %s|%s|%s|%s|%s|text=%r|table=%s" % (
                    st.keyword, st.step_type, st.name, st.status.name,
                    loc(st), st.text,
                    st.table and ([st.table.headings] +
                                  [list(r) for r in st.table.rows])))


def standard_runs(workdir):
    base = ["--no-color", "--no-summary"]
    run_behave(workdir, "all formatters, defaults", ALL_FORMATS,
               ["--no-color", "--tags=not @skip"])
    run_behave(workdir, "show-skipped + timings",
               ["plain", "json.pretty", "progress3", "recfmt:Recorder", "progress2", "pretty"],
               base + ["--show-skipped", "--show-timings", "--tags=not @skip"])
    run_behave(workdir, "no-skipped, no timings, no multiline",
               ["recfmt:Recorder", "progress2", "plain", "json", "progress3", "pretty", "progress"],
               base + ["--no-skipped", "--no-timings", "--no-multiline", "--tags=not @skip"])
    run_behave(workdir, "dry-run",
               ["json.pretty", "plain", "recfmt:Recorder", "progress3", "progress2", "pretty"],
               base + ["--dry-run"])
    run_behave(workdir, "dry-run, no-skipped, tag two",
               ["plain", "recfmt:Recorder", "json", "progress3"],
               base + ["--dry-run", "--no-skipped", "--tags=@two"])
    run_behave(workdir, "colour on",
               ["pretty", "plain", "progress3", "json", "recfmt:Recorder"],
               ["--color=always", "--no-summary", "--tags=not @skip", "--no-timings"],
               paths=("features/rules.feature", "features/outline.feature"))
    run_behave(workdir, "stop at first failure",
               ["progress3", "plain", "json.pretty", "recfmt:Recorder", "progress2"],
               base + ["--stop", "--tags=not @skip"])
    run_behave(workdir, "only one formatter json",
               ["json"], base + ["--tags=@rules and not @skip"])
    run_behave(workdir, "name selection, no capture",
               ["plain", "json", "recfmt:Recorder", "progress3"],
               base + ["--no-capture", "-n", "R1", "--show-skipped"])
    run_behave(workdir, "no feature selected",
               ["json", "plain", "progress2", "progress3", "recfmt:Recorder"],
               base + ["--tags=@nonexistent", "--no-skipped"])
    run_behave(workdir, "wip mode",
               ["plain", "json", "recfmt:Recorder"],
               ["--no-summary", "--wip"])
    run_behave(workdir, "stdout formatter w/o outfile ordering",
               ["plain", "progress3"], base + ["--tags=@ex2"])


def main(twin_id, probes):
    workdir = os.path.join(WORKTREE, "_twins", twin_id, "_work")
    if os.path.isdir(workdir):
        shutil.rmtree(workdir)
    os.makedirs(workdir)
    try:
        write_tree(workdir)
        standard_runs(workdir)
        print("=" * 78)
        print("DIRECT PROBES")
        probes(workdir)
    finally:
        shutil.rmtree(workdir, ignore_errors=True)


# -----------------------------------------------------------------------------
# DIRECT PROBES: Step.run() -- hooks that fail, nested steps, fake runner
# -----------------------------------------------------------------------------
HOOKS_FEATURE = u'''
Feature: Step hooks and nested steps

  Scenario: before_step hook fails
    Given a passing step
    When a passing step with hookfail-before
    Then a passing step

  Scenario: after_step hook fails
    Given a passing step with hookfail-after
    Then a passing step

  Scenario: after_step hook fails on failing step
    Given a failing step with hookfail-after
    Then a passing step

  @wip
  Scenario: wip with pending and undefined
    Given a pending step
    And a pending step without text
    Then an unknown wip step

  Scenario: pending without text
    Given a pending step without text

  Scenario: assertion without text
    Given a step asserting without text

  Scenario: nested steps
    Given nested steps that pass
    When nested steps with an undefined step
    Then a passing step

  Scenario: nested steps failing
    Given nested steps that fail

  Scenario: nested steps pending
    Given nested steps that are pending
'''

HOOKS_ENVIRONMENT = u'''# -*- coding: utf-8 -*-
def before_scenario(ctx, scenario):
    if "hook_skip" in scenario.effective_tags:
        scenario.skip("by hook")

def before_step(ctx, step):
    print("before_step:%s status=%s" % (step.name, step.status.name))
    if "hookfail-before" in step.name:
        raise RuntimeError("before_step hook failed")

def after_step(ctx, step):
    print("after_step:%s status=%s dur>=0:%s" % (step.name, step.status.name,
                                                step.duration >= 0))
    if "hookfail-after" in step.name:
        raise RuntimeError("after_step hook failed")
'''

HOOKS_STEPS = u'''# -*- coding: utf-8 -*-
from behave import step
from behave.api.pending_step import StepNotImplementedError

@step("a passing step with {word}")
def step_pass_word(ctx, word):
    pass

@step("a failing step with {word}")
def step_fail_word(ctx, word):
    assert False, "failing " + word

@step("a pending step without text")
def step_pending_no_text(ctx):
    raise StepNotImplementedError()

@step("a step asserting without text")
def step_assert_no_text(ctx):
    assert False

@step("nested steps that pass")
def step_nested_pass(ctx):
    ctx.execute_steps(u"""
        Given a passing step
        And a step with number 3
    """)

@step("nested steps with an undefined step")
def step_nested_undefined(ctx):
    ctx.execute_steps(u"Given a passing step\\nAnd a nested unknown step")

@step("nested steps that fail")
def step_nested_fail(ctx):
    ctx.execute_steps(u"Given a failing step")

@step("nested steps that are pending")
def step_nested_pending(ctx):
    ctx.execute_steps(u"Given a pending step")
'''


def probes(workdir):
    for relpath, content in [("features/hooks.feature", HOOKS_FEATURE),
                             ("features/environment.py", HOOKS_ENVIRONMENT),
                             ("features/steps/hooks_steps.py", HOOKS_STEPS)]:
        with io.open(os.path.join(workdir, relpath), "w", encoding="utf-8") as f:
            f.write(content.lstrip("\n"))

    formats = ["plain", "json.pretty", "recfmt:Recorder", "progress3",
               "progress2", "pretty"]
    base = ["--no-color", "--no-timings"]
    run_behave(workdir, "hooks: default", formats, base + ["--tags=not @skip"])
    run_behave(workdir, "hooks: dry-run", formats, base + ["--dry-run"])
    run_behave(workdir, "hooks: wip", formats, ["--wip", "--no-timings"])
    run_behave(workdir, "hooks: no-capture, only hooks.feature", formats,
               base + ["--no-capture", "--no-logcapture"],
               paths=("features/hooks.feature",))
    run_behave(workdir, "hooks: stop", ["plain", "recfmt:Recorder", "json"],
               base + ["--stop"], paths=("features/hooks.feature",))
    run_behave(workdir, "hooks: junit", ["plain", "recfmt:Recorder"],
               base + ["--junit", "--junit-directory=out/junit"],
               paths=("features/hooks.feature",))
    junit_dir = os.path.join(workdir, "out", "junit")
    for name in sorted(os.listdir(junit_dir)):
        with io.open(os.path.join(junit_dir, name), encoding="utf-8") as f:
            text = normalize(f.read(), workdir)
        text = re.sub(r'time="[-+0-9.eE]+"', 'time="T"', text)
        text = re.sub(r'timestamp="[^"]+"', 'timestamp="TS"', text)
        text = re.sub(r'hostname="[^"]+"', 'hostname="H"', text)
        print("--- junit %s" % name)
        print(text)

    # -- FAKE RUNNER: Step.run() in isolation, call log of everything it touches.
    from behave.model import Step, Scenario
    from behave.model_core import Status
    from behave.matchers import NoMatch
    from behave.api.pending_step import StepNotImplementedError

    log = []

    class FakeFormatter(object):
        def __init__(self, name):
            self.name = name

        def match(self, match):
            log.append("%s.match(%s)" % (self.name, type(match).__name__))

        def result(self, step):
            log.append("%s.result(%s,%s,hook_failed=%s,err=%r)" % (
                self.name, step.name, step.status.name, step.hook_failed,
                step.error_message and
                re.sub(r"line \d+", "line N", step.error_message)))

    class FakeMatch(object):
        def __init__(self, action):
            self.action = action

        def run(self, context):
            log.append("match.run text=%r table=%r" % (context.text, context.table))
            return self.action(context)

    class FakeCaptured(object):
        def __init__(self, report):
            self.report = report

        def make_report(self):
            log.append("captured.make_report")
            return self.report

    class FakeCaptureController(object):
        def __init__(self, report):
            self.captured = FakeCaptured(report)

    class FakeConfig(object):
        def __init__(self, dry_run):
            self.dry_run = dry_run

    class FakeContext(object):
        def _set_root_attribute(self, name, value):
            log.append("context._set_root_attribute(%s,%r)" % (name, value))

    class FakeRegistry(object):
        def __init__(self, match):
            self.match = match

        def find_match(self, step):
            log.append("find_match(%s) status=%s" % (step.name, step.status.name))
            return self.match

    class FakeRunner(object):
        def __init__(self, dry_run, match, scenario, fail_hooks, report):
            self.config = FakeConfig(dry_run)
            self.context = FakeContext()
            if scenario is not Ellipsis:
                self.context.scenario = scenario
            self.step_registry = FakeRegistry(match)
            self.formatters = [FakeFormatter("f1"), FakeFormatter("f2")]
            self.undefined_steps = []
            self.capture_controller = FakeCaptureController(report)
            self.fail_hooks = fail_hooks
            self.aborted = False

        def run_hook(self, name, context, step):
            duration = "n/a"
            if name == "before_step":
                duration = "0" if step.duration == 0 else "nonzero"
            log.append("hook %s status=%s duration=%s" % (
                name, step.status.name, duration))
            if name in self.fail_hooks:
                step.hook_failed = True

        def start_capture(self):
            log.append("start_capture")

        def stop_capture(self):
            log.append("stop_capture")

        def abort(self, reason=""):
            log.append("abort(%s)" % reason)
            self.aborted = True

    def action_pass(context):
        pass

    def action_fail(context):
        assert False, u"failed ü"

    def action_fail_notext(context):
        raise AssertionError()

    def action_error(context):
        raise ValueError("bad value")

    def action_pending(context):
        raise StepNotImplementedError(u"todo")

    def action_pending_notext(context):
        raise StepNotImplementedError()

    def action_interrupt(context):
        raise KeyboardInterrupt()

    def action_exit(context):
        raise SystemExit(3)

    def action_skip(context):
        context.scenario.skip("x") if False else None
        context.the_step.status = Status.skipped

    class Truthy(object):
        def __bool__(self):
            log.append("dry_run.__bool__")
            return True
        __nonzero__ = __bool__

    wip_scenario = Scenario("x.feature", 1, u"Scenario", u"wip", tags=[u"wip"])
    plain_scenario = Scenario("x.feature", 1, u"Scenario", u"plain", tags=[u"other"])
    actions = [None, action_pass, action_fail, action_fail_notext, action_error,
               action_pending, action_pending_notext, action_interrupt,
               action_exit, action_skip]
    case_no = 0
    for action in actions:
        for dry_run in (False, True, Truthy()):
            for scenario in (Ellipsis, None, plain_scenario, wip_scenario):
                for fail_hooks in ((), ("before_step",), ("after_step",),
                                   ("before_step", "after_step")):
                    for quiet, capture, report in ((False, True, u"CAPTURED ☃"),
                                                   (True, False, u""),
                                                   (False, True, u""),
                                                   (True, True, u"rep")):
                        case_no += 1
                        del log[:]
                        match = action and FakeMatch(action)
                        runner = FakeRunner(dry_run, match, scenario,
                                            fail_hooks, report)
                        step = Step("x.feature", 5, u"Given", "given", u"st%d" % case_no)
                        step.text = u"TEXT" if case_no % 2 else None
                        step.table = None
                        step.status = Status.failed
                        step.hook_failed = True
                        step.duration = 99
                        step.error_message = u"stale"
                        runner.context.the_step = step
                        print("CASE %d: action=%s dry_run=%s scenario=%s fail_hooks=%s quiet=%s capture=%s" % (
                            case_no, action and action.__name__,
                            type(dry_run).__name__ if not isinstance(dry_run, bool) else dry_run,
                            scenario if (scenario is Ellipsis or scenario is None) else scenario.name,
                            ",".join(fail_hooks), quiet, capture))
                        try:
                            outcome = repr(step.run(runner, quiet=quiet, capture=capture))
                        except BaseException as e:  # pylint: disable=broad-except
                            outcome = "%s: %s" % (type(e).__name__, e)
                        print("  outcome=%s status=%s hook_failed=%s duration_ok=%s undefined=%d aborted=%s" % (
                            outcome, step.status.name, step.hook_failed,
                            0 <= step.duration < 50, len(runner.undefined_steps),
                            runner.aborted))
                        err = step.error_message
                        print("  error_message=%r exception=%r captured=%s" % (
                            err and re.sub(r"line \d+", "line N", err),
                            step.exception,
                            type(getattr(step, "captured", None)).__name__))
                        print("  log=%s" % " | ".join(log))


main("C15-t12", probes)
