# -*- coding: UTF-8 -*-
"""Equivalence transcript for C13-t21 (masking-warning parameters of
Context.__setattr__ / Context._set_root_attribute)."""
from __future__ import print_function
import sys
sys.path.insert(0, "/tmp/wtX/C13")
import random
import warnings

from behave.runner import Context, ContextMaskWarning, ContextMode, \
    scoped_context_layer, use_context_with_mode


class Config(object):
    def __init__(self, verbose=False):
        self.verbose = verbose


class FakeRunner(object):
    def __init__(self, verbose=False):
        self.config = Config(verbose)
        self.captured = None
        self.formatters = []


def show_warnings(caught):
    for w in caught:
        print("    WARNING %s: %s [%s:%s]" % (
            w.category.__name__, w.message,
            w.filename.rsplit("/", 1)[-1], w.lineno))


def show_state(context):
    # -- Public view: Every name seen through the public API.
    names = set()
    for frame in context._stack:
        names.update(frame.keys())
    view = []
    for name in sorted(names):
        if name == "config":
            continue
        view.append("%s=%r" % (name, getattr(context, name)))
    print("    VIEW depth=%d %s" % (len(context._stack), " ".join(view)))
    origins = sorted((k, v.name) for k, v in context._origin.items())
    print("    ORIGIN %r" % (origins,))
    records = sorted((k, v[2]) for k, v in context._record.items())
    print("    RECORD %r" % (records,))


def user_sets(context, name, value):
    setattr(context, name, value)


def behave_sets(context, name, value):
    setattr(context, name, value)


def run_op(context, op, *args):
    print("  OP %s%r" % (op, args))
    with warnings.catch_warnings(record=True) as caught:
        warnings.simplefilter("always")
        try:
            if op == "push":
                context._push(*args)
            elif op == "pop":
                context._pop()
            elif op == "set_user":
                with context.use_with_user_mode():
                    user_sets(context, *args)
            elif op == "set_behave":
                with context._use_with_behave_mode():
                    behave_sets(context, *args)
            elif op == "set_plain":
                setattr(context, *args)
            elif op == "root_user":
                with context.use_with_user_mode():
                    context._set_root_attribute(*args)
            elif op == "root_behave":
                with context._use_with_behave_mode():
                    context._set_root_attribute(*args)
            elif op == "del":
                delattr(context, *args)
            elif op == "get":
                print("    -> %r" % (getattr(context, *args),))
            elif op == "in":
                print("    -> %r" % (args[0] in context,))
            elif op == "abort":
                context.abort()
            else:
                raise RuntimeError(op)
        except Exception as e:      # pylint: disable=broad-except
            print("    RAISED %s: %s" % (e.__class__.__name__, e))
    show_warnings(caught)
    show_state(context)


def scripted(verbose):
    print("== scripted verbose=%s" % verbose)
    context = Context(FakeRunner(verbose))
    script = [
        ("set_user", "a", 1), ("set_behave", "b", 2),
        ("push", "feature"),
        ("set_user", "a", 10), ("set_behave", "a", 11),
        ("set_user", "b", 20), ("set_behave", "b", 21),
        ("root_user", "a", 100), ("root_behave", "a", 101),
        ("root_user", "b", 200), ("root_behave", "b", 201),
        ("root_user", "fresh", 1), ("root_behave", "fresh2", 2),
        ("push", "scenario"),
        ("set_user", "a", 1000), ("set_behave", "b", 2000),
        ("set_user", "feature", "F"), ("set_behave", "feature", "G"),
        ("set_user", "table", "T"), ("set_user", "text", "X"),
        ("root_user", "a", 5), ("root_behave", "b", 6),
        ("root_behave", "failed", True), ("root_user", "failed", False),
        ("abort",),
        ("del", "a"), ("get", "a"), ("del", "a"), ("in", "a"),
        ("set_user", "c", 3), ("root_behave", "c", 33), ("root_user", "c", 34),
        ("pop",), ("get", "c"), ("get", "a"),
        ("pop",), ("get", "a"), ("get", "b"), ("in", "c"),
        ("set_plain", "_private", 7), ("get", "_private"), ("in", "_private"),
        ("get", "_missing"), ("get", "missing"),
    ]
    for step in script:
        run_op(context, *step)


def warnings_as_errors():
    print("== warnings as errors")
    context = Context(FakeRunner(True))
    context._push("feature")
    with context.use_with_user_mode():
        context.x = 1
    context._push("scenario")
    with warnings.catch_warnings():
        warnings.simplefilter("error")
        for mode in (ContextMode.USER, ContextMode.BEHAVE):
            with use_context_with_mode(context, mode):
                for action in ("set", "root"):
                    try:
                        if action == "set":
                            context.x = 2
                        else:
                            context._set_root_attribute("x", 3)
                    except Exception as e:      # pylint: disable=broad-except
                        print("  %s %s RAISED %s: %s" % (
                            mode.name, action, e.__class__.__name__, e))
                    else:
                        print("  %s %s ok" % (mode.name, action))
                    show_state(context)
                    if "x" in context._stack[0]:
                        del context.x
    # -- ATTRIBUTE in a frame without a record (set behind the API).
    context._stack[1]["ghost"] = 1
    for action in ("set", "root"):
        try:
            if action == "set":
                context.ghost = 2
            else:
                context._set_root_attribute("ghost", 3)
        except Exception as e:      # pylint: disable=broad-except
            print("  ghost %s RAISED %s: %r" % (action, e.__class__.__name__, e.args))
        show_state(context)


def randomized(seed, length, verbose):
    print("== random seed=%d verbose=%s" % (seed, verbose))
    rnd = random.Random(seed)
    context = Context(FakeRunner(verbose))
    names = ["a", "b", "c", "failed", "feature", "tags"]
    layers = ["feature", "rule", "scenario", None]
    for _ in range(length):
        choice = rnd.random()
        depth = len(context._stack)
        if choice < 0.12 and depth < 5:
            run_op(context, "push", layers[min(depth - 1, 3)])
        elif choice < 0.22 and depth > 1:
            run_op(context, "pop")
        elif choice < 0.42:
            run_op(context, "set_user", rnd.choice(names), rnd.randint(0, 99))
        elif choice < 0.58:
            run_op(context, "set_behave", rnd.choice(names), rnd.randint(0, 99))
        elif choice < 0.70:
            run_op(context, "root_user", rnd.choice(names), rnd.randint(0, 99))
        elif choice < 0.82:
            run_op(context, "root_behave", rnd.choice(names), rnd.randint(0, 99))
        elif choice < 0.90:
            run_op(context, "del", rnd.choice(names))
        elif choice < 0.95:
            run_op(context, "get", rnd.choice(names))
        else:
            run_op(context, "in", rnd.choice(names))


if __name__ == "__main__":
    scripted(False)
    scripted(True)
    warnings_as_errors()
    for seed in range(12):
        randomized(seed, 60, verbose=bool(seed % 2))
