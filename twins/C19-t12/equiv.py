# -*- coding: UTF-8 -*-
"""Equivalence transcript for the active-tag logic (property C19).

Prints a canonical transcript of everything observed through the public
behaviour of behave.tag_matcher: verdicts, exclude reasons, call logs of lazy
values / compare functions / overridden hooks, provider caches, log records,
exception types and messages.
"""
from __future__ import print_function
import sys
sys.path.insert(0, "/tmp/wtV/C19")

import itertools
import logging
import operator
import re

from behave.tag_matcher import (
    ValueObject, NumberValueObject, BoolValueObject,
    TagMatcher, ActiveTagMatcher, PredicateTagMatcher, CompositeTagMatcher,
    ActiveTagValueProvider, CompositeActiveTagValueProvider,
    IActiveTagValueProvider,
    bool_to_string, setup_active_tag_values, print_active_tags,
)
from behave._types import Unknown
from behave.active_tag.python import VersionValueObject
import behave.active_tag.python as at_python
import behave.active_tag.python_feature as at_python_feature


_ADDRESS = re.compile(r" at 0x[0-9a-fA-F]+")


def out(*args):
    # -- CANONICAL: Object addresses are not part of the behaviour.
    print(_ADDRESS.sub(" at 0xADDR", " ".join([str(arg) for arg in args])))
    sys.stdout.flush()


# -- LOG CAPTURE for "behave.active_tags"
class ListHandler(logging.Handler):
    def __init__(self):
        logging.Handler.__init__(self)
        self.messages = []

    def emit(self, record):
        self.messages.append("%s:%s" % (record.levelname, record.getMessage()))


LOG = ListHandler()
_logger = logging.getLogger("behave.active_tags")
_logger.addHandler(LOG)
_logger.propagate = False
_logger.setLevel(logging.DEBUG)


def drain_log():
    messages = list(LOG.messages)
    del LOG.messages[:]
    return messages


def attempt(func, *args, **kwargs):
    try:
        return ("ok", func(*args, **kwargs))
    except BaseException as e:     # pylint: disable=broad-except
        return ("raised", e.__class__.__name__, str(e))


CALLS = []


def drain_calls():
    calls = list(CALLS)
    del CALLS[:]
    return calls


def logged_compare(name, func):
    def compare(current, tag_value):
        CALLS.append("cmp:%s(%r,%r)" % (name, current, tag_value))
        return func(current, tag_value)
    return compare


def lazy(name, value):
    def current():
        CALLS.append("lazy:%s" % name)
        return value
    return current


def raising_compare(exc):
    def compare(current, tag_value):
        CALLS.append("cmp:raise(%r,%r)" % (current, tag_value))
        raise exc
    return compare


class Truthy(object):
    """Non-bool compare result with observable truth testing."""
    def __init__(self, name, flag):
        self.name = name
        self.flag = flag

    def __bool__(self):
        CALLS.append("bool:%s" % self.name)
        return self.flag
    __nonzero__ = __bool__


# ---------------------------------------------------------------------------
# SECTION 1: exhaustive verdicts over a small tag universe
# ---------------------------------------------------------------------------
def section1():
    out("== SECTION 1: exhaustive small universes")
    universe = [
        "use.with_a=1", "use.with_a=2", "not.with_a=1", "not.with_a=3",
        "active.with_b=x", "not_active.with_b=x", "only.with_b=y",
        "use.with_u=1", "not.with_u=1",
        "use.with_n.min=5", "not.with_n.min=7", "use.with_n.min=zz",
        "use.with_flag=yes", "not.with_flag=maybe",
        "foo", "use.with_a", "not.with_=1", "xuse.with_a=1",
    ]

    def providers():
        yield "dict", lambda: {
            "a": "1", "b": "x",
            "n.min": NumberValueObject(6, logged_compare("ge", operator.ge)),
            "flag": BoolValueObject(True),
        }
        yield "dict2", lambda: {
            "a": "3", "b": "y",
            "n.min": NumberValueObject(lazy("n", 7), operator.le),
            "flag": BoolValueObject(lazy("flag", False)),
        }
        yield "atvp", lambda: ActiveTagValueProvider({
            "a": lazy("a", "2"), "b": "z",
            "n.min": ValueObject("5"),
            "flag": ValueObject("yes", logged_compare("contains", operator.contains)),
        })
        yield "composite", lambda: CompositeActiveTagValueProvider([
            {"a": "1"},
            ActiveTagValueProvider({"b": lazy("b", "y"), "a": "9"}),
            CompositeActiveTagValueProvider([{"flag": BoolValueObject(False)}]),
        ])

    for provider_name, make_provider in providers():
        for ignore_unknown in (None, False):
            for use_reason in (False, True):
                provider = make_provider()
                matcher = ActiveTagMatcher(
                    provider, ignore_unknown_categories=ignore_unknown)
                matcher.use_exclude_reason = use_reason
                out("-- provider=%s ignore_unknown=%s use_reason=%s"
                    % (provider_name, ignore_unknown, use_reason))
                for size in range(0, 4):
                    for tags in itertools.combinations(universe, size):
                        matcher.exclude_reason = None
                        r1 = attempt(matcher.should_exclude_with, list(tags))
                        calls1 = drain_calls()
                        reason = matcher.exclude_reason
                        r2 = attempt(matcher.should_run_with, tags)
                        calls2 = drain_calls()
                        logs = drain_log()
                        out("%s => %r reason=%r run=%r calls=%r/%r logs=%r"
                            % (",".join(tags), r1, reason, r2,
                               calls1, calls2, logs))
                cache = getattr(provider, "data", None)
                if cache is not None:
                    out("   cache-keys=%r" % sorted(cache.keys()))

    out("-- multisets (duplicates / permutations)")
    small = ["use.with_a=1", "not.with_a=1", "use.with_a=2", "not.with_b=x",
             "use.with_b=x", "zzz"]
    matcher = ActiveTagMatcher({"a": "1", "b": "x"})
    matcher.use_exclude_reason = True
    for size in range(1, 5):
        for tags in itertools.product(small, repeat=size):
            matcher.exclude_reason = None
            r = attempt(matcher.should_exclude_with, list(tags))
            out("%s => %r reason=%r" % (",".join(tags), r, matcher.exclude_reason))


# ---------------------------------------------------------------------------
# SECTION 2: grouping, selection, is_tag_group_enabled directly
# ---------------------------------------------------------------------------
def show_pairs(pairs):
    return [(tag, m.group("prefix"), m.group("category"), m.group("value"))
            for tag, m in pairs]


def section2():
    out("== SECTION 2: grouping / selection / group logic")
    matcher = ActiveTagMatcher({"a": "1", "b.c": "x"})
    tag_lists = [
        [],
        ["foo", "bar"],
        ["use.with_a=1"],
        ["use.with_b.c=x", "foo", "not.with_a=2", "use.with_a=1",
         "only.with_zz=1", "not_active.with_b.c=", "active.with_a==",
         "use.with_b.c=x"],
        ["use.with_z=1", "use.with_y=1", "use.with_x=1", "use.with_y=2",
         "use.with_z=2"],
        ["use.with_a.=1", "use.with_.a=1", "use.with_a..b=1", "use.with_a.b.c.d=1",
         "Use.with_a=1", " use.with_a=1", "use.with_a=1\n", "use.with_a=1 2",
         "notx.with_a=1", "not.with_a=1=2"],
    ]
    for tags in tag_lists:
        gen = matcher.group_active_tags_by_category(tags)
        out("group-type:", type(gen).__name__)
        groups = list(gen)
        out("groups(%r):" % (tags,))
        for group in groups:
            out("   ", type(group).__name__, len(group), group[0],
                type(group[1]).__name__, show_pairs(group[1]))
        out("select:", show_pairs(matcher.select_active_tags(tags)))
        # -- generator input (consumed once)
        out("groups(gen):", [(c, show_pairs(p)) for c, p in
                             matcher.group_active_tags_by_category(t for t in tags)])
        out("exclude(gen):", attempt(matcher.should_exclude_with, (t for t in tags)))
        out("exclude(tuple):", attempt(matcher.should_exclude_with, tuple(tags)))
        out("exclude(set-ish single):", attempt(matcher.should_exclude_with, tags[:1]))

    out("-- laziness of grouping")
    def noisy_tags():
        for tag in ["use.with_a=1", "not.with_a=1"]:
            CALLS.append("tag:%s" % tag)
            yield tag
    gen = matcher.group_active_tags_by_category(noisy_tags())
    out("after-call:", drain_calls())
    first = next(gen)
    out("after-next:", drain_calls(), first[0], show_pairs(first[1]))
    out("rest:", attempt(next, gen)[:2], drain_calls())
    out("bad tags:", attempt(list, matcher.group_active_tags_by_category(None))[:2])
    out("bad tags2:", attempt(list, matcher.group_active_tags_by_category([1]))[:2])
    out("bad tags3:", attempt(matcher.should_exclude_with, [None])[:2])
    # -- call without iteration must not raise
    out("no-iteration:", type(matcher.group_active_tags_by_category(None)).__name__)

    out("-- is_tag_group_enabled directly")
    pairs_a = list(matcher.select_active_tags(
        ["use.with_a=1", "not.with_a=2", "use.with_a=3"]))
    pairs_bc = list(matcher.select_active_tags(["not.with_b.c=x"]))
    out(attempt(matcher.is_tag_group_enabled, "a", []))
    out(attempt(matcher.is_tag_group_enabled, "unknown", []))
    out(attempt(matcher.is_tag_group_enabled, "a", pairs_a))
    out(attempt(matcher.is_tag_group_enabled, "a", tuple(pairs_a)))
    out(attempt(matcher.is_tag_group_enabled, "a", iter(pairs_a)))
    out(attempt(matcher.is_tag_group_enabled, "b.c", pairs_bc))
    out(attempt(matcher.is_tag_group_enabled, "b.c", pairs_a))     # AssertionError
    out(attempt(matcher.is_tag_group_enabled, "nope", pairs_a))    # unknown: ignored
    matcher2 = ActiveTagMatcher({"a": "1"}, ignore_unknown_categories=False)
    out(attempt(matcher2.is_tag_group_enabled, "nope", pairs_a))   # AssertionError
    out(attempt(matcher2.is_tag_group_enabled, "a", [("x", None)])[:2])
    out(attempt(matcher2.is_tag_group_enabled, "a", [("x",)])[:2])
    out(attempt(matcher2.is_tag_group_enabled, "a", None))
    out(attempt(matcher2.is_tag_group_enabled, "a", 0))
    out(attempt(matcher2.is_tag_group_enabled, "a", 5)[:2])
    matcher3 = ActiveTagMatcher({"a": None, "b": Unknown, "c": 0, "d": ""},
                                ignore_unknown_categories=False)
    for tags in (["use.with_a=None"], ["not.with_a=None"], ["use.with_b=1"],
                 ["not.with_b=1"], ["use.with_c=0"], ["use.with_d="],
                 ["not.with_d="], ["use.with_e="], ["not.with_e="]):
        out(tags, attempt(matcher3.should_exclude_with, tags))
    matcher3.ignore_unknown_categories = True
    for tags in (["use.with_b=1"], ["not.with_b=1"], ["use.with_e=1"]):
        out(tags, attempt(matcher3.should_exclude_with, tags))

    out("-- overridden hooks")
    class MyMatcher(ActiveTagMatcher):
        def is_tag_negated(self, tag):
            CALLS.append("negated?%s" % tag)
            return tag in ("not", "only")

    class MyMatcher2(ActiveTagMatcher):
        def is_tag_negated(self, tag):
            CALLS.append("negated2?%s" % tag)
            return "yes" if tag.startswith("not") else ""

        def is_tag_group_enabled(self, group_category, group_tag_pairs):
            CALLS.append("group:%s:%d" % (group_category, len(group_tag_pairs)))
            return super(MyMatcher2, self).is_tag_group_enabled(
                group_category, group_tag_pairs)

    provider = {"a": ValueObject(lazy("a", "1"), logged_compare("eq", operator.eq)),
                "b": ValueObject("x", logged_compare("ne", operator.ne))}
    for cls in (MyMatcher, MyMatcher2):
        m = cls(provider)
        m.use_exclude_reason = True
        for tags in (["use.with_a=1", "only.with_a=1"],
                     ["only.with_a=2", "not_active.with_a=1", "use.with_b=x"],
                     ["not.with_b=x", "use.with_a=2", "active.with_a=1",
                      "not.with_a=3", "use.with_q=1"]):
            m.exclude_reason = None
            out(cls.__name__, tags, attempt(m.should_exclude_with, tags),
                m.exclude_reason, drain_calls())

    out("-- non-bool compare results")
    for flags in itertools.product([False, True], repeat=3):
        results = iter([Truthy("t%d" % i, f) for i, f in enumerate(flags)])
        vo = ValueObject("1", lambda cur, tag, _r=results: next(_r))
        m = ActiveTagMatcher({"a": vo})
        out(flags, attempt(m.should_exclude_with,
                           ["use.with_a=1", "not.with_a=2", "use.with_a=3"]),
            drain_calls())

    out("-- exceptions from compare / lazy value")
    for exc in (ValueError("boom"), TypeError("bad"), KeyError("k"),
                RuntimeError("rt")):
        for vo_class in (ValueObject, NumberValueObject, BoolValueObject,
                         VersionValueObject):
            vo = vo_class(1, raising_compare(exc))
            m = ActiveTagMatcher({"a": vo})
            for tags in (["use.with_a=1"], ["not.with_a=yes", "use.with_a=1.2"]):
                out(exc.__class__.__name__, vo_class.__name__, tags,
                    attempt(m.should_exclude_with, tags), drain_calls(), drain_log())

    def failing_lazy():
        CALLS.append("lazy:fail")
        raise ValueError("lazy-fail")
    for vo_class in (ValueObject, NumberValueObject, BoolValueObject):
        m = ActiveTagMatcher({"a": vo_class(failing_lazy)})
        out(vo_class.__name__, attempt(m.should_exclude_with, ["use.with_a=1"]),
            drain_calls(), drain_log())
        out(vo_class.__name__, attempt(m.should_exclude_with, ["use.with_a=x"]),
            drain_calls(), drain_log())


# ---------------------------------------------------------------------------
# SECTION 3: value objects
# ---------------------------------------------------------------------------
def section3():
    out("== SECTION 3: value objects")
    tag_values = ["", "0", "1", "5", "6", "7", "-1", "+5", " 5 ", "5.0", "0x5",
                  "abc", "true", "True", "YES", "on", "false", "No", "OFF",
                  "maybe", "1.2", "3.12", "3", "3.x", u"ä"]
    compares = [("eq", operator.eq), ("ne", operator.ne), ("ge", operator.ge),
                ("le", operator.le), ("lt", operator.lt), ("gt", operator.gt)]
    for cname, cfunc in compares:
        for current in (6, 0, True, False, "5", lazy("six", 6), lazy("T", True)):
            for cls in (ValueObject, NumberValueObject, BoolValueObject):
                vo = cls(current, cfunc)
                row = []
                for tag_value in tag_values:
                    row.append(attempt(vo.matches, tag_value))
                label = current if not callable(current) else "lazy"
                out(cls.__name__, cname, repr(label), row, drain_calls(), drain_log())
    for cname, cfunc in compares:
        for current in ((3, 12), (3,), (2, 7, 18), "3.12", lazy("v", (3, 10))):
            vo = VersionValueObject(current, cfunc)
            row = [attempt(vo.matches, tv) for tv in tag_values + [(3, 12), None, 3]]
            label = current if not callable(current) else "lazy"
            out("VersionValueObject", cname, repr(label), row, drain_calls(), drain_log())

    out("-- non-string tag values")
    for cls in (ValueObject, NumberValueObject, BoolValueObject):
        vo = cls(1)
        out(cls.__name__, [attempt(vo.matches, tv)
                           for tv in (1, 0, None, 1.5, True, [], [1], (1,), b"1")],
            drain_log())
    out("to_bool:", [attempt(BoolValueObject.to_bool, v) for v in
                     ("true", "TRUE", "yes", "On", "false", "no", "oFF", "", "x",
                      1, 0, None, [], [0], u"ja")])

    out("-- conversions / repr")
    out(str(ValueObject("x")), str(ValueObject(lazy("s", 3))), drain_calls())
    out(repr(ValueObject("x", len)), repr(NumberValueObject(lazy("r", 3), max)),
        drain_calls())
    out(attempt(int, NumberValueObject("12")), attempt(int, NumberValueObject("x")),
        attempt(int, NumberValueObject(lazy("i", 4.7))), drain_calls())
    out(bool(BoolValueObject(0)), bool(BoolValueObject(lazy("b", "no"))), drain_calls())
    out(attempt(ValueObject, 1, None)[:2], attempt(ValueObject, 1, compare=3)[:2])
    out(ValueObject.on_type_conversion_error("tv", ValueError("e1")), drain_log())
    out(NumberValueObject(1).on_type_conversion_error(u"ä", KeyError("k")),
        drain_log())

    class LoudNumber(NumberValueObject):
        def on_type_conversion_error(self, tag_value, e):
            CALLS.append("conv-error:%r:%s:%s" % (tag_value, type(e).__name__, e))
            return "custom-result"

        @classmethod
        def to_bool(cls, value):
            CALLS.append("to_bool:%r" % (value,))
            return value

    class LoudBool(BoolValueObject):
        def on_type_conversion_error(self, tag_value, e):
            CALLS.append("conv-error:%r:%s:%s" % (tag_value, type(e).__name__, e))
            return None

        @classmethod
        def to_bool(cls, value):
            CALLS.append("to_bool:%r" % (value,))
            if value == "explode":
                raise KeyError("explode")
            return super(LoudBool, cls).to_bool(value)

    class Base2(ValueObject):
        def matches(self, tag_value):
            CALLS.append("Base2.matches:%r" % (tag_value,))
            return super(Base2, self).matches(tag_value)

    class Diamond(NumberValueObject, Base2):
        pass

    class DiamondBool(BoolValueObject, Base2):
        pass

    for vo in (LoudNumber(5), LoudBool(True), Diamond(5), DiamondBool(True),
               LoudNumber(5, raising_compare(ValueError("cmp-ve")))):
        for tv in ("5", "x", "yes", "explode", ""):
            out(vo.__class__.__name__, tv, attempt(vo.matches, tv),
                drain_calls(), drain_log())
        m = ActiveTagMatcher({"a": vo})
        for tags in (["use.with_a=5"], ["use.with_a=x"], ["not.with_a=x"],
                     ["not.with_a=yes", "use.with_a=5"]):
            out(vo.__class__.__name__, tags, attempt(m.should_exclude_with, tags),
                drain_calls(), drain_log())

    out("-- module providers")
    for module in (at_python, at_python_feature):
        provider = module.ACTIVE_TAG_VALUE_PROVIDER
        m = ActiveTagMatcher(provider)
        for category in sorted(provider.keys()):
            value = provider[category]
            out(module.__name__, category, type(value).__name__)
            for tv in ("yes", "no", "true", "false", "3.0", "3.12", "4.0", "2.7",
                       "cpython", "linux", "junk", ""):
                tags = ["use.with_%s=%s" % (category, tv)]
                ntags = ["not.with_%s=%s" % (category, tv)]
                out("   ", tv, attempt(m.should_exclude_with, tags),
                    attempt(m.should_exclude_with, ntags), drain_log())


# ---------------------------------------------------------------------------
# SECTION 4: value providers and composite caching
# ---------------------------------------------------------------------------
class LoggingProvider(object):
    def __init__(self, name, data, with_keys=True):
        self.name = name
        self._data = data
        if with_keys:
            self.keys = self._keys

    def get(self, category, default=None):
        CALLS.append("%s.get(%s,%s)" % (
            self.name, category,
            "Unknown" if default is Unknown else repr(default)))
        return self._data.get(category, default)

    def _keys(self):
        CALLS.append("%s.keys" % self.name)
        return list(self._data.keys())


class FailingProvider(object):
    def get(self, category, default=None):
        CALLS.append("failing.get(%s)" % category)
        raise LookupError("no %s" % category)


def describe_cache(provider):
    items = []
    for key in sorted(provider.data.keys()):
        cached = provider.data[key]
        items.append((key, callable(cached)))
    return items


def section4():
    out("== SECTION 4: value providers")
    base = ActiveTagValueProvider({"a": "1", "l": lazy("l", "lv"), "n": None,
                                   "u": Unknown, "z": 0})
    for category in ("a", "l", "n", "u", "z", "missing"):
        out(category, attempt(base.get, category), attempt(base.get, category, "dflt"),
            attempt(base.get, category, Unknown)[0],
            attempt(base.__getitem__, category)[:2], drain_calls())
    out("items:", attempt(lambda: sorted(base.items(), key=lambda x: x[0])), drain_calls())
    out("values:", attempt(lambda: list(base.values()))[:2], drain_calls())
    out("categories:", sorted(base.categories()), len(base), "a" in base)
    out("empty:", ActiveTagValueProvider().data, ActiveTagValueProvider(None).data)
    out("use_value:", ActiveTagValueProvider.use_value(3),
        ActiveTagValueProvider.use_value(lazy("uv", lazy("inner", 1))) is not None,
        drain_calls())

    out("-- composite")
    store1 = {"a": "1", "shared": "from-p1"}
    store2 = {"b": lazy("b", "2"), "shared": "from-p2", "none": None}
    store3 = {"c": ValueObject(lazy("c", 3), logged_compare("eq", operator.eq))}
    p1 = LoggingProvider("p1", store1)
    p2 = LoggingProvider("p2", store2, with_keys=False)
    p3 = ActiveTagValueProvider(store3)
    inner = CompositeActiveTagValueProvider([p3, LoggingProvider("p4", {"d": "4"})])
    comp = CompositeActiveTagValueProvider((p for p in [p1, p2, inner]))
    out("providers:", type(comp.value_providers).__name__, len(comp.value_providers))
    for round_no in (1, 2, 3):
        for category in ("a", "b", "shared", "none", "c", "d", "missing"):
            r = attempt(comp.get, category)
            if r[0] == "ok" and isinstance(r[1], ValueObject):
                r = ("ok", "VO:%s" % r[1].__class__.__name__)
            out(round_no, category, r, attempt(comp.get, category, "dflt")
                if category in ("missing", "none", "a") else "-",
                drain_calls(), describe_cache(comp), describe_cache(inner))
        if round_no == 1:
            store1["a"] = "1-changed"
            store2["b"] = lazy("b2", "2-changed")
            store1["missing"] = "late"
        if round_no == 2:
            del store1["a"]
            store2["a"] = "a-from-p2"
    out("getitem:", attempt(comp.__getitem__, "a"), attempt(comp.__getitem__, "qq")[:2],
        drain_calls())
    out("keys:", attempt(lambda: list(comp.keys())), drain_calls())
    out("values:", attempt(lambda: [v if not isinstance(v, ValueObject) else "VO"
                                    for v in comp.values()]), drain_calls())
    out("items:", attempt(lambda: [(k, v if not isinstance(v, ValueObject) else "VO")
                                   for k, v in comp.items()]), drain_calls())
    out("cache:", describe_cache(comp))
    out("get(Unknown-default):", comp.get("nowhere", Unknown) is Unknown,
        comp.get("nowhere") is None, drain_calls())

    out("-- composite: cached entry evaluation")
    comp2 = CompositeActiveTagValueProvider([LoggingProvider("q1", {"k": lazy("k", "kv")})])
    out(attempt(comp2.get, "k"), drain_calls())
    cached = comp2.data["k"]
    out("cached()", attempt(cached), drain_calls())
    out(attempt(comp2.get, "k"), drain_calls())
    comp2.value_providers[:] = []
    out("after-clear:", attempt(comp2.get, "k"), attempt(comp2.get, "other", 7),
        drain_calls())

    out("-- composite: empty / failing / preset cache")
    out(attempt(CompositeActiveTagValueProvider().get, "a", "d0"),
        attempt(CompositeActiveTagValueProvider(None).get, "a"),
        attempt(CompositeActiveTagValueProvider([]).get, "a", Unknown)[0])
    comp3 = CompositeActiveTagValueProvider([{"a": "1"}, FailingProvider(), {"b": "2"}])
    out(attempt(comp3.get, "a"), drain_calls(), describe_cache(comp3))
    out(attempt(comp3.get, "b"), drain_calls(), describe_cache(comp3))
    out(attempt(comp3.get, "a"), drain_calls(), describe_cache(comp3))
    comp4 = CompositeActiveTagValueProvider([LoggingProvider("r1", {"a": "real"})])
    comp4.data["a"] = "preset"
    comp4.data["f"] = lazy("preset-f", "pf")
    comp4.data["n"] = None
    out(attempt(comp4.get, "a"), attempt(comp4.get, "f"), attempt(comp4.get, "n", "dd"),
        drain_calls(), describe_cache(comp4))
    comp5 = CompositeActiveTagValueProvider([{"a": None}, {"a": "second"}])
    out(attempt(comp5.get, "a", "dflt"), attempt(comp5.get, "a", "dflt"),
        describe_cache(comp5))
    comp6 = CompositeActiveTagValueProvider(
        [{"a": Unknown}, LoggingProvider("s2", {"a": lazy("s2a", "second")})])
    out(attempt(comp6.get, "a", "dflt"), attempt(comp6.get, "a", "dflt"),
        drain_calls(), describe_cache(comp6))
    out("iface:", IActiveTagValueProvider().get("x") is NotImplemented)

    out("-- composite with matcher")
    comp7 = CompositeActiveTagValueProvider([
        LoggingProvider("m1", {"a": "1"}),
        LoggingProvider("m2", {"b": lazy("mb", "x"),
                               "n": NumberValueObject(lazy("mn", 5), operator.ge)}),
    ])
    for ignore in (True, False):
        m = ActiveTagMatcher(comp7, ignore_unknown_categories=ignore)
        m.use_exclude_reason = True
        for tags in (["use.with_a=1"], ["use.with_b=y", "use.with_a=1"],
                     ["not.with_b=x"], ["use.with_n=4", "not.with_q=1"],
                     ["use.with_n=6"], ["use.with_q=1"], ["use.with_n=4", "use.with_b=y"]):
            m.exclude_reason = None
            out(ignore, tags, attempt(m.should_exclude_with, tags), m.exclude_reason,
                drain_calls(), describe_cache(comp7))

    out("-- utilities")
    out([bool_to_string(v) for v in (True, False, 1, 0, "", "no", None)])
    values = {"a": "1", "b": "2"}
    setup_active_tag_values(values, {"b": "B", "c": "C"})
    out(sorted(values.items()))
    print_active_tags({"a": "1"})
    print_active_tags(ActiveTagValueProvider({"l": lazy("pl", "v")}), ["l", "zz"])
    print_active_tags(comp7)
    out(drain_calls())


# ---------------------------------------------------------------------------
# SECTION 5: schemas, prefixes, separators, composite matchers
# ---------------------------------------------------------------------------
def section5():
    out("== SECTION 5: schemas / prefixes / separators / composite matchers")
    out("pattern:", ActiveTagMatcher.make_tag_pattern(["use", "not"]).pattern)
    out("pattern:", ActiveTagMatcher.make_tag_pattern(["a"], ":").pattern)
    out("pattern:", ActiveTagMatcher.make_tag_pattern([]).pattern)
    out("pattern:", attempt(ActiveTagMatcher.make_tag_pattern, None)[:2])
    out("pattern:", attempt(ActiveTagMatcher.make_tag_pattern, ["("])[:2])
    out("pattern:", ActiveTagMatcher.make_tag_pattern(("x", "y"), "").pattern)
    out("tags:", [
        ActiveTagMatcher.make_category_tag("foo"),
        ActiveTagMatcher.make_category_tag("foo", "v"),
        ActiveTagMatcher.make_category_tag("foo", 0),
        ActiveTagMatcher.make_category_tag("foo", "v", "not"),
        ActiveTagMatcher.make_category_tag("foo", "v", "only", ":"),
        ActiveTagMatcher.make_category_tag("foo", None, "", ""),
    ])
    configs = [
        dict(),
        dict(tag_prefixes=["use", "not"]),
        dict(tag_prefixes=["active", "not_active"]),
        dict(tag_prefixes=["only", "never", "notable"]),
        dict(value_separator=":"),
        dict(tag_prefixes=["if", "not_if"], value_separator="=="),
        dict(tag_prefixes=[]),
    ]
    universe = ["use.with_a=1", "not.with_a=1", "active.with_a=2",
                "not_active.with_a=1", "only.with_a=2", "never.with_a=1",
                "notable.with_a=1", "use.with_a:1", "not.with_a:1",
                "if.with_a==1", "not_if.with_a==1", "if.with_a=1",
                "use.with_a==1", ".with_a=1", "plain"]
    for config in configs:
        m = attempt(ActiveTagMatcher, {"a": "1"}, **config)
        out("config:", sorted(config.items()), m[0])
        if m[0] != "ok":
            out(m)
            continue
        m = m[1]
        out("  attrs:", m.tag_prefixes, m.tag_pattern.pattern,
            m.ignore_unknown_categories, m.exclude_reason, m.value_provider)
        for size in (1, 2):
            for tags in itertools.combinations(universe, size):
                out("  ", ",".join(tags), attempt(m.should_exclude_with, tags),
                    attempt(m.should_run_with, tags))
    m = ActiveTagMatcher(None)
    out("none-provider:", m.value_provider, m.should_exclude_with(["use.with_a=1"]))
    m = ActiveTagMatcher(None, ignore_unknown_categories=False)
    m.use_exclude_reason = True
    out("none-provider strict:", m.should_exclude_with(["use.with_a=1"]),
        m.should_exclude_with(["not.with_a=1"]),
        m.should_exclude_with(["use.with_a=None"]),
        m.should_exclude_with(["use.with_a=<class 'behave._types.Unknown'>"]),
        m.exclude_reason)

    class Schema2(ActiveTagMatcher):
        value_separator = ":"
        tag_prefixes = ["on", "not_on"]
        ignore_unknown_categories = False
        use_exclude_reason = True
    m = Schema2({"os": "linux"})
    for tags in (["on.with_os:linux"], ["on.with_os:win"], ["not_on.with_os:linux"],
                 ["on.with_arch:x"], ["use.with_os=win"],
                 ["on.with_os:win", "on.with_os:linux", "not_on.with_os:mac"]):
        m.exclude_reason = None
        out("schema2", tags, m.should_exclude_with(tags), m.should_run_with(tags),
            m.exclude_reason)
    out("schema2-tag:", Schema2.make_category_tag("os", "linux"))

    out("-- composite tag matcher")
    def predicate(name, result):
        def func(tags):
            CALLS.append("pred:%s:%s" % (name, list(tags)))
            if isinstance(result, Exception):
                raise result
            return result
        return func
    out(attempt(TagMatcher().should_exclude_with, []), attempt(TagMatcher().should_run_with, []))
    out(attempt(PredicateTagMatcher, None)[:2])
    out(CompositeTagMatcher().tag_matchers, CompositeTagMatcher(()).tag_matchers,
        CompositeTagMatcher().should_exclude_with(["x"]),
        CompositeTagMatcher(None).should_run_with(["x"]))
    outcomes = [False, True, 0, 1, "", "yes", None, RuntimeError("pred-fail")]
    for combo in itertools.product(outcomes, repeat=2):
        matchers = [PredicateTagMatcher(predicate("p%d" % i, r))
                    for i, r in enumerate(combo)]
        cm = CompositeTagMatcher(matchers)
        out([repr(c) for c in combo], attempt(cm.should_exclude_with, ["t1"]),
            attempt(cm.should_run_with, ("t2",)), drain_calls())
    am1 = ActiveTagMatcher({"a": ValueObject(lazy("ca", "1"))})
    am2 = ActiveTagMatcher({"b": ValueObject(lazy("cb", "x"))})
    am1.use_exclude_reason = am2.use_exclude_reason = True
    nested = CompositeTagMatcher([CompositeTagMatcher([am1]), am2,
                                  PredicateTagMatcher(predicate("last", False))])
    for tags in ([], ["use.with_a=1", "use.with_b=x"], ["use.with_a=2", "use.with_b=y"],
                 ["use.with_a=1", "use.with_b=y"], ["not.with_b=x"], ["not.with_c=x"]):
        am1.exclude_reason = am2.exclude_reason = None
        out(tags, nested.should_exclude_with(tags), nested.should_run_with(tags),
            am1.exclude_reason, am2.exclude_reason, drain_calls())


if __name__ == "__main__":
    section1()
    section2()
    section3()
    section4()
    section5()
    out("== DONE")
